// C12 conformance harness: interprets a script of iterator expressions (ndjson on stdin) on real
// xtl iterators and prints, after every call, the call's result and the observable projection
// (container storage, both iterators seen through three observers).  It contains no oracle.
//
// One templated session<K> serves every iterator kind K (iter_kinds.hpp: adapter = container +
// begin()/end()); every operator is used inside a generic lambda with a decltype return type, so an
// operator an iterator kind does not provide is a logged {"unsupported":true} result instead of a
// compile error (the spec rejects it if the kind is supposed to have it).
//
// Compile-time switches (set by checks/c12.py):
//   -DC12_GROUP=<n>           build only one group of kinds (parallel compilation); default all
//   -DCAPS_<kind>=<mask>      which bodies that SFINAE cannot see compile for this kind on this tree
//                             (iter_algos.hpp CAP_*: operator->, std::fill, std::reverse, std::sort);
//                             a call of a switched-off body is logged as unsupported.  Default: all.
//   -DC12_NO_ARRAY_ITERATORS  xoptional_array / xcomplex_array begin()/end() do not compile:
//                             every call on these kinds is logged as unsupported
#include "iter_kinds.hpp"
#include "iter_algos.hpp"
#include <iostream>
#include <cstring>
#include <list>
#include <new>
#include <sys/time.h>

#ifndef C12_GROUP
#define C12_GROUP -1
#endif
#define GROUP(n) (C12_GROUP == -1 || C12_GROUP == (n))

static const char* const UNSUP = "{\"unsupported\":true}";
static const long long NA = -99;

// ------------------------------------------------------------------ detection by expression SFINAE
template <class F, class... A>
auto attempt_(int, const std::string&, F&& f, A&&... a) -> decltype(f(std::forward<A>(a)...))
{
    return f(std::forward<A>(a)...);
}
template <class F, class... A>
std::string attempt_(long, const std::string& fallback, F&&, A&&...)
{
    return fallback;
}
template <class F, class... A>
std::string attempt(const std::string& fallback, F&& f, A&&... a)
{
    return attempt_(0, fallback, std::forward<F>(f), std::forward<A>(a)...);
}

// ==================================================================== the session
struct isession
{
    virtual ~isession() {}
    virtual std::string exec(const vj::value& e) = 0;   // the "res" JSON
    virtual std::string proj() = 0;                      // the "st" JSON
};

// a kind whose iterators cannot even be instantiated on this tree
struct dead_session : isession
{
    std::string exec(const vj::value&) override { return UNSUP; }
    std::string proj() override { return "{\"unsupported\":true}"; }
};

template <class K, unsigned Caps = c12::CAP_ALL>
struct session : isession
{
    using It = typename K::iterator;
    using D = typename c12::diff_of<It>::type;      // It::difference_type (std::ptrdiff_t if the tree's iterator has none)
    template <unsigned Bit> using cap = std::integral_constant<bool, (Caps & Bit) != 0>;
    template <unsigned Bit> using wcap = std::integral_constant<bool, (Caps & Bit) != 0 && K::algo_writable>;
    using traits_ok = c12::has_traits<It>;
    K c;
    It it[2];
    explicit session(const vj::value& a) : c(a), it{c.begin(), c.begin()} {}

    // ---- observers
    long long count_of(const It& x)
    {
        It cur = c.begin();
        long long n = c.size();
        for (long long i = 0; i <= n; ++i)
        {
            if (cur == x) return i;
            if (i < n) ++cur;
        }
        return -1;
    }
    std::string obs(const It& x)
    {
        long long cnt = count_of(x), n = c.size();
        It b = c.begin(), e = c.end();
        vj::out o;
        o.kv("c", cnt);
        o.kraw("d", attempt(std::to_string(NA), [](const auto& y, const auto& bb) RET(std::to_string((long long)(y - bb))), x, b));
        o.kraw("e", attempt(std::to_string(NA), [](const auto& y, const auto& ee) RET(std::to_string((long long)(ee - y))), x, e));
        o.kraw("v", (cnt >= 0 && cnt < n) ? K::tup(*x) : std::string("[]"));
        return o.obj();
    }
    std::string proj() override
    {
        vj::out o;
        o.kv("n", c.size()).kraw("under", under_json(c.under_v())).kraw("a", obs(it[0])).kraw("b", obs(it[1]));
        return o.obj();
    }
    // ---- result constructors (non-template parameters: a wrong result type is a substitution failure too)
    std::string itres(const It& x) { return "{\"it\":" + obs(x) + "}"; }
    std::string boolres(bool b) { return b ? "{\"val\":true}" : "{\"val\":false}"; }
    std::string numres(long long v) { return "{\"val\":" + std::to_string(v) + "}"; }
    template <class R> std::string elemres(const R& r) { return "{\"val\":" + K::tup(r) + "}"; }
    std::string voidres() { return "{\"val\":[]}"; }
    std::string voidres(const It&) { return "{\"val\":[]}"; }

    template <class P> std::string arrow_impl(const It& x, std::true_type)
    {
        return attempt(UNSUP, [](session& s, const auto& y) RET(void(y.operator->()), s.strres(c12::arrow_of<K>(y))), *this, x);
    }
    template <class P> std::string arrow_impl(const It&, std::false_type) { return UNSUP; }
    std::string write_impl(const It& x, const vj::value& v, std::true_type)
    {
        return attempt(UNSUP, [](session& s, const auto& y, const vj::value& vv) RET(K::put(*y, vv), s.voidres()), *this, x, v);
    }
    std::string write_impl(const It&, const vj::value&, std::false_type) { return UNSUP; }
    std::string iwrite_impl(const It& x, D d, const vj::value& v, std::true_type)
    {
        return attempt(UNSUP, [](session& s, const auto& y, D k, const vj::value& vv) RET(K::put(y[k], vv), s.voidres()), *this, x, d, v);
    }
    std::string iwrite_impl(const It&, D, const vj::value&, std::false_type) { return UNSUP; }

    std::string seqres(const std::vector<std::string>& v) { return "{\"val\":" + c12::seq_json(v) + "}"; }
    std::string strres(const std::string& json) { return "{\"val\":" + json + "}"; }

    // ---- std algorithms over [y, z): only for kinds usable with std::iterator_traits (tag dispatch: the
    // algorithms' bodies must not even be instantiated for the others)
    std::string algo(const std::string& op, const It& y, const It& z, const vj::value& a, std::true_type)
    {
        if (op == "StdCopy")         return strres(c12::algo_copy<K>(y, z));
        if (op == "StdCopyBackward") return strres(c12::algo_copy_backward<K>(y, z));
        if (op == "StdReverseCopy")  return strres(c12::algo_reverse_copy<K>(y, z));
        if (op == "StdFind")         return itres(c12::algo_find<K>(y, z, elem_of(a.at("v"))));
        if (op == "StdCount")        return numres(c12::algo_count<K>(y, z, elem_of(a.at("v"))));
        if (op == "StdLowerBound")   return itres(c12::algo_lower_bound<K>(y, z, elem_of(a.at("v"))));
        if (op == "StdEqual")
        {
            It t = c.begin();
            for (long long i = 0; i < a.num("j"); ++i) ++t;
            return boolres(c12::algo_equal<K>(y, z, t));
        }
        if (op == "StdFill")    return fill_impl(y, z, elem_of(a.at("v")), wcap<c12::CAP_FILL>());
        if (op == "StdReverse") return reverse_impl(y, z, wcap<c12::CAP_REVERSE>());
        if (op == "StdSort")    return sort_impl(y, z, wcap<c12::CAP_SORT>());
        if (op == "StdMinElement") return itres(c12::algo_min_element<K>(y, z));
        if (op == "StdCopyWithin")
        {
            It dst = c.begin();
            for (long long i = 0; i < a.num("j"); ++i) ++dst;
            return copywithin_impl(y, z, dst, wcap<c12::CAP_COPYWITHIN>());
        }
        if (op == "StdRotate")
        {
            It mid = y;
            for (long long i = 0; i < a.num("m"); ++i) ++mid;
            return rotate_impl(y, mid, z, wcap<c12::CAP_ROTATE>());
        }
        std::fprintf(stderr, "script: unknown algorithm %s\n", op.c_str());
        std::exit(3);
    }
    std::string algo(const std::string&, const It&, const It&, const vj::value&, std::false_type) { return UNSUP; }
    std::string fill_impl(const It& y, const It& z, const elem_t& v, std::true_type) { c12::algo_fill<K>(y, z, v); return voidres(); }
    std::string fill_impl(const It&, const It&, const elem_t&, std::false_type) { return UNSUP; }
    std::string reverse_impl(const It& y, const It& z, std::true_type) { c12::algo_reverse<K>(y, z); return voidres(); }
    std::string reverse_impl(const It&, const It&, std::false_type) { return UNSUP; }
    std::string sort_impl(const It& y, const It& z, std::true_type)
    {
        return attempt(UNSUP, [](session& s, const auto& yy, const auto& zz) RET(void(yy < zz), void(yy + D(1)), s.do_sort(yy, zz)), *this, y, z);
    }
    std::string sort_impl(const It&, const It&, std::false_type) { return UNSUP; }
    std::string rotate_impl(const It& y, const It& mid, const It& z, std::true_type) { return itres(c12::algo_rotate<K>(y, mid, z)); }
    std::string rotate_impl(const It&, const It&, const It&, std::false_type) { return UNSUP; }
    std::string copywithin_impl(const It& y, const It& z, const It& d, std::true_type) { return itres(c12::algo_copy_within<K>(y, z, d)); }
    std::string copywithin_impl(const It&, const It&, const It&, std::false_type) { return UNSUP; }

    // ---- round 3: singular iterators, multi-pass, mixed iterator / const_iterator expressions
    std::string dcassign(const It& z, std::true_type)
    {
        // default-initialised over poisoned bytes (what an automatic `It t;` holds is whatever the stack held: here it is
        // deterministic); the only things done with the singular iterator are assignment and destruction
        alignas(It) unsigned char buf[sizeof(It)];
        std::memset(buf, 0xAA, sizeof(buf));
        It* t = new (static_cast<void*>(buf)) It;
        *t = z;
        std::string r = itres(*t);
        t->~It();
        std::memset(buf, 0x55, sizeof(buf));
        It* u = new (static_cast<void*>(buf)) It;      // a singular iterator that is only destroyed
        u->~It();
        return r;
    }
    std::string dcassign(const It&, std::false_type) { return UNSUP; }
    std::string multipass(const It& x, long long m)
    {
        It c1(x), c2(x);
        std::vector<std::string> o1, o2;
        for (long long i = 0; i < m; ++i) { o1.push_back(K::tup(*c1)); ++c1; }
        for (long long i = 0; i < m; ++i) { o2.push_back(K::tup(*c2)); c2++; }
        vj::out o;
        o.kraw("first", c12::seq_json(o1)).kraw("second", c12::seq_json(o2)).kraw("eq", (c1 == c2) ? "true" : "false").kraw("it", obs(c1));
        return o.obj();
    }
    // the const twin of the kind (K::citerator, K::cbegin(), K::cend()), if the adapter names one
    template <class CIt> std::string cobs(const CIt& x)
    {
        CIt cur = c.cbegin();
        long long n = c.size(), cnt = -1;
        for (long long i = 0; i <= n; ++i)
        {
            if (cur == x) { cnt = i; break; }
            if (i < n) ++cur;
        }
        CIt b = c.cbegin(), e = c.cend();
        vj::out o;
        o.kv("c", cnt);
        o.kraw("d", attempt(std::to_string(NA), [](const auto& y, const auto& bb) RET(std::to_string((long long)(y - bb))), x, b));
        o.kraw("e", attempt(std::to_string(NA), [](const auto& y, const auto& ee) RET(std::to_string((long long)(ee - y))), x, e));
        o.kraw("v", (cnt >= 0 && cnt < n) ? K::tup(*x) : std::string("[]"));
        return "{\"it\":" + o.obj() + "}";
    }
    template <class KK> auto toconst(const It& x, int) -> decltype(void(std::declval<KK&>().cbegin()), std::string())
    {
        using CIt = typename KK::citerator;
        return attempt(UNSUP, [](session& s, const auto& y) RET(s.template cobs<CIt>(y)), *this, x);      // implicit conversion It -> CIt
    }
    template <class KK> std::string toconst(const It&, long) { return UNSUP; }
    template <class KK> auto mixed(const std::string& o, const It& x, const It& z, int) -> decltype(void(std::declval<KK&>().cbegin()), std::string())
    {
        using CIt = typename KK::citerator;
        return attempt(UNSUP, [](session& s, const std::string& oo, const auto& y, const auto& zz) RET(s.template mixed2<CIt>(oo, y, zz)), *this, o, x, z);
    }
    template <class KK> std::string mixed(const std::string&, const It&, const It&, long) { return UNSUP; }
    template <class CIt> std::string mixed2(const std::string& o, const It& y, const CIt& cz)      // cz: converted from the other iterator
    {
        session& S = *this;
        if (o == "caps")
        {
            vj::out c;
            c.kraw("conv", "true");
            c.kraw("eq", attempt("false", [](const auto& a, const auto& b) RET(void(a == b), void(b == a), std::string("true")), y, cz));
            c.kraw("ne", attempt("false", [](const auto& a, const auto& b) RET(void(a != b), void(b != a), std::string("true")), y, cz));
            c.kraw("lt", attempt("false", [](const auto& a, const auto& b) RET(void(a < b), void(b < a), std::string("true")), y, cz));
            c.kraw("le", attempt("false", [](const auto& a, const auto& b) RET(void(a <= b), void(b <= a), std::string("true")), y, cz));
            c.kraw("gt", attempt("false", [](const auto& a, const auto& b) RET(void(a > b), void(b > a), std::string("true")), y, cz));
            c.kraw("ge", attempt("false", [](const auto& a, const auto& b) RET(void(a >= b), void(b >= a), std::string("true")), y, cz));
            c.kraw("diff", attempt("false", [](const auto& a, const auto& b) RET(void(a - b), void(b - a), std::string("true")), y, cz));
            return c.obj();
        }
        // both operand orders are evaluated; they must agree (it OP cit, and the mirrored cit OP' it)
        if (o == "eq") return attempt(UNSUP, [](session& s, const auto& a, const auto& b) RET(s.boolres2(a == b, b == a)), S, y, cz);
        if (o == "ne") return attempt(UNSUP, [](session& s, const auto& a, const auto& b) RET(s.boolres2(a != b, b != a)), S, y, cz);
        if (o == "lt") return attempt(UNSUP, [](session& s, const auto& a, const auto& b) RET(s.boolres2(a < b, b > a)), S, y, cz);
        if (o == "le") return attempt(UNSUP, [](session& s, const auto& a, const auto& b) RET(s.boolres2(a <= b, b >= a)), S, y, cz);
        if (o == "gt") return attempt(UNSUP, [](session& s, const auto& a, const auto& b) RET(s.boolres2(a > b, b < a)), S, y, cz);
        if (o == "ge") return attempt(UNSUP, [](session& s, const auto& a, const auto& b) RET(s.boolres2(a >= b, b <= a)), S, y, cz);
        if (o == "diff") return attempt(UNSUP, [](session& s, const auto& a, const auto& b) RET(s.numres2(a - b, b - a)), S, y, cz);
        std::fprintf(stderr, "script: unknown MixedCmp operator %s\n", o.c_str());
        std::exit(3);
    }
    std::string boolres2(bool x, bool mirrored) { return x == mirrored ? boolres(x) : std::string("{\"operand_orders_disagree\":true}"); }
    std::string numres2(long long x, long long neg) { return x == -neg ? numres(x) : std::string("{\"operand_orders_disagree\":true}"); }
    std::string do_sort(const It& y, const It& z) { c12::algo_sort<K>(y, z); return voidres(); }

    // ---- traversal through std::reverse_iterator<It>
    std::string stdrev(bool indexed, std::true_type)
    {
        if (!indexed)
        {
            std::vector<std::string> out;
            const size_t cap = size_t(c.size()) + 2;
            std::reverse_iterator<It> r(c.end()), e(c.begin());
            for (; r != e && out.size() < cap; ++r) out.push_back(K::tup(*r));
            return seqres(out);
        }
        // the members of std::reverse_iterator are not SFINAE-friendly: r[i] and e - r are instantiated only when
        // it - n, it + n (yielding It) and b - a exist for the underlying iterator
        return attempt(UNSUP, [](session& s, const auto& b) RET(void(static_cast<const It&>(b - D(1))), void(static_cast<const It&>(b + D(1))),
                                                                void(D(b - b)), s.stdrev_indexed()), *this, c.begin());
    }
    std::string stdrev(bool, std::false_type) { return UNSUP; }
    std::string stdrev_indexed()
    {
        std::vector<std::string> out;
        const size_t cap = size_t(c.size()) + 2;
        std::reverse_iterator<It> r(c.end()), e(c.begin());
        for (D i = 0; i < e - r && out.size() < cap; ++i) out.push_back(K::tup(r[i]));
        return seqres(out);
    }

    // ---- value-initialised iterators
    std::string valueinit(const std::string& o, std::true_type)
    {
        It a{}, b{};
        const It& ca = a;
        const It& cb = b;
        session& S = *this;
        if (o == "eq") return attempt(UNSUP, [](session& s, const auto& y, const auto& z) RET(s.boolres(y == z)), S, ca, cb);
        if (o == "ne") return attempt(UNSUP, [](session& s, const auto& y, const auto& z) RET(s.boolres(y != z)), S, ca, cb);
        if (o == "lt") return attempt(UNSUP, [](session& s, const auto& y, const auto& z) RET(s.boolres(y < z)), S, ca, cb);
        if (o == "le") return attempt(UNSUP, [](session& s, const auto& y, const auto& z) RET(s.boolres(y <= z)), S, ca, cb);
        if (o == "gt") return attempt(UNSUP, [](session& s, const auto& y, const auto& z) RET(s.boolres(y > z)), S, ca, cb);
        if (o == "ge") return attempt(UNSUP, [](session& s, const auto& y, const auto& z) RET(s.boolres(y >= z)), S, ca, cb);
        std::fprintf(stderr, "script: unknown ValueInit comparison %s\n", o.c_str());
        std::exit(3);
    }
    std::string valueinit(const std::string&, std::false_type) { return UNSUP; }

    std::string exec(const vj::value& e) override
    {
        const std::string& op = e.str("op");
        int w = int(e.num("k", 1)) - 1;
        if (w < 0 || w > 1) w = 0;
        const vj::value& a = e.at("a");
        It& x = it[w];
        const It& cx = it[w];
        const It& cz = it[1 - w];
        const D d = D(a.num("k", 0));
        const std::size_t u = std::size_t(a.num("k", 0));
        const long long n = c.size();
        session& S = *this;

        if (op == "Reset") return voidres();
        if (op == "SelfTestSpin") { volatile unsigned long spin = 0; for (;;) spin = spin + 1; }   // ./verif selftest C12: the per-call CPU limit
        if (op == "Seat")
        {
            const std::string& via = a.str("via");
            long long tgt[2] = {a.num("p"), a.num("q")};
            for (int j = 0; j < 2; ++j)
            {
                std::string r = "ok";
                if (via == "inc") { It t = c.begin(); for (long long i = 0; i < tgt[j]; ++i) ++t; it[j] = t; }
                else if (via == "dec") { It t = c.end(); for (long long i = n; i > tgt[j]; --i) --t; it[j] = t; }
                else if (via == "add")
                    r = attempt(UNSUP, [](auto& dst, const auto& b, D k) RET(void(dst = b + k), std::string("ok")), it[j], c.begin(), D(tgt[j]));
                else
                    r = attempt(UNSUP, [](auto& dst, const auto& en, D k) RET(void(dst = en - k), std::string("ok")), it[j], c.end(), D(n - tgt[j]));
                if (r != "ok") return r;
            }
            return voidres();
        }
        if (op == "PreInc")  return attempt(UNSUP, [](session& s, auto& y) RET(s.itres(++y)), S, x);
        if (op == "PostInc") return attempt(UNSUP, [](session& s, auto& y) RET(s.itres(y++)), S, x);
        if (op == "PreDec")  return attempt(UNSUP, [](session& s, auto& y) RET(s.itres(--y)), S, x);
        if (op == "PostDec") return attempt(UNSUP, [](session& s, auto& y) RET(s.itres(y--)), S, x);
        if (op == "PostIncDeref") return attempt(UNSUP, [](session& s, auto& y) RET(s.elemres(*y++)), S, x);
        if (op == "PostDecDeref") return attempt(UNSUP, [](session& s, auto& y) RET(s.elemres(*y--)), S, x);
        if (op == "DcAssign")  return dcassign(cx, std::is_default_constructible<It>());
        if (op == "MultiPass") return multipass(cx, a.num("m"));
        if (op == "ToConst")   return toconst<K>(cx, 0);
        if (op == "MixedCmp" || op == "MixedCaps") return mixed<K>(op == "MixedCaps" ? std::string("caps") : a.str("o"), cx, cz, 0);
        if (op == "Deref")   return attempt(UNSUP, [](session& s, const auto& y) RET(s.elemres(*y)), S, cx);
        if (op == "Arrow")   return arrow_impl<void>(cx, cap<c12::CAP_ARROW>());
        if (op == "Eq")      return attempt(UNSUP, [](session& s, const auto& y, const auto& z) RET(s.boolres(y == z)), S, cx, cz);
        if (op == "Ne")      return attempt(UNSUP, [](session& s, const auto& y, const auto& z) RET(s.boolres(y != z)), S, cx, cz);
        if (op == "Lt")      return attempt(UNSUP, [](session& s, const auto& y, const auto& z) RET(s.boolres(y < z)), S, cx, cz);
        if (op == "Le")      return attempt(UNSUP, [](session& s, const auto& y, const auto& z) RET(s.boolres(y <= z)), S, cx, cz);
        if (op == "Gt")      return attempt(UNSUP, [](session& s, const auto& y, const auto& z) RET(s.boolres(y > z)), S, cx, cz);
        if (op == "Ge")      return attempt(UNSUP, [](session& s, const auto& y, const auto& z) RET(s.boolres(y >= z)), S, cx, cz);
        if (op == "Diff")    return attempt(UNSUP, [](session& s, const auto& y, const auto& z) RET(s.numres(y - z)), S, cx, cz);
        if (op == "Assign")  { It tmp(cz); return attempt(UNSUP, [](session& s, auto& y, const auto& z) RET(s.voidres(y = z)), S, x, tmp); }
        if (op == "AddAssign") return attempt(UNSUP, [](session& s, auto& y, D k) RET(s.itres(y += k)), S, x, d);
        if (op == "SubAssign") return attempt(UNSUP, [](session& s, auto& y, D k) RET(s.itres(y -= k)), S, x, d);
        if (op == "Plus")      return attempt(UNSUP, [](session& s, const auto& y, D k) RET(s.itres(y + k)), S, cx, d);
        if (op == "PlusLeft")  return attempt(UNSUP, [](session& s, const auto& y, D k) RET(s.itres(k + y)), S, cx, d);
        if (op == "Minus")     return attempt(UNSUP, [](session& s, const auto& y, D k) RET(s.itres(y - k)), S, cx, d);
        if (op == "Index")     return attempt(UNSUP, [](session& s, const auto& y, D k) RET(s.elemres(y[k])), S, cx, d);
        if (op == "PlusU")     return attempt(UNSUP, [](session& s, const auto& y, std::size_t k) RET(s.itres(y + k)), S, cx, u);
        if (op == "PlusLeftU") return attempt(UNSUP, [](session& s, const auto& y, std::size_t k) RET(s.itres(k + y)), S, cx, u);
        if (op == "MinusU")    return attempt(UNSUP, [](session& s, const auto& y, std::size_t k) RET(s.itres(y - k)), S, cx, u);
        if (op == "IndexU")    return attempt(UNSUP, [](session& s, const auto& y, std::size_t k) RET(s.elemres(y[k])), S, cx, u);
        if (op == "StdAdvance")
            return attempt(UNSUP, [](session& s, auto& y, D k) RET(void(typename std::iterator_traits<std::decay_t<decltype(y)>>::iterator_category()), std::advance(y, k), s.voidres()), S, x, d);
        if (op == "StdDistance")
            return attempt(UNSUP, [](session& s, auto& y, const auto& z) RET(void(typename std::iterator_traits<std::decay_t<decltype(y)>>::iterator_category()), s.numres(std::distance(y, z))), S, cx, cz);
        if (op == "StdNext")
            return attempt(UNSUP, [](session& s, auto& y, D k) RET(void(typename std::iterator_traits<std::decay_t<decltype(y)>>::iterator_category()), s.itres(std::next(y, k))), S, cx, d);
        if (op == "StdPrev")
            return attempt(UNSUP, [](session& s, auto& y, D k) RET(void(typename std::iterator_traits<std::decay_t<decltype(y)>>::iterator_category()), s.itres(std::prev(y, k))), S, cx, d);
        if (op == "EqualM")    return attempt(UNSUP, [](session& s, const auto& y, const auto& z) RET(s.boolres(y.equal(z))), S, cx, cz);
        if (op == "LessThanM") return attempt(UNSUP, [](session& s, const auto& y, const auto& z) RET(s.boolres(y.less_than(z))), S, cx, cz);
        if (op == "ValueInit") return valueinit(a.str("o"), std::is_default_constructible<It>());
        if (op.compare(0, 3, "Std") == 0 && op != "StdAdvance" && op != "StdDistance" && op != "StdNext" && op != "StdPrev")
            return algo(op, cx, cz, a, traits_ok());
        if (op == "Write") return write_impl(cx, a.at("v"), std::integral_constant<bool, K::writable>());
        if (op == "IndexWrite") return iwrite_impl(cx, d, a.at("v"), std::integral_constant<bool, K::writable>());
        if (op == "TraverseForward" || op == "TraverseReverse")
        {
            const std::string& how = a.str("how");
            std::vector<std::string> out;
            const size_t cap = size_t(n) + 2;     // a loop that does not stop is cut (and then rejected by the spec)
            It b = c.begin(), en = c.end();
            std::string r = "ok";
            if (op == "TraverseForward")
            {
                if (how == "pre")
                    r = attempt(UNSUP, [&out, cap](auto t, const auto& ee) -> decltype(void(t != ee), void(++t), void(*t), std::string())
                        { for (; t != ee && out.size() < cap; ++t) out.push_back(K::tup(*t)); return "ok"; }, b, en);
                else if (how == "post")
                    r = attempt(UNSUP, [&out, cap](auto t, const auto& ee) -> decltype(void(t != ee), void(*t++), std::string())
                        { while (t != ee && out.size() < cap) out.push_back(K::tup(*t++)); return "ok"; }, b, en);
                else if (how == "lt")
                    r = attempt(UNSUP, [&out, cap](auto t, const auto& ee) -> decltype(void(t < ee), void(++t), std::string())
                        { for (; t < ee && out.size() < cap; ++t) out.push_back(K::tup(*t)); return "ok"; }, b, en);
                else if (how == "index")
                    r = attempt(UNSUP, [&out, cap](const auto& bb, const auto& ee) -> decltype(void(bb[D(0)]), void(D(0) < ee - bb), std::string())
                        { for (D i = 0; i < ee - bb && out.size() < cap; ++i) out.push_back(K::tup(bb[i])); return "ok"; }, b, en);
                else if (how == "plus")
                    r = attempt(UNSUP, [&out, cap](auto t, const auto& ee) -> decltype(void(t = t + D(1)), void(t != ee), std::string())
                        { for (; t != ee && out.size() < cap; t = t + D(1)) out.push_back(K::tup(*t)); return "ok"; }, b, en);
                else { std::fprintf(stderr, "script: unknown how %s\n", how.c_str()); std::exit(3); }
            }
            else
            {
                if (how == "pre")
                    r = attempt(UNSUP, [&out, cap](auto t, const auto& bb) -> decltype(void(t != bb), void(*--t), std::string())
                        { while (t != bb && out.size() < cap) out.push_back(K::tup(*--t)); return "ok"; }, en, b);
                else if (how == "post")
                    r = attempt(UNSUP, [&out, cap](auto t, const auto& bb) -> decltype(void(t != bb), void(t--), std::string())
                        { while (t != bb && out.size() < cap) { t--; out.push_back(K::tup(*t)); } return "ok"; }, en, b);
                else if (how == "gt")
                    r = attempt(UNSUP, [&out, cap](auto t, const auto& bb) -> decltype(void(t > bb), void(--t), std::string())
                        { while (t > bb && out.size() < cap) out.push_back(K::tup(*--t)); return "ok"; }, en, b);
                else if (how == "minus")
                    r = attempt(UNSUP, [&out, cap](auto t, const auto& bb) -> decltype(void(t = t - D(1)), void(t != bb), std::string())
                        { while (t != bb && out.size() < cap) { t = t - D(1); out.push_back(K::tup(*t)); } return "ok"; }, en, b);
                else if (how == "stdrev") return stdrev(false, traits_ok());
                else if (how == "stdrevidx") return stdrev(true, traits_ok());
                else { std::fprintf(stderr, "script: unknown how %s\n", how.c_str()); std::exit(3); }
            }
            if (r != "ok") return r;
            return seqres(out);
        }
        std::fprintf(stderr, "script: unknown op %s\n", op.c_str());
        std::exit(3);
    }
};

// ==================================================================== kind table
// capability masks (bodies SFINAE cannot see), one per kind, set by checks/c12.py from its compile probes
#ifndef CAPS_bit8_it
#define CAPS_bit8_it c12::CAP_ALL
#endif
#ifndef CAPS_bit8_cit
#define CAPS_bit8_cit c12::CAP_ALL
#endif
#ifndef CAPS_bit8_rit
#define CAPS_bit8_rit c12::CAP_ALL
#endif
#ifndef CAPS_bit8_crit
#define CAPS_bit8_crit c12::CAP_ALL
#endif
#ifndef CAPS_bit64_it
#define CAPS_bit64_it c12::CAP_ALL
#endif
#ifndef CAPS_bit64_cit
#define CAPS_bit64_cit c12::CAP_ALL
#endif
#ifndef CAPS_bitv8_it
#define CAPS_bitv8_it c12::CAP_ALL
#endif
#ifndef CAPS_bitv8_cit
#define CAPS_bitv8_cit c12::CAP_ALL
#endif
#ifndef CAPS_optvec_it
#define CAPS_optvec_it c12::CAP_ALL
#endif
#ifndef CAPS_optvec_cit
#define CAPS_optvec_cit c12::CAP_ALL
#endif
#ifndef CAPS_optvec_rit
#define CAPS_optvec_rit c12::CAP_ALL
#endif
#ifndef CAPS_optvec_crit
#define CAPS_optvec_crit c12::CAP_ALL
#endif
#ifndef CAPS_cplxvec_it
#define CAPS_cplxvec_it c12::CAP_ALL
#endif
#ifndef CAPS_cplxvec_cit
#define CAPS_cplxvec_cit c12::CAP_ALL
#endif
#ifndef CAPS_cplxvec_rit
#define CAPS_cplxvec_rit c12::CAP_ALL
#endif
#ifndef CAPS_cplxvec_crit
#define CAPS_cplxvec_crit c12::CAP_ALL
#endif
#ifndef CAPS_step_vec
#define CAPS_step_vec c12::CAP_ALL
#endif
#ifndef CAPS_step_cvec
#define CAPS_step_cvec c12::CAP_ALL
#endif
#ifndef CAPS_step_ptr
#define CAPS_step_ptr c12::CAP_ALL
#endif
#ifndef CAPS_key_map
#define CAPS_key_map c12::CAP_ALL
#endif
#ifndef CAPS_value_map
#define CAPS_value_map c12::CAP_ALL
#endif
#ifndef CAPS_cvalue_map
#define CAPS_cvalue_map c12::CAP_ALL
#endif
#ifndef CAPS_key_mmap
#define CAPS_key_mmap c12::CAP_ALL
#endif
#ifndef CAPS_value_mmap
#define CAPS_value_mmap c12::CAP_ALL
#endif
#ifndef CAPS_step_neg
#define CAPS_step_neg c12::CAP_ALL
#endif
#ifndef CAPS_toy_bi1
#define CAPS_toy_bi1 c12::CAP_ALL
#endif
#ifndef CAPS_toy_bi2
#define CAPS_toy_bi2 c12::CAP_ALL
#endif
#ifndef CAPS_toy_bi3
#define CAPS_toy_bi3 c12::CAP_ALL
#endif
#ifndef CAPS_toy_ra1
#define CAPS_toy_ra1 c12::CAP_ALL
#endif
#ifndef CAPS_toy_ra2
#define CAPS_toy_ra2 c12::CAP_ALL
#endif
#ifndef CAPS_toy_ra3
#define CAPS_toy_ra3 c12::CAP_ALL
#endif
#ifndef CAPS_toy_ext_int
#define CAPS_toy_ext_int c12::CAP_ALL
#endif
#ifndef CAPS_toy_ext_long
#define CAPS_toy_ext_long c12::CAP_ALL
#endif
#ifndef CAPS_optvec_srit
#define CAPS_optvec_srit c12::CAP_ALL
#endif
#ifndef CAPS_cplxvec_srit
#define CAPS_cplxvec_srit c12::CAP_ALL
#endif
#ifndef CAPS_step_srit
#define CAPS_step_srit c12::CAP_ALL
#endif
#ifndef CAPS_toyra_srit
#define CAPS_toyra_srit c12::CAP_ALL
#endif
#ifndef CAPS_optarr_it
#define CAPS_optarr_it c12::CAP_ALL
#endif
#ifndef CAPS_optarr_cit
#define CAPS_optarr_cit c12::CAP_ALL
#endif
#ifndef CAPS_optarr_rit
#define CAPS_optarr_rit c12::CAP_ALL
#endif
#ifndef CAPS_cplxarr_it
#define CAPS_cplxarr_it c12::CAP_ALL
#endif
#ifndef CAPS_cplxarr_cit
#define CAPS_cplxarr_cit c12::CAP_ALL
#endif
#ifndef CAPS_cplxarr_rit
#define CAPS_cplxarr_rit c12::CAP_ALL
#endif

template <class K, unsigned Caps>
static std::unique_ptr<isession> mk(const vj::value& a)
{
    return std::unique_ptr<isession>(new session<K, Caps>(a));
}

template <template <std::size_t> class KN, unsigned Caps>
static std::unique_ptr<isession> mk_sized(const vj::value& a)
{
    switch (a.num("n"))
    {
    case 0: return mk<KN<0>, Caps>(a);
    case 1: return mk<KN<1>, Caps>(a);
    case 2: return mk<KN<2>, Caps>(a);
    case 3: return mk<KN<3>, Caps>(a);
    case 4: return mk<KN<4>, Caps>(a);
    case 5: return mk<KN<5>, Caps>(a);
    case 6: return mk<KN<6>, Caps>(a);
    default: std::fprintf(stderr, "script: array kinds support n <= 6\n"); std::exit(3);
    }
}

#define KIND(name) if (kind == #name) return mk<k_##name, CAPS_##name>(a);
#ifdef C12_NO_ARRAY_ITERATORS
#define ARRAY_KIND(name) if (kind == #name) return std::unique_ptr<isession>(new dead_session());
#else
#define ARRAY_KIND(name) if (kind == #name) return mk_sized<k_##name, CAPS_##name>(a);
#endif

static std::unique_ptr<isession> make_session(const std::string& kind, const vj::value& a)
{
#if GROUP(0)
    KIND(bit8_it)
    KIND(bit8_cit)
    KIND(bit64_it)
    KIND(bit64_cit)
    KIND(bitv8_it)
    KIND(bitv8_cit)
#endif
#if GROUP(1)
    KIND(optvec_it)
    KIND(optvec_cit)
    KIND(optvec_rit)
    KIND(optvec_crit)
#endif
#if GROUP(2)
    KIND(cplxvec_it)
    KIND(cplxvec_cit)
    KIND(cplxvec_rit)
    KIND(cplxvec_crit)
#endif
#if GROUP(3)
    KIND(step_vec)
    KIND(step_cvec)
    KIND(step_ptr)
    KIND(key_map)
    KIND(value_map)
    KIND(cvalue_map)
    KIND(key_mmap)
    KIND(value_mmap)
    KIND(step_neg)
#endif
#if GROUP(4)
    KIND(toy_bi1)
    KIND(toy_bi2)
    KIND(toy_bi3)
    KIND(toy_ra1)
    KIND(toy_ra2)
    KIND(toy_ra3)
    KIND(toy_ext_int)
    KIND(toy_ext_long)
#endif
#if GROUP(11)
    KIND(bit8_rit)
    KIND(bit8_crit)
    KIND(optvec_srit)
    KIND(cplxvec_srit)
    KIND(step_srit)
    KIND(toyra_srit)
#endif
    // one group per array kind: seven container sizes are seven instantiations of the session
#if GROUP(5)
    ARRAY_KIND(optarr_it)
#endif
#if GROUP(6)
    ARRAY_KIND(optarr_cit)
#endif
#if GROUP(7)
    ARRAY_KIND(optarr_rit)
#endif
#if GROUP(8)
    ARRAY_KIND(cplxarr_it)
#endif
#if GROUP(9)
    ARRAY_KIND(cplxarr_cit)
#endif
#if GROUP(10)
    ARRAY_KIND(cplxarr_rit)
#endif
    std::fprintf(stderr, "script: unknown kind %s in this driver group\n", kind.c_str());
    std::exit(3);
}

// A call that does not return (an iterator that never reaches end() on a broken tree) must end the
// trace like a crash does, not hang the check: 2 s of CPU time per call, re-armed at every event
// (the longest legitimate call, a traversal or std::sort of 70 elements at -O0 with ASan, takes microseconds).
static void on_timeout(int)
{
    std::fflush(stdout);
    vj::crash_line("timeout");
    _exit(0);
}

int main()
{
    vj::install_crash_handlers();
    std::signal(SIGVTALRM, on_timeout);
    std::unique_ptr<isession> s;
    std::string line;
    while (std::getline(std::cin, line))
    {
        if (line.empty()) continue;
        vj::value e = vj::parse(line);
        if (e.find("_meta")) continue;
        struct itimerval tv = {{0, 0}, {2, 0}};
        setitimer(ITIMER_VIRTUAL, &tv, nullptr);
        const std::string& op = e.str("op");
        if (op == "Reset") s = make_session(e.at("a").str("kind"), e.at("a"));
        if (!s) { std::fprintf(stderr, "script: first event must be Reset\n"); return 3; }
        std::string res = s->exec(e);
        std::string st = s->proj();
        // echo the call, then what was observed
        std::string outl = line;
        while (!outl.empty() && (outl.back() == '\n' || outl.back() == '\r' || outl.back() == ' ')) outl.pop_back();
        outl.pop_back();   // the closing brace
        outl += ",\"res\":" + res + ",\"st\":" + st + "}";
        outl += "\n";
        std::fwrite(outl.data(), 1, outl.size(), stdout);   // C stdio: the crash handlers fflush(stdout)
    }
    std::fflush(stdout);
    return 0;
}

// C12 conformance harness: interprets a script of iterator expressions (ndjson on stdin) on real
// xtl iterators and prints, after every call, the call's result and the observable projection
// (container storage, both iterators seen through three observers).  It contains no oracle.
//
// One templated session<K> serves every iterator kind K (adapter = container + begin()/end());
// every operator is used inside a generic lambda with a decltype return type, so an operator an
// iterator kind does not provide is a logged {"unsupported":true} result instead of a compile
// error (the spec rejects it if the kind is supposed to have it).
//
// Compile-time switches (set by checks/c12.py):
//   -DC12_GROUP=<n>           build only one group of kinds (parallel compilation); default all
//   -DC12_NO_STEP_ARROW       xstepping_iterator<class-type iterator>::operator-> does not compile
//                             (a body error SFINAE cannot see): log it as unsupported
//   -DC12_NO_ARRAY_ITERATORS  xoptional_array / xcomplex_array begin()/end() do not compile:
//                             every call on these kinds is logged as unsupported
#include <xtl/xiterator_base.hpp>
#include <xtl/xdynamic_bitset.hpp>
#include <xtl/xoptional_sequence.hpp>
#include <xtl/xcomplex_sequence.hpp>
#include "vjson.hpp"
#include <algorithm>
#include <iostream>
#include <iterator>
#include <list>
#include <map>
#include <memory>
#include <string>
#include <vector>
#include <sys/time.h>

#ifndef C12_GROUP
#define C12_GROUP -1
#endif
#define GROUP(n) (C12_GROUP == -1 || C12_GROUP == (n))

static const char* const UNSUP = "{\"unsupported\":true}";
static const long long NA = -99;

// ------------------------------------------------------------------ detection by expression SFINAE
#define RET(...) -> decltype(__VA_ARGS__) { return __VA_ARGS__; }

template <class F, class... A>
auto attempt_(int, const std::string&, F&& f, A&&... a) -> decltype(f(std::forward<A>(a)...))
{
    return f(std::forward<A>(a)...);
}
template <class F, class... A>
std::string attempt_(long, const std::string& fallback, F&&, A&&...)
{
    return fallback;
}
template <class F, class... A>
std::string attempt(const std::string& fallback, F&& f, A&&... a)
{
    return attempt_(0, fallback, std::forward<F>(f), std::forward<A>(a)...);
}

template <class It, class = void>
struct has_traits : std::false_type {};
template <class It>
struct has_traits<It, decltype(void(typename std::iterator_traits<It>::iterator_category()))> : std::true_type {};

static std::string tuple_json(std::initializer_list<long long> l)
{
    return vj::ints(l);
}

// ------------------------------------------------------------------ element sequences from the script
using elem_t = std::vector<long long>;
static std::vector<elem_t> elems_of(const vj::value& under, bool reversed)
{
    std::vector<elem_t> r;
    for (auto& e : under.a)
    {
        elem_t t;
        for (auto& x : e.a) t.push_back(x.i);
        r.push_back(t);
    }
    if (reversed) std::reverse(r.begin(), r.end());
    return r;
}
static std::string under_json(std::vector<elem_t> v, bool reversed)
{
    if (reversed) std::reverse(v.begin(), v.end());
    std::string s = "[";
    for (size_t i = 0; i < v.size(); ++i) { if (i) s += ','; s += vj::ints(v[i]); }
    return s + "]";
}

// ==================================================================== kinds
// A kind K provides: iterator, K(const vj::value& args), begin(), end(), size() (length of the
// range), under() (the storage read WITHOUT any xtl iterator, in range order), tup(x) (an element
// reference as a JSON tuple), put(ref, v) (assign the JSON tuple v through a reference).

// ---- bitset iterators ------------------------------------------------------------------------
// Mode: 0 iterator, 1 const_iterator, 2 reverse_iterator, 3 const_reverse_iterator
template <class BS, int Mode> struct bit_pick;
template <class BS> struct bit_pick<BS, 0> { using type = typename BS::iterator; static type b(BS& c) { return c.begin(); } static type e(BS& c) { return c.end(); } };
template <class BS> struct bit_pick<BS, 1> { using type = typename BS::const_iterator; static type b(BS& c) { return c.cbegin(); } static type e(BS& c) { return c.cend(); } };
template <class BS> struct bit_pick<BS, 2> { using type = typename BS::reverse_iterator; static type b(BS& c) { return c.rbegin(); } static type e(BS& c) { return c.rend(); } };
template <class BS> struct bit_pick<BS, 3> { using type = typename BS::const_reverse_iterator; static type b(BS& c) { return c.crbegin(); } static type e(BS& c) { return c.crend(); } };

struct bit_elem
{
    template <class R> static std::string tup(const R& r) { return tuple_json({bool(r) ? 1 : 0}); }
    template <class R> static auto put(R&& r, const vj::value& v) RET(void(r = (v.a[0].i != 0)))
};

template <class B, int Mode>
struct bit_kind : bit_elem
{
    using bs_t = xtl::xdynamic_bitset<B>;
    using pick = bit_pick<bs_t, Mode>;
    using iterator = typename pick::type;
    static constexpr bool rev = Mode >= 2;
    // xbitset_reference<B, true> declares operator=(bool) although its body cannot compile: never try it
    static constexpr bool writable = (Mode % 2) == 0;
    bs_t bs;
    explicit bit_kind(const vj::value& a)
    {
        for (auto& e : elems_of(a.at("under"), rev)) bs.push_back(e.at(0) != 0);
    }
    iterator begin() { return pick::b(bs); }
    iterator end() { return pick::e(bs); }
    long long size() const { return (long long)bs.size(); }
    std::string under() const
    {
        std::vector<elem_t> v;
        for (size_t i = 0; i < bs.size(); ++i) v.push_back({bs[i] ? 1 : 0});
        return under_json(v, rev);
    }
};

// iterators of a bitset view over caller memory
template <class B, int Mode>
struct bitview_kind : bit_elem
{
    using bs_t = xtl::xdynamic_bitset_view<B>;
    using pick = bit_pick<bs_t, Mode>;
    using iterator = typename pick::type;
    static constexpr bool rev = Mode >= 2;
    static constexpr bool writable = (Mode % 2) == 0;
    std::vector<B> mem;
    std::unique_ptr<bs_t> bs;
    explicit bitview_kind(const vj::value& a)
    {
        auto el = elems_of(a.at("under"), rev);
        const size_t W = sizeof(B) * 8;
        mem.assign((el.size() + W - 1) / W + 1, B(0));
        bs.reset(new bs_t(mem.data(), el.size()));
        for (size_t i = 0; i < el.size(); ++i) (*bs)[i] = (el[i].at(0) != 0);
    }
    iterator begin() { return pick::b(*bs); }
    iterator end() { return pick::e(*bs); }
    long long size() const { return (long long)bs->size(); }
    std::string under() const
    {
        std::vector<elem_t> v;
        const bs_t& c = *bs;
        for (size_t i = 0; i < c.size(); ++i) v.push_back({c[i] ? 1 : 0});
        return under_json(v, rev);
    }
};

// ---- optional / complex sequences ---------------------------------------------------------------
struct opt_elem
{
    template <class R> static std::string tup(const R& r) { return tuple_json({(long long)r.value(), bool(r.has_value()) ? 1 : 0}); }
    template <class R> static auto put(R&& r, const vj::value& v) RET(void(r = xtl::xoptional<int, bool>(int(v.a[0].i), v.a[1].i != 0)))
};
struct cplx_elem
{
    template <class R> static std::string tup(const R& r) { return tuple_json({(long long)r.real(), (long long)r.imag()}); }
    // xcomplex<double&, double&> closures: write both components through the reference
    template <class R> static auto put(R&& r, const vj::value& v) RET(void(r.real() = double(v.a[0].i)), void(r.imag() = double(v.a[1].i)))
};

template <class C, int Mode> struct seq_pick;
template <class C> struct seq_pick<C, 0> { using type = typename C::iterator; static type b(C& c) { return c.begin(); } static type e(C& c) { return c.end(); } };
template <class C> struct seq_pick<C, 1> { using type = typename C::const_iterator; static type b(C& c) { return c.cbegin(); } static type e(C& c) { return c.cend(); } };
template <class C> struct seq_pick<C, 2> { using type = typename C::reverse_iterator; static type b(C& c) { return c.rbegin(); } static type e(C& c) { return c.rend(); } };
template <class C> struct seq_pick<C, 3> { using type = typename C::const_reverse_iterator; static type b(C& c) { return c.crbegin(); } static type e(C& c) { return c.crend(); } };

template <class C, int Mode>
struct opt_kind : opt_elem
{
    using pick = seq_pick<C, Mode>;
    using iterator = typename pick::type;
    static constexpr bool rev = Mode >= 2;
    static constexpr bool writable = true;     // decided by SFINAE on the reference type
    C c;
    explicit opt_kind(const vj::value& a) : c(size_t(a.num("n")), 0)
    {
        auto el = elems_of(a.at("under"), rev);
        for (size_t i = 0; i < el.size(); ++i) { c.value()[i] = int(el[i].at(0)); c.has_value()[i] = (el[i].at(1) != 0); }
    }
    iterator begin() { return pick::b(c); }
    iterator end() { return pick::e(c); }
    long long size() const { return (long long)c.size(); }
    std::string under() const
    {
        std::vector<elem_t> v;
        const auto& val = c.value();
        const auto& flg = c.has_value();
        // the two storages are reported independently: a flag storage of another length shows up here
        for (size_t i = 0; i < val.size(); ++i) v.push_back({val[i], i < flg.size() ? (flg[i] ? 1 : 0) : -1});
        return under_json(v, rev);
    }
};

template <class C, int Mode>
struct cplx_kind : cplx_elem
{
    using pick = seq_pick<C, Mode>;
    using iterator = typename pick::type;
    static constexpr bool rev = Mode >= 2;
    static constexpr bool writable = true;
    C c;
    explicit cplx_kind(const vj::value& a) : c(size_t(a.num("n")))
    {
        auto el = elems_of(a.at("under"), rev);
        for (size_t i = 0; i < el.size(); ++i) { c.real()[i] = double(el[i].at(0)); c.imag()[i] = double(el[i].at(1)); }
    }
    iterator begin() { return pick::b(c); }
    iterator end() { return pick::e(c); }
    long long size() const { return (long long)c.size(); }
    std::string under() const
    {
        std::vector<elem_t> v;
        for (size_t i = 0; i < c.real().size(); ++i) v.push_back({(long long)c.real()[i], (long long)c.imag()[i]});
        return under_json(v, rev);
    }
};

// ---- xstepping_iterator ---------------------------------------------------------------------------
struct int_elem
{
    template <class R> static std::string tup(const R& r) { return tuple_json({(long long)r}); }
    template <class R> static auto put(R&& r, const vj::value& v) RET(void(r = int(v.a[0].i)))
};

// Sub: 0 std::vector<int>::iterator, 1 std::vector<int>::const_iterator, 2 int*
template <int Sub> struct step_sub;
template <> struct step_sub<0> { using type = std::vector<int>::iterator; static type b(std::vector<int>& v) { return v.begin(); } static type e(std::vector<int>& v) { return v.end(); } };
template <> struct step_sub<1> { using type = std::vector<int>::const_iterator; static type b(std::vector<int>& v) { return v.cbegin(); } static type e(std::vector<int>& v) { return v.cend(); } };
template <> struct step_sub<2> { using type = int*; static type b(std::vector<int>& v) { return v.data(); } static type e(std::vector<int>& v) { return v.data() + v.size(); } };

template <int Sub>
struct step_kind : int_elem
{
    using sub = step_sub<Sub>;
    using iterator = xtl::xstepping_iterator<typename sub::type>;
    static constexpr bool writable = true;
    std::vector<int> v;
    long long step;
    explicit step_kind(const vj::value& a) : step(a.num("step"))
    {
        for (auto& e : elems_of(a.at("under"), false)) v.push_back(int(e.at(0)));
    }
    iterator begin() { return xtl::make_stepping_iterator(sub::b(v), typename iterator::difference_type(step)); }
    iterator end() { return xtl::make_stepping_iterator(sub::e(v), typename iterator::difference_type(step)); }
    long long size() const { return (long long)v.size() / step; }
    std::string under() const
    {
        std::vector<elem_t> r;
        for (int x : v) r.push_back({x});
        return under_json(r, false);
    }
};

// ---- xkey_iterator / xvalue_iterator -----------------------------------------------------------------
// Which: 0 xkey_iterator<map>, 1 xvalue_iterator<map>, 2 xvalue_iterator<const map>
using imap = std::map<int, int>;
template <int Which> struct map_pick;
template <> struct map_pick<0> { using type = xtl::xkey_iterator<imap>; static type b(imap& m) { return type(m.cbegin()); } static type e(imap& m) { return type(m.cend()); } };
template <> struct map_pick<1> { using type = xtl::xvalue_iterator<imap>; static type b(imap& m) { return type(m.begin()); } static type e(imap& m) { return type(m.end()); } };
template <> struct map_pick<2> { using type = xtl::xvalue_iterator<const imap>; static type b(imap& m) { return type(m.cbegin()); } static type e(imap& m) { return type(m.cend()); } };

template <int Which>
struct map_kind : int_elem
{
    using pick = map_pick<Which>;
    using iterator = typename pick::type;
    static constexpr bool writable = true;
    imap m;
    explicit map_kind(const vj::value& a)
    {
        // key kind: element i is the key itself (the script gives increasing keys); value kinds:
        // element i is the mapped value of key i
        auto el = elems_of(a.at("under"), false);
        for (size_t i = 0; i < el.size(); ++i)
        {
            if (Which == 0) m[int(el[i].at(0))] = int(el[i].at(0)) + 1000;
            else m[int(i)] = int(el[i].at(0));
        }
    }
    iterator begin() { return pick::b(m); }
    iterator end() { return pick::e(m); }
    long long size() const { return (long long)m.size(); }
    std::string under() const
    {
        std::vector<elem_t> r;
        for (auto& kv : m) r.push_back({Which == 0 ? kv.first : kv.second});
        return under_json(r, false);
    }
};

// ---- toy iterators, one on each flavour of the bases ---------------------------------------------------
// position in a std::vector<int>; only the primitive operations are defined, everything else must
// come from the xtl base.
namespace toy
{
    struct bi1; struct bi2; struct bi3; struct ra1; struct ra2; struct ra3;
    template <class Tag> class bidir;
    template <class Tag> class randacc;

    template <class I> struct traits
    {
        using iterator_type = I;
        using value_type = int;
        using difference_type = std::ptrdiff_t;
        using pointer = int*;
        using reference = int&;
    };
    template <class Tag> struct base_of;
    template <> struct base_of<bi1> { using type = xtl::xbidirectional_iterator_base<bidir<bi1>, int, std::ptrdiff_t, int*, int&>; };
    template <> struct base_of<bi2> { using type = xtl::xbidirectional_iterator_base2<traits<bidir<bi2>>>; };
    template <> struct base_of<bi3> { using type = xtl::xbidirectional_iterator_base3<bidir<bi3>, traits<bidir<bi3>>>; };
    template <> struct base_of<ra1> { using type = xtl::xrandom_access_iterator_base<randacc<ra1>, int, std::ptrdiff_t, int*, int&>; };
    template <> struct base_of<ra2> { using type = xtl::xrandom_access_iterator_base2<traits<randacc<ra2>>>; };
    template <> struct base_of<ra3> { using type = xtl::xrandom_access_iterator_base3<randacc<ra3>, traits<randacc<ra3>>>; };

    template <class Tag>
    class bidir : public base_of<Tag>::type
    {
    public:
        using self_type = bidir;
        bidir(std::vector<int>* v, std::ptrdiff_t i) : p_v(v), m_i(i) {}
        self_type& operator++() { ++m_i; return *this; }
        self_type& operator--() { --m_i; return *this; }
        int& operator*() const { return (*p_v)[size_t(m_i)]; }
        int* operator->() const { return &(*p_v)[size_t(m_i)]; }
        bool operator==(const self_type& rhs) const { return p_v == rhs.p_v && m_i == rhs.m_i; }
    private:
        std::vector<int>* p_v;
        std::ptrdiff_t m_i;
    };

    template <class Tag>
    class randacc : public base_of<Tag>::type
    {
    public:
        using self_type = randacc;
        using difference_type = std::ptrdiff_t;
        randacc(std::vector<int>* v, std::ptrdiff_t i) : p_v(v), m_i(i) {}
        self_type& operator++() { ++m_i; return *this; }
        self_type& operator--() { --m_i; return *this; }
        self_type& operator+=(difference_type n) { m_i += n; return *this; }
        self_type& operator-=(difference_type n) { m_i -= n; return *this; }
        difference_type operator-(const self_type& rhs) const { return m_i - rhs.m_i; }
        int& operator*() const { return (*p_v)[size_t(m_i)]; }
        int* operator->() const { return &(*p_v)[size_t(m_i)]; }
        bool operator==(const self_type& rhs) const { return p_v == rhs.p_v && m_i == rhs.m_i; }
        bool operator<(const self_type& rhs) const { return m_i < rhs.m_i; }
    private:
        std::vector<int>* p_v;
        std::ptrdiff_t m_i;
    };

    // random access base + size_t extension.  D = int reproduces the upstream test's toy (which also
    // defines += / -= for size_t); D = std::ptrdiff_t with only the difference_type primitives is
    // the other way a client can use the extension.
    template <class D, bool SizeAssign>
    class ext : public xtl::xrandom_access_iterator_base<ext<D, SizeAssign>, int, D, int*, int&>,
                public xtl::xrandom_access_iterator_ext<ext<D, SizeAssign>, int&>
    {
    public:
        using self_type = ext;
        using base_type = xtl::xrandom_access_iterator_base<self_type, int, D, int*, int&>;
        using ext_type = xtl::xrandom_access_iterator_ext<self_type, int&>;
        using difference_type = D;
        using reference = int&;
        using size_type = std::size_t;
        ext(std::vector<int>* v, std::ptrdiff_t i) : p_v(v), m_i(i) {}
        self_type& operator++() { ++m_i; return *this; }
        self_type& operator--() { --m_i; return *this; }
        self_type& operator+=(difference_type n) { m_i += n; return *this; }
        self_type& operator-=(difference_type n) { m_i -= n; return *this; }
        template <class S, class = std::enable_if_t<SizeAssign && std::is_same<S, size_type>::value>>
        self_type& operator+=(S n) { m_i += std::ptrdiff_t(n); return *this; }
        template <class S, class = std::enable_if_t<SizeAssign && std::is_same<S, size_type>::value>>
        self_type& operator-=(S n) { m_i -= std::ptrdiff_t(n); return *this; }
        int& operator*() const { return (*p_v)[size_t(m_i)]; }
        int* operator->() const { return &(*p_v)[size_t(m_i)]; }
        using base_type::operator[];
        using ext_type::operator[];
        std::vector<int>* p_v;
        std::ptrdiff_t m_i;
    };
    template <class D, bool S> inline D operator-(const ext<D, S>& l, const ext<D, S>& r) { return D(l.m_i - r.m_i); }
    template <class D, bool S> inline bool operator==(const ext<D, S>& l, const ext<D, S>& r) { return l.p_v == r.p_v && l.m_i == r.m_i; }
    template <class D, bool S> inline bool operator<(const ext<D, S>& l, const ext<D, S>& r) { return l.m_i < r.m_i; }
}

template <class It>
struct toy_kind : int_elem
{
    using iterator = It;
    static constexpr bool writable = true;
    std::vector<int> v;
    explicit toy_kind(const vj::value& a)
    {
        for (auto& e : elems_of(a.at("under"), false)) v.push_back(int(e.at(0)));
    }
    iterator begin() { return iterator(&v, 0); }
    iterator end() { return iterator(&v, std::ptrdiff_t(v.size())); }
    long long size() const { return (long long)v.size(); }
    std::string under() const
    {
        std::vector<elem_t> r;
        for (int x : v) r.push_back({x});
        return under_json(r, false);
    }
};

// ==================================================================== the session
struct isession
{
    virtual ~isession() {}
    virtual std::string exec(const vj::value& e) = 0;   // the "res" JSON
    virtual std::string proj() = 0;                      // the "st" JSON
};

// a kind whose iterators cannot even be instantiated on this tree
struct dead_session : isession
{
    std::string exec(const vj::value&) override { return UNSUP; }
    std::string proj() override { return "{\"unsupported\":true}"; }
};

template <class K, bool ArrowCompiles = true>
struct session : isession
{
    using It = typename K::iterator;
    using D = typename It::difference_type;
    K c;
    It it[2];
    explicit session(const vj::value& a) : c(a), it{c.begin(), c.begin()} {}

    // ---- observers
    long long count_of(const It& x)
    {
        It cur = c.begin();
        long long n = c.size();
        for (long long i = 0; i <= n; ++i)
        {
            if (cur == x) return i;
            if (i < n) ++cur;
        }
        return -1;
    }
    std::string obs(const It& x)
    {
        long long cnt = count_of(x), n = c.size();
        It b = c.begin(), e = c.end();
        vj::out o;
        o.kv("c", cnt);
        o.kraw("d", attempt(std::to_string(NA), [](const auto& y, const auto& bb) RET(std::to_string((long long)(y - bb))), x, b));
        o.kraw("e", attempt(std::to_string(NA), [](const auto& y, const auto& ee) RET(std::to_string((long long)(ee - y))), x, e));
        o.kraw("v", (cnt >= 0 && cnt < n) ? K::tup(*x) : std::string("[]"));
        return o.obj();
    }
    std::string proj() override
    {
        vj::out o;
        o.kv("n", c.size()).kraw("under", c.under()).kraw("a", obs(it[0])).kraw("b", obs(it[1]));
        return o.obj();
    }
    // ---- result constructors (non-template parameters: a wrong result type is a substitution failure too)
    std::string itres(const It& x) { return "{\"it\":" + obs(x) + "}"; }
    std::string boolres(bool b) { return b ? "{\"val\":true}" : "{\"val\":false}"; }
    std::string numres(long long v) { return "{\"val\":" + std::to_string(v) + "}"; }
    template <class R> std::string elemres(const R& r) { return "{\"val\":" + K::tup(r) + "}"; }
    std::string voidres() { return "{\"val\":[]}"; }
    std::string voidres(const It&) { return "{\"val\":[]}"; }

    template <class P> std::string arrow_impl(const It& x, std::true_type)
    {
        return attempt(UNSUP, [](session& s, const auto& y) RET(s.elemres(*(y.operator->()))), *this, x);
    }
    template <class P> std::string arrow_impl(const It&, std::false_type) { return UNSUP; }
    std::string write_impl(const It& x, const vj::value& v, std::true_type)
    {
        return attempt(UNSUP, [](session& s, const auto& y, const vj::value& vv) RET(K::put(*y, vv), s.voidres()), *this, x, v);
    }
    std::string write_impl(const It&, const vj::value&, std::false_type) { return UNSUP; }
    std::string iwrite_impl(const It& x, D d, const vj::value& v, std::true_type)
    {
        return attempt(UNSUP, [](session& s, const auto& y, D k, const vj::value& vv) RET(K::put(y[k], vv), s.voidres()), *this, x, d, v);
    }
    std::string iwrite_impl(const It&, D, const vj::value&, std::false_type) { return UNSUP; }

    std::string seqres(const std::vector<std::string>& v)
    {
        std::string s = "{\"val\":[";
        for (size_t i = 0; i < v.size(); ++i) { if (i) s += ','; s += v[i]; }
        return s + "]}";
    }

    std::string exec(const vj::value& e) override
    {
        const std::string& op = e.str("op");
        int w = int(e.num("k", 1)) - 1;
        if (w < 0 || w > 1) w = 0;
        const vj::value& a = e.at("a");
        It& x = it[w];
        const It& cx = it[w];
        const It& cz = it[1 - w];
        const D d = D(a.num("k", 0));
        const std::size_t u = std::size_t(a.num("k", 0));
        const long long n = c.size();
        session& S = *this;

        if (op == "Reset") return voidres();
        if (op == "Seat")
        {
            const std::string& via = a.str("via");
            long long tgt[2] = {a.num("p"), a.num("q")};
            for (int j = 0; j < 2; ++j)
            {
                std::string r = "ok";
                if (via == "inc") { It t = c.begin(); for (long long i = 0; i < tgt[j]; ++i) ++t; it[j] = t; }
                else if (via == "dec") { It t = c.end(); for (long long i = n; i > tgt[j]; --i) --t; it[j] = t; }
                else if (via == "add")
                    r = attempt(UNSUP, [](auto& dst, const auto& b, D k) RET(void(dst = b + k), std::string("ok")), it[j], c.begin(), D(tgt[j]));
                else
                    r = attempt(UNSUP, [](auto& dst, const auto& en, D k) RET(void(dst = en - k), std::string("ok")), it[j], c.end(), D(n - tgt[j]));
                if (r != "ok") return r;
            }
            return voidres();
        }
        if (op == "PreInc")  return attempt(UNSUP, [](session& s, auto& y) RET(s.itres(++y)), S, x);
        if (op == "PostInc") return attempt(UNSUP, [](session& s, auto& y) RET(s.itres(y++)), S, x);
        if (op == "PreDec")  return attempt(UNSUP, [](session& s, auto& y) RET(s.itres(--y)), S, x);
        if (op == "PostDec") return attempt(UNSUP, [](session& s, auto& y) RET(s.itres(y--)), S, x);
        if (op == "Deref")   return attempt(UNSUP, [](session& s, const auto& y) RET(s.elemres(*y)), S, cx);
        if (op == "Arrow")   return arrow_impl<void>(cx, std::integral_constant<bool, ArrowCompiles>());
        if (op == "Eq")      return attempt(UNSUP, [](session& s, const auto& y, const auto& z) RET(s.boolres(y == z)), S, cx, cz);
        if (op == "Ne")      return attempt(UNSUP, [](session& s, const auto& y, const auto& z) RET(s.boolres(y != z)), S, cx, cz);
        if (op == "Lt")      return attempt(UNSUP, [](session& s, const auto& y, const auto& z) RET(s.boolres(y < z)), S, cx, cz);
        if (op == "Le")      return attempt(UNSUP, [](session& s, const auto& y, const auto& z) RET(s.boolres(y <= z)), S, cx, cz);
        if (op == "Gt")      return attempt(UNSUP, [](session& s, const auto& y, const auto& z) RET(s.boolres(y > z)), S, cx, cz);
        if (op == "Ge")      return attempt(UNSUP, [](session& s, const auto& y, const auto& z) RET(s.boolres(y >= z)), S, cx, cz);
        if (op == "Diff")    return attempt(UNSUP, [](session& s, const auto& y, const auto& z) RET(s.numres(y - z)), S, cx, cz);
        if (op == "Assign")  { It tmp(cz); return attempt(UNSUP, [](session& s, auto& y, const auto& z) RET(s.voidres(y = z)), S, x, tmp); }
        if (op == "AddAssign") return attempt(UNSUP, [](session& s, auto& y, D k) RET(s.itres(y += k)), S, x, d);
        if (op == "SubAssign") return attempt(UNSUP, [](session& s, auto& y, D k) RET(s.itres(y -= k)), S, x, d);
        if (op == "Plus")      return attempt(UNSUP, [](session& s, const auto& y, D k) RET(s.itres(y + k)), S, cx, d);
        if (op == "PlusLeft")  return attempt(UNSUP, [](session& s, const auto& y, D k) RET(s.itres(k + y)), S, cx, d);
        if (op == "Minus")     return attempt(UNSUP, [](session& s, const auto& y, D k) RET(s.itres(y - k)), S, cx, d);
        if (op == "Index")     return attempt(UNSUP, [](session& s, const auto& y, D k) RET(s.elemres(y[k])), S, cx, d);
        if (op == "PlusU")     return attempt(UNSUP, [](session& s, const auto& y, std::size_t k) RET(s.itres(y + k)), S, cx, u);
        if (op == "PlusLeftU") return attempt(UNSUP, [](session& s, const auto& y, std::size_t k) RET(s.itres(k + y)), S, cx, u);
        if (op == "MinusU")    return attempt(UNSUP, [](session& s, const auto& y, std::size_t k) RET(s.itres(y - k)), S, cx, u);
        if (op == "IndexU")    return attempt(UNSUP, [](session& s, const auto& y, std::size_t k) RET(s.elemres(y[k])), S, cx, u);
        if (op == "StdAdvance")
            return attempt(UNSUP, [](session& s, auto& y, D k) RET(void(typename std::iterator_traits<std::decay_t<decltype(y)>>::iterator_category()), std::advance(y, k), s.voidres()), S, x, d);
        if (op == "StdDistance")
            return attempt(UNSUP, [](session& s, auto& y, const auto& z) RET(void(typename std::iterator_traits<std::decay_t<decltype(y)>>::iterator_category()), s.numres(std::distance(y, z))), S, cx, cz);
        if (op == "StdNext")
            return attempt(UNSUP, [](session& s, auto& y, D k) RET(void(typename std::iterator_traits<std::decay_t<decltype(y)>>::iterator_category()), s.itres(std::next(y, k))), S, cx, d);
        if (op == "StdPrev")
            return attempt(UNSUP, [](session& s, auto& y, D k) RET(void(typename std::iterator_traits<std::decay_t<decltype(y)>>::iterator_category()), s.itres(std::prev(y, k))), S, cx, d);
        if (op == "Write") return write_impl(cx, a.at("v"), std::integral_constant<bool, K::writable>());
        if (op == "IndexWrite") return iwrite_impl(cx, d, a.at("v"), std::integral_constant<bool, K::writable>());
        if (op == "TraverseForward" || op == "TraverseReverse")
        {
            const std::string& how = a.str("how");
            std::vector<std::string> out;
            const size_t cap = size_t(n) + 2;     // a loop that does not stop is cut (and then rejected by the spec)
            It b = c.begin(), en = c.end();
            std::string r = "ok";
            if (op == "TraverseForward")
            {
                if (how == "pre")
                    r = attempt(UNSUP, [&out, cap](auto t, const auto& ee) -> decltype(void(t != ee), void(++t), void(*t), std::string())
                        { for (; t != ee && out.size() < cap; ++t) out.push_back(K::tup(*t)); return "ok"; }, b, en);
                else if (how == "post")
                    r = attempt(UNSUP, [&out, cap](auto t, const auto& ee) -> decltype(void(t != ee), void(*t++), std::string())
                        { while (t != ee && out.size() < cap) out.push_back(K::tup(*t++)); return "ok"; }, b, en);
                else if (how == "lt")
                    r = attempt(UNSUP, [&out, cap](auto t, const auto& ee) -> decltype(void(t < ee), void(++t), std::string())
                        { for (; t < ee && out.size() < cap; ++t) out.push_back(K::tup(*t)); return "ok"; }, b, en);
                else if (how == "index")
                    r = attempt(UNSUP, [&out, cap](const auto& bb, const auto& ee) -> decltype(void(bb[D(0)]), void(D(0) < ee - bb), std::string())
                        { for (D i = 0; i < ee - bb && out.size() < cap; ++i) out.push_back(K::tup(bb[i])); return "ok"; }, b, en);
                else if (how == "plus")
                    r = attempt(UNSUP, [&out, cap](auto t, const auto& ee) -> decltype(void(t = t + D(1)), void(t != ee), std::string())
                        { for (; t != ee && out.size() < cap; t = t + D(1)) out.push_back(K::tup(*t)); return "ok"; }, b, en);
                else { std::fprintf(stderr, "script: unknown how %s\n", how.c_str()); std::exit(3); }
            }
            else
            {
                if (how == "pre")
                    r = attempt(UNSUP, [&out, cap](auto t, const auto& bb) -> decltype(void(t != bb), void(*--t), std::string())
                        { while (t != bb && out.size() < cap) out.push_back(K::tup(*--t)); return "ok"; }, en, b);
                else if (how == "post")
                    r = attempt(UNSUP, [&out, cap](auto t, const auto& bb) -> decltype(void(t != bb), void(t--), std::string())
                        { while (t != bb && out.size() < cap) { t--; out.push_back(K::tup(*t)); } return "ok"; }, en, b);
                else if (how == "gt")
                    r = attempt(UNSUP, [&out, cap](auto t, const auto& bb) -> decltype(void(t > bb), void(--t), std::string())
                        { while (t > bb && out.size() < cap) out.push_back(K::tup(*--t)); return "ok"; }, en, b);
                else if (how == "minus")
                    r = attempt(UNSUP, [&out, cap](auto t, const auto& bb) -> decltype(void(t = t - D(1)), void(t != bb), std::string())
                        { while (t != bb && out.size() < cap) { t = t - D(1); out.push_back(K::tup(*t)); } return "ok"; }, en, b);
                else { std::fprintf(stderr, "script: unknown how %s\n", how.c_str()); std::exit(3); }
            }
            if (r != "ok") return r;
            return seqres(out);
        }
        std::fprintf(stderr, "script: unknown op %s\n", op.c_str());
        std::exit(3);
    }
};

// ==================================================================== kind table
template <class K, bool Arrow = true>
static std::unique_ptr<isession> mk(const vj::value& a)
{
    return std::unique_ptr<isession>(new session<K, Arrow>(a));
}

#ifdef C12_NO_STEP_ARROW
static constexpr bool STEP_ARROW = false;
#else
static constexpr bool STEP_ARROW = true;
#endif

template <template <std::size_t> class KN>
static std::unique_ptr<isession> mk_sized(const vj::value& a)
{
    switch (a.num("n"))
    {
    case 0: return mk<typename KN<0>::type>(a);
    case 1: return mk<typename KN<1>::type>(a);
    case 2: return mk<typename KN<2>::type>(a);
    case 3: return mk<typename KN<3>::type>(a);
    case 4: return mk<typename KN<4>::type>(a);
    case 5: return mk<typename KN<5>::type>(a);
    case 6: return mk<typename KN<6>::type>(a);
    default: std::fprintf(stderr, "script: array kinds support n <= 6\n"); std::exit(3);
    }
}
template <std::size_t N> struct optarr_it   { using type = opt_kind<xtl::xoptional_array<int, N>, 0>; };
template <std::size_t N> struct optarr_cit  { using type = opt_kind<xtl::xoptional_array<int, N>, 1>; };
template <std::size_t N> struct optarr_rit  { using type = opt_kind<xtl::xoptional_array<int, N>, 2>; };
template <std::size_t N> struct cplxarr_it  { using type = cplx_kind<xtl::xcomplex_array<double, N>, 0>; };
template <std::size_t N> struct cplxarr_cit { using type = cplx_kind<xtl::xcomplex_array<double, N>, 1>; };
template <std::size_t N> struct cplxarr_rit { using type = cplx_kind<xtl::xcomplex_array<double, N>, 2>; };

static std::unique_ptr<isession> make_session(const std::string& kind, const vj::value& a)
{
#if GROUP(0)
    if (kind == "bit8_it")    return mk<bit_kind<std::uint8_t, 0>>(a);
    if (kind == "bit8_cit")   return mk<bit_kind<std::uint8_t, 1>>(a);
    if (kind == "bit8_rit")   return mk<bit_kind<std::uint8_t, 2>>(a);
    if (kind == "bit8_crit")  return mk<bit_kind<std::uint8_t, 3>>(a);
    if (kind == "bit64_it")   return mk<bit_kind<std::uint64_t, 0>>(a);
    if (kind == "bit64_cit")  return mk<bit_kind<std::uint64_t, 1>>(a);
    if (kind == "bitv8_it")   return mk<bitview_kind<std::uint8_t, 0>>(a);
    if (kind == "bitv8_cit")  return mk<bitview_kind<std::uint8_t, 1>>(a);
#endif
#if GROUP(1)
    if (kind == "optvec_it")   return mk<opt_kind<xtl::xoptional_vector<int>, 0>>(a);
    if (kind == "optvec_cit")  return mk<opt_kind<xtl::xoptional_vector<int>, 1>>(a);
    if (kind == "optvec_rit")  return mk<opt_kind<xtl::xoptional_vector<int>, 2>>(a);
    if (kind == "optvec_crit") return mk<opt_kind<xtl::xoptional_vector<int>, 3>>(a);
#endif
#if GROUP(2)
    if (kind == "cplxvec_it")   return mk<cplx_kind<xtl::xcomplex_vector<double>, 0>>(a);
    if (kind == "cplxvec_cit")  return mk<cplx_kind<xtl::xcomplex_vector<double>, 1>>(a);
    if (kind == "cplxvec_rit")  return mk<cplx_kind<xtl::xcomplex_vector<double>, 2>>(a);
    if (kind == "cplxvec_crit") return mk<cplx_kind<xtl::xcomplex_vector<double>, 3>>(a);
#endif
#if GROUP(3)
    if (kind == "step_vec")  return mk<step_kind<0>, STEP_ARROW>(a);
    if (kind == "step_cvec") return mk<step_kind<1>, STEP_ARROW>(a);
    if (kind == "step_ptr")  return mk<step_kind<2>>(a);
    if (kind == "key_map")    return mk<map_kind<0>>(a);
    if (kind == "value_map")  return mk<map_kind<1>>(a);
    if (kind == "cvalue_map") return mk<map_kind<2>>(a);
#endif
#if GROUP(4)
    if (kind == "toy_bi1") return mk<toy_kind<toy::bidir<toy::bi1>>>(a);
    if (kind == "toy_bi2") return mk<toy_kind<toy::bidir<toy::bi2>>>(a);
    if (kind == "toy_bi3") return mk<toy_kind<toy::bidir<toy::bi3>>>(a);
    if (kind == "toy_ra1") return mk<toy_kind<toy::randacc<toy::ra1>>>(a);
    if (kind == "toy_ra2") return mk<toy_kind<toy::randacc<toy::ra2>>>(a);
    if (kind == "toy_ra3") return mk<toy_kind<toy::randacc<toy::ra3>>>(a);
    if (kind == "toy_ext_int")  return mk<toy_kind<toy::ext<int, true>>>(a);
    if (kind == "toy_ext_long") return mk<toy_kind<toy::ext<std::ptrdiff_t, false>>>(a);
#endif
#ifdef C12_NO_ARRAY_ITERATORS
#define ARRAY_KIND(name) if (kind == #name) return std::unique_ptr<isession>(new dead_session());
#else
#define ARRAY_KIND(name) if (kind == #name) return mk_sized<name>(a);
#endif
    // one group per array kind: seven container sizes are seven instantiations of the session
#if GROUP(5)
    ARRAY_KIND(optarr_it)
#endif
#if GROUP(6)
    ARRAY_KIND(optarr_cit)
#endif
#if GROUP(7)
    ARRAY_KIND(optarr_rit)
#endif
#if GROUP(8)
    ARRAY_KIND(cplxarr_it)
#endif
#if GROUP(9)
    ARRAY_KIND(cplxarr_cit)
#endif
#if GROUP(10)
    ARRAY_KIND(cplxarr_rit)
#endif
    std::fprintf(stderr, "script: unknown kind %s in this driver group\n", kind.c_str());
    std::exit(3);
}

// A call that does not return (an iterator that never reaches end() on a broken tree) must end the
// trace like a crash does, not hang the check: 5 s of CPU time per call, re-armed at every event.
static void on_timeout(int)
{
    std::fflush(stdout);
    vj::crash_line("timeout");
    _exit(0);
}

int main()
{
    vj::install_crash_handlers();
    std::signal(SIGVTALRM, on_timeout);
    std::unique_ptr<isession> s;
    std::string line;
    while (std::getline(std::cin, line))
    {
        if (line.empty()) continue;
        vj::value e = vj::parse(line);
        if (e.find("_meta")) continue;
        struct itimerval tv = {{0, 0}, {5, 0}};
        setitimer(ITIMER_VIRTUAL, &tv, nullptr);
        const std::string& op = e.str("op");
        if (op == "Reset") s = make_session(e.at("a").str("kind"), e.at("a"));
        if (!s) { std::fprintf(stderr, "script: first event must be Reset\n"); return 3; }
        std::string res = s->exec(e);
        std::string st = s->proj();
        // echo the call, then what was observed
        std::string outl = line;
        while (!outl.empty() && (outl.back() == '\n' || outl.back() == '\r' || outl.back() == ' ')) outl.pop_back();
        outl.pop_back();   // the closing brace
        outl += ",\"res\":" + res + ",\"st\":" + st + "}";
        outl += "\n";
        std::fwrite(outl.data(), 1, outl.size(), stdout);   // C stdio: the crash handlers fflush(stdout)
    }
    std::fflush(stdout);
    return 0;
}

// C12 compile probes: each -DPROBE_x asks "does this expression compile on this tree?".
// Body errors inside xtl member functions are invisible to SFINAE, so the driver cannot detect
// them itself; checks/c12.py compiles this file first and passes the answer to the driver build.
#include <xtl/xiterator_base.hpp>
#include <xtl/xoptional_sequence.hpp>
#include <xtl/xcomplex_sequence.hpp>
#include <iterator>
#include <map>
#include <vector>

int main()
{
#ifdef PROBE_ARRAY_ITERATORS
    // begin()/end() of the std::array based sequences (std::array<T,N>::iterator may be T*)
    xtl::xoptional_array<int, 2> oa(2, 0);
    xtl::xcomplex_array<double, 2> ca(2);
    return int((oa.end() - oa.begin()) + (ca.cend() - ca.cbegin()) + (oa.rend() - oa.rbegin())) - 6;
#endif
#ifdef PROBE_STEP_ARROW
    // operator-> of a stepping iterator over a class-type iterator
    std::vector<int> v(4, 1);
    auto it = xtl::make_stepping_iterator(v.begin(), 2);
    auto ci = xtl::make_stepping_iterator(v.cbegin(), 2);
    return *(it.operator->()) + *(ci.operator->()) - 2;
#endif
#ifdef PROBE_VALUE_TRAITS
    // std::iterator_traits of xvalue_iterator (needs an accessible iterator_category)
    using vit = xtl::xvalue_iterator<std::map<int, int>>;
    using cvit = xtl::xvalue_iterator<const std::map<int, int>>;
    typename std::iterator_traits<vit>::iterator_category c1;
    typename std::iterator_traits<cvit>::iterator_category c2;
    (void)c1; (void)c2;
    return 0;
#endif
}

// C12 type facts: prints, for every iterator kind of iter_kinds.hpp, which of the type-level facts of
// specs/IterLawsTypes.tla hold for the real iterator type (one JSON line per kind).  Every fact is a
// detection trait (expression SFINAE), so a missing operator or a changed return type is a `false`, not a
// compile error.  No oracle: checks/c12.py compares the booleans with the table TLC evaluated.
//
//   -DC12_ONLY=<n>                 only kind number n (used to isolate a kind whose type no longer instantiates)
//   -DC12_TAG_ROWS_FILE="<file>"   generated calls tagrow<Expected, Its...>(id) for the common_iterator_tag table
#include "iter_kinds.hpp"
#include <cstdio>
#include <forward_list>
#include <list>
#include <sstream>

template <class T> T& lv();            // never defined: unevaluated operands only
template <class T> const T& cv();

#define FACT(name, ...)                                                              \
    template <class It, class = void> struct fact_##name : std::false_type {};        \
    template <class It> struct fact_##name<It, std::enable_if_t<(__VA_ARGS__)>> : std::true_type {};

#define D typename It::difference_type
#define CONV(from, to) std::is_convertible<from, to>::value
#define SAME(a, b) std::is_same<a, b>::value

FACT(copy_constructible, std::is_copy_constructible<It>::value)
FACT(copy_assignable, std::is_copy_assignable<It>::value)
FACT(destructible, std::is_destructible<It>::value)
FACT(default_constructible, std::is_default_constructible<It>::value)
FACT(m_difference_type, std::is_integral<D>::value && std::is_signed<D>::value)
FACT(m_value_type, SAME(typename It::value_type, typename It::value_type))
FACT(m_reference, SAME(typename It::reference, typename It::reference))
FACT(m_pointer, SAME(typename It::pointer, typename It::pointer))
FACT(preinc, SAME(decltype(++lv<It>()), It&))
FACT(postinc, CONV(decltype(lv<It>()++), const It&))
FACT(predec, SAME(decltype(--lv<It>()), It&))
FACT(postdec, CONV(decltype(lv<It>()--), const It&))
FACT(deref, CONV(decltype(*cv<It>()), typename It::reference))
FACT(arrow, CONV(decltype(cv<It>().operator->()), typename It::pointer))
FACT(eq, CONV(decltype(cv<It>() == cv<It>()), bool))
FACT(ne, CONV(decltype(cv<It>() != cv<It>()), bool))
FACT(addassign, SAME(decltype(lv<It>() += std::declval<D>()), It&))
FACT(subassign, SAME(decltype(lv<It>() -= std::declval<D>()), It&))
FACT(plus, SAME(decltype(cv<It>() + std::declval<D>()), It))
FACT(plusleft, SAME(decltype(std::declval<D>() + cv<It>()), It))
FACT(minus, SAME(decltype(cv<It>() - std::declval<D>()), It))
FACT(diff, SAME(decltype(cv<It>() - cv<It>()), D))
FACT(index, CONV(decltype(cv<It>()[std::declval<D>()]), typename It::reference))
FACT(lt, CONV(decltype(cv<It>() < cv<It>()), bool))
FACT(le, CONV(decltype(cv<It>() <= cv<It>()), bool))
FACT(gt, CONV(decltype(cv<It>() > cv<It>()), bool))
FACT(ge, CONV(decltype(cv<It>() >= cv<It>()), bool))
FACT(plus_u, SAME(decltype(cv<It>() + std::declval<std::size_t>()), It))
FACT(plusleft_u, SAME(decltype(std::declval<std::size_t>() + cv<It>()), It))
FACT(minus_u, SAME(decltype(cv<It>() - std::declval<std::size_t>()), It))
FACT(index_u, CONV(decltype(cv<It>()[std::declval<std::size_t>()]), typename It::reference))
FACT(traits_ra, std::is_base_of<std::random_access_iterator_tag, typename std::iterator_traits<It>::iterator_category>::value)
FACT(traits_bi, std::is_base_of<std::bidirectional_iterator_tag, typename std::iterator_traits<It>::iterator_category>::value &&
                !std::is_base_of<std::random_access_iterator_tag, typename std::iterator_traits<It>::iterator_category>::value)
FACT(traits_members, SAME(typename std::iterator_traits<It>::difference_type, D) &&
                     SAME(typename std::iterator_traits<It>::value_type, typename It::value_type) &&
                     SAME(typename std::iterator_traits<It>::reference, typename It::reference) &&
                     SAME(typename std::iterator_traits<It>::pointer, typename It::pointer))
FACT(equal_m, CONV(decltype(cv<It>().equal(cv<It>())), bool))
FACT(less_than_m, CONV(decltype(cv<It>().less_than(cv<It>())), bool))

#define C12_FACTS(X)                                                                                                  \
    X(copy_constructible) X(copy_assignable) X(destructible) X(default_constructible)                                 \
    X(m_difference_type) X(m_value_type) X(m_reference) X(m_pointer)                                                  \
    X(preinc) X(postinc) X(predec) X(postdec) X(deref) X(arrow) X(eq) X(ne)                                           \
    X(addassign) X(subassign) X(plus) X(plusleft) X(minus) X(diff) X(index) X(lt) X(le) X(gt) X(ge)                   \
    X(plus_u) X(plusleft_u) X(minus_u) X(index_u) X(traits_ra) X(traits_bi) X(traits_members) X(equal_m) X(less_than_m)

template <class It>
static void facts_of(const char* kind)
{
    std::printf("{\"kind\":\"%s\",\"facts\":{", kind);
    const char* sep = "";
#define PRINT_FACT(name) std::printf("%s\"" #name "\":%s", sep, fact_##name<It>::value ? "true" : "false"); sep = ",";
    C12_FACTS(PRINT_FACT)
    std::printf("}}\n");
}

// ---- common_iterator_tag (advisory) --------------------------------------------------------------------
template <class Expected, class Enable, class... Its>
struct tag_is : std::false_type {};
template <class Expected, class... Its>
struct tag_is<Expected, std::enable_if_t<std::is_same<typename xtl::common_iterator_tag<Its...>::type, Expected>::value &&
                                         std::is_same<xtl::common_iterator_tag_t<Its...>, Expected>::value>, Its...> : std::true_type {};
template <class Expected, class... Its>
static void tagrow(int id)
{
    std::printf("{\"tagrow\":%d,\"ok\":%s}\n", id, tag_is<Expected, void, Its...>::value ? "true" : "false");
}

// iterator -> const_iterator conversions the containers offer (recorded only)
template <class C>
static void conv(const char* name)
{
    std::printf("{\"conv\":\"%s\",\"it_to_cit\":%s}\n", name,
                std::is_convertible<typename C::iterator, typename C::const_iterator>::value ? "true" : "false");
}

#ifndef C12_ONLY
#define C12_ONLY -1
#endif
#define KIND(n, name) if (C12_ONLY == -1 || C12_ONLY == n) facts_of<typename k_##name::iterator>(#name);
#define AKIND(n, name) if (C12_ONLY == -1 || C12_ONLY == n) facts_of<typename k_##name<3>::iterator>(#name);

int main()
{
#ifndef C12_LIGHT
    KIND(0, bit8_it) KIND(1, bit8_cit) KIND(2, bit8_rit) KIND(3, bit8_crit) KIND(4, bit64_it) KIND(5, bit64_cit)
    KIND(6, bitv8_it) KIND(7, bitv8_cit)
    KIND(8, optvec_it) KIND(9, optvec_cit) KIND(10, optvec_rit) KIND(11, optvec_crit)
    KIND(12, cplxvec_it) KIND(13, cplxvec_cit) KIND(14, cplxvec_rit) KIND(15, cplxvec_crit)
#endif
    KIND(16, step_vec) KIND(17, step_cvec) KIND(18, step_ptr) KIND(19, key_map) KIND(20, value_map) KIND(21, cvalue_map)
    KIND(22, toy_bi1) KIND(23, toy_bi2) KIND(24, toy_bi3) KIND(25, toy_ra1) KIND(26, toy_ra2) KIND(27, toy_ra3)
    KIND(28, toy_ext_int) KIND(29, toy_ext_long) KIND(40, key_mmap) KIND(41, value_mmap)
#ifndef C12_LIGHT
    AKIND(30, optarr_it) AKIND(31, optarr_cit) AKIND(32, optarr_rit) AKIND(33, cplxarr_it) AKIND(34, cplxarr_cit) AKIND(35, cplxarr_rit)
    KIND(36, optvec_srit) KIND(37, cplxvec_srit) KIND(38, step_srit) KIND(39, toyra_srit)
#endif
#if C12_ONLY == -1
    conv<xtl::xdynamic_bitset<std::uint8_t>>("xdynamic_bitset<uint8_t>");
    conv<xtl::xoptional_vector<int>>("xoptional_vector<int>");
    conv<xtl::xcomplex_vector<double>>("xcomplex_vector<double>");
#ifdef C12_TAG_ROWS_FILE
#include C12_TAG_ROWS_FILE
#endif
#endif
    return 0;
}

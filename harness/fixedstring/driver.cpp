// C01 / C02 (and the fixed-string clause of C14) conformance harness.
// Interprets a script of string operations (ndjson on stdin) on two real xtl::xbasic_fixed_string
// objects and writes, after every call, the call's result (return value or exception class) and the
// full observable projection of both objects.  It contains no oracle: it executes and prints.
//
// One configuration per translation unit, selected by macros:
//   FS_CT      character type (char, char16_t, wchar_t, char32_t)
//   FS_N       capacity N
//   FS_STRLEN  1: storage option `buffer` (strlen-sized, numpy compatible), 0: `buffer | store_size`
//              (length packed into the last cell when N < 2^bits, separate length field otherwise)
//   FS_THROW   1: string_policy::throwing_error, 0: silent_error
//   FS_REF     1: the object type is std::basic_string<FS_CT> (used to validate the specification
//              itself against the standard library: the spec must accept these traces too)
//
// Every object lives in a heap frame  guard[32] | object | guard[32]  whose guards are part of the
// logged state; sources are passed in exact-size heap buffers so that AddressSanitizer sees any read
// outside the ranges handed to the string.
#ifndef FS_CT
#define FS_CT char
#endif
#ifndef FS_N
#define FS_N 3
#endif
#ifndef FS_STRLEN
#define FS_STRLEN 0
#endif
#ifndef FS_THROW
#define FS_THROW 1
#endif
#ifndef FS_REF
#define FS_REF 0
#endif
#ifndef FS_IO       // 1: stream operators are exercised (they exist for char only)
#define FS_IO 0
#endif

#include <xtl/xbasic_fixed_string.hpp>
#include "vjson.hpp"
#include <iostream>
#include <sstream>
#include <list>
#include <new>
#include <sys/time.h>
#ifndef FS_EXT      // 1: the round-3 operations (streams in general, containers, variant / any payloads, other fixed-string types)
#define FS_EXT 0
#endif
#ifndef FS_JSON     // 1: xjson.hpp conversions (needs nlohmann_json; char only)
#define FS_JSON 0
#endif
#if FS_EXT
#include <map>
#include <unordered_map>
#include <xtl/xvariant.hpp>
#include <xtl/xany.hpp>
#endif
#if FS_JSON
#include <nlohmann/json.hpp>
#include <xtl/xjson.hpp>
#endif

#define FS_STR_(x) #x
#define FS_STR(x) FS_STR_(x)
using CT = FS_CT;
using UCT = std::make_unsigned<CT>::type;
static constexpr std::size_t N = FS_N;
#if FS_REF
using fs = std::basic_string<CT>;
#elif FS_THROW
using fs = xtl::xbasic_fixed_string<CT, N, FS_STRLEN ? xtl::buffer : (xtl::buffer | xtl::store_size), xtl::string_policy::throwing_error>;
#else
using fs = xtl::xbasic_fixed_string<CT, N, FS_STRLEN ? xtl::buffer : (xtl::buffer | xtl::store_size), xtl::string_policy::silent_error>;
#endif
using size_type = fs::size_type;
using sstr = std::basic_string<CT>;
using RIT = fs::reverse_iterator;      // reverse iterators over the object's own characters (source kind "selfrit")
static const size_type NPOS = fs::npos;
static const long long DFLT = -2;

// Code units in scripts and traces are integers TLC can hold (|x| < 2^31) and whose integer order is the order
// std::char_traits<CT>::lt uses: char -> 0..255 (lt compares as unsigned char), char16_t -> 0..65535, wchar_t -> its
// own (signed, 32 bit) value, char32_t (unsigned, 32 bit) -> 0..2^30-1 unchanged and 2^30..2^31-1 for the top
// 2^30 code units 0xC0000000..0xFFFFFFFF (monotone, so every comparison is preserved).
template <class T> struct units
{
    static long long enc(T c) { return (long long)(typename std::make_unsigned<T>::type)c; }
    static T dec(long long v) { return T((typename std::make_unsigned<T>::type)v); }
};
template <> struct units<wchar_t>
{
    static long long enc(wchar_t c) { return (long long)c; }
    static wchar_t dec(long long v) { return wchar_t(v); }
};
template <> struct units<char32_t>
{
    static long long enc(char32_t c) { return c < 0x40000000u ? (long long)c : c >= 0xC0000000u ? (long long)(c - 0x80000000u) : -7; }
    static char32_t dec(long long v) { return v < 0x40000000ll ? char32_t(v) : char32_t(v + 0x80000000ll); }
};
static long long code(CT c) { return units<CT>::enc(c); }
static CT unit(long long v) { return units<CT>::dec(v); }
static size_type P(long long x) { return x == -1 ? NPOS : size_type(x); }
static long long posval(size_type p) { return p == NPOS ? -1 : (p > (size_type)1000000000 ? -3 : (long long)p); }

// ------------------------------------------------------------------ frames
#ifndef FS_PAGE     // 1: the object ends where an inaccessible page begins; 2: it begins where one ends (see below)
#define FS_PAGE 0
#endif
#if !FS_PAGE
struct frame
{
    static constexpr std::size_t G = 32;
    unsigned char* raw;
    bool live = false;
    frame()
    {
        raw = new unsigned char[2 * G + sizeof(fs)];
        std::memset(raw, 0xA5, G);
        std::memset(raw + G, 0xEE, sizeof(fs));     // what an uninitialised cell will show
        std::memset(raw + G + sizeof(fs), 0xA5, G);
    }
    ~frame()
    {
        if (live) obj()->~fs();
        delete[] raw;
    }
    fs* obj() { return reinterpret_cast<fs*>(raw + G); }
    unsigned char* cells() { return raw + G; }
    bool guards_ok() const
    {
        for (std::size_t i = 0; i < G; ++i)
            if (raw[i] != 0xA5 || raw[G + sizeof(fs) + i] != 0xA5) return false;
        return true;
    }
};
#else
// C02, thorough tier: the object lies directly against a PROT_NONE page, so that a single stray READ (or write) one
// character beyond the object - which guard bytes cannot see and AddressSanitizer does not see inside an mmap'ed
// region - is a SIGSEGV, i.e. a Crash event in the trace.
//   FS_PAGE == 1:  [ ... | guard[32] | object ][ PROT_NONE page ]     reads / writes behind the object
//   FS_PAGE == 2:  [ PROT_NONE page ][ object | guard[32] | ... ]     reads / writes before the object
#include <sys/mman.h>
#include <unistd.h>
struct frame
{
    static constexpr std::size_t G = 32;
    unsigned char* base;
    unsigned char* objp;
    unsigned char* gptr;
    std::size_t maplen;
    bool live = false;
    frame()
    {
        std::size_t pg = std::size_t(sysconf(_SC_PAGESIZE));
        std::size_t body = ((G + sizeof(fs) + pg - 1) / pg) * pg;
        maplen = body + pg;
        void* m = mmap(nullptr, maplen, PROT_READ | PROT_WRITE, MAP_PRIVATE | MAP_ANONYMOUS, -1, 0);
        if (m == MAP_FAILED) { std::fprintf(stderr, "mmap failed\n"); std::exit(4); }
        base = static_cast<unsigned char*>(m);
        std::memset(base, 0x5A, maplen);
#if FS_PAGE == 1
        if (mprotect(base + body, pg, PROT_NONE) != 0) std::exit(4);
        objp = base + body - sizeof(fs);
        gptr = objp - G;
#else
        if (mprotect(base, pg, PROT_NONE) != 0) std::exit(4);
        objp = base + pg;
        gptr = objp + sizeof(fs);
#endif
        std::memset(gptr, 0xA5, G);
        std::memset(objp, 0xEE, sizeof(fs));
    }
    ~frame()
    {
        if (live) obj()->~fs();
        munmap(base, maplen);
    }
    fs* obj() { return reinterpret_cast<fs*>(objp); }
    unsigned char* cells() { return objp; }
    bool guards_ok() const
    {
        for (std::size_t i = 0; i < G; ++i)
            if (gptr[i] != 0xA5) return false;
        return true;
    }
};
#endif

static std::unique_ptr<frame> slot[2];

template <class F> static void construct(int k, F&& make)
{
    std::unique_ptr<frame> nf(new frame());
    make(static_cast<void*>(nf->obj()));      // may throw: then nothing was constructed and the old object stays
    nf->live = true;
    slot[k] = std::move(nf);
}

// ------------------------------------------------------------------ sources
struct source
{
    std::vector<CT> v;
    std::vector<long long> raw;      // the numbers as written in the script (an aliasing source keeps <<off[, cnt]>> here)
    explicit source(const vj::value& arr) { for (auto& e : arr.a) { v.push_back(unit(e.i)); raw.push_back(e.i); } }
    std::size_t off() const { return raw.empty() ? 0 : std::size_t(raw[0]); }
    std::size_t cnt() const { return raw.size() < 2 ? 0 : std::size_t(raw[1]); }
    std::size_t n() const { return v.size(); }
    std::unique_ptr<CT[]> exact() const        // exactly n cells, no terminator
    {
        std::unique_ptr<CT[]> p(new CT[v.size()]);
        std::copy(v.begin(), v.end(), p.get());
        return p;
    }
    std::unique_ptr<CT[]> cstr() const         // n + 1 cells, NUL-terminated
    {
        std::unique_ptr<CT[]> p(new CT[v.size() + 1]);
        std::copy(v.begin(), v.end(), p.get());
        p[v.size()] = CT(0);
        return p;
    }
    sstr str() const { return sstr(v.begin(), v.end()); }
    std::vector<CT> vec() const { std::vector<CT> r(v); r.shrink_to_fit(); return r; }
    std::list<CT> lst() const { return std::list<CT>(v.begin(), v.end()); }
};

// std::initializer_list cannot be built at run time: fixed arities
template <class F> static void with_il(const std::vector<CT>& c, F&& f)
{
#define IL_CASE(n, ...) case n: { std::initializer_list<CT> l = {__VA_ARGS__}; f(l); break; }
    switch (c.size())
    {
        case 0: { std::initializer_list<CT> l = {}; f(l); break; }
        IL_CASE(1, c[0])
        IL_CASE(2, c[0], c[1])
        IL_CASE(3, c[0], c[1], c[2])
        IL_CASE(4, c[0], c[1], c[2], c[3])
        IL_CASE(5, c[0], c[1], c[2], c[3], c[4])
        IL_CASE(6, c[0], c[1], c[2], c[3], c[4], c[5])
        IL_CASE(7, c[0], c[1], c[2], c[3], c[4], c[5], c[6])
        IL_CASE(8, c[0], c[1], c[2], c[3], c[4], c[5], c[6], c[7])
        IL_CASE(9, c[0], c[1], c[2], c[3], c[4], c[5], c[6], c[7], c[8])
        IL_CASE(10, c[0], c[1], c[2], c[3], c[4], c[5], c[6], c[7], c[8], c[9])
        IL_CASE(17, c[0], c[1], c[2], c[3], c[4], c[5], c[6], c[7], c[8], c[9], c[10], c[11], c[12], c[13], c[14], c[15], c[16])
        default: std::fprintf(stderr, "script: unsupported initializer_list length %zu\n", c.size()); std::exit(3);
    }
#undef IL_CASE
}

[[noreturn]] static void bad(const char* what, const std::string& v)
{
    std::fprintf(stderr, "script: bad %s '%s'\n", what, v.c_str());
    std::exit(3);
}

// ------------------------------------------------------------------ output helpers
static std::string strval(const fs& r, bool with_term)
{
    vj::out o;
    std::vector<long long> ch;
    std::size_t n = r.size();
    std::size_t lim = FS_REF ? n : std::min<std::size_t>(n, N + 1);
    for (std::size_t i = 0; i < lim; ++i) ch.push_back(code(r.data()[i]));
    o.kints("chars", ch);
    o.kv("size", posval(n));
    if (with_term) o.kv("term", (FS_REF || n <= N) ? code(r.data()[n]) : -1);
    return o.obj();
}
static std::string selfval(const fs& ret, const fs& a) { return std::string("{\"self\":") + (&ret == &a ? "true" : "false") + "}"; }
static std::string itval(std::ptrdiff_t d) { return "{\"it\":" + std::to_string((long long)d) + "}"; }
static std::string chval(CT c) { return "{\"ch\":" + std::to_string(code(c)) + "}"; }
static std::string signval(int c) { return std::string("{\"sign\":") + (c < 0 ? "-1" : c > 0 ? "1" : "0") + "}"; }
static std::string boolval(bool b) { return std::string("{\"b\":") + (b ? "true" : "false") + "}"; }
template <class It> static std::string seqval(It b, It e, std::size_t cap)
{
    std::vector<long long> s;
    for (; b != e && s.size() < cap; ++b) s.push_back(code(*b));
    return "{\"seq\":" + vj::ints(s) + "}";
}

static std::string proj(int k)
{
    fs& x = *slot[k]->obj();
    const fs& cx = x;
    vj::out o;
    std::size_t n = cx.size();
    std::size_t lim = FS_REF ? n : std::min<std::size_t>(n, N + 1);    // never read outside the object
    o.kv("size", posval(n));
    o.kv("len", posval(cx.length()));
    o.kb("empty", cx.empty());
    o.kv("max", FS_REF ? (long long)N : posval(cx.max_size()));
    std::vector<long long> chars, fwd, rev;
    for (std::size_t i = 0; i < lim; ++i) chars.push_back(code(cx.data()[i]));
    o.kints("chars", chars);
    o.kv("term", (FS_REF || n <= N) ? code(cx.data()[n]) : -1);
    o.kv("dist", posval(size_type(cx.end() - cx.begin())));
    if (FS_REF || n <= N)
    {
        for (auto it = cx.begin(); it != cx.end() && fwd.size() < lim + 4; ++it) fwd.push_back(code(*it));
        for (auto it = cx.rbegin(); it != cx.rend() && rev.size() < lim + 4; ++it) rev.push_back(code(*it));
    }
    else { fwd.push_back(-9); rev.push_back(-9); }     // size() > N: the iterator range is not inside the object, do not walk it
    o.kints("fwd", fwd).kints("rev", rev);
    o.kb("g", slot[k]->guards_ok());
    // round 3: a second, independent route to every observable (nothing is read outside the object)
    bool inside = FS_REF || n <= N;
    o.kv("cd", posval(size_type(cx.cend() - cx.cbegin())));
    o.kv("rd", (cx.rend() - cx.rbegin()) == (cx.crend() - cx.crbegin()) ? posval(size_type(x.rend() - x.rbegin())) : -4);
    long long slen = -1, rts = -1, rtn = -1;
    if (inside)
    {
        bool nul = false;
        for (std::size_t i = 0; i <= n && !nul; ++i) nul = cx.c_str()[i] == CT(0);     // a terminator inside the object
        if (nul)
        {
            slen = (long long)fs::traits_type::length(cx.c_str());                        // std::strlen
            sstr viaz(cx.c_str());                                                        // round trip through a C string
            rts = (long long)viaz.size();
            for (std::size_t i = 0; i < viaz.size(); ++i) if (code(viaz[i]) != chars[i]) rts = -5;
        }
        sstr vian(cx.data(), n);                                                          // round trip (pointer, size)
        rtn = (long long)vian.size();
        for (std::size_t i = 0; i < vian.size() && i < chars.size(); ++i) if (code(vian[i]) != chars[i]) rtn = -5;
    }
    o.kv("slen", slen).kv("rts", rts).kv("rtn", rtn);
    o.kb("cp", cx.c_str() == cx.data() && cx.data() == x.data());
    o.kb("ib", x.begin() == cx.cbegin() && cx.begin() == cx.cbegin() && x.end() == cx.cend() && cx.end() == cx.cend()
               && (n == 0 || &*cx.cbegin() == cx.data()) && (!inside || std::size_t(cx.cend() - cx.cbegin()) == n));
    o.kb("rb", x.rbegin().base() == x.end() && x.rend().base() == x.begin() && cx.rbegin().base() == cx.cend() && cx.crend().base() == cx.cbegin()
               && cx.crbegin().base() == cx.cend() && cx.rend().base() == cx.cbegin());
    return o.obj();
}

// operator== for all pairs of the two objects (row = left operand); -1: an object reports a size beyond its capacity
static std::string eqmatrix()
{
    const fs& a = *slot[0]->obj();
    const fs& b = *slot[1]->obj();
    if (!FS_REF && (a.size() > N || b.size() > N)) return "[[-1,-1],[-1,-1]]";
    auto t = [](bool v) { return v ? "true" : "false"; };
    return std::string("[[") + t(a == a) + "," + t(a == b) + "],[" + t(b == a) + "," + t(b == b) + "]]";
}

static std::string hashlimbs(int k)
{
    const fs& cx = *slot[k]->obj();
    if (!FS_REF && cx.size() > N) return "[-1]";
    std::size_t h = std::hash<fs>()(cx);
    std::vector<long long> l;
    for (int i = 0; i < 4; ++i) l.push_back((long long)((h >> (16 * i)) & 0xFFFF));
    return vj::ints(l);
}

static std::string rawcells(int k)
{
#if FS_REF
    (void)k; return "[]";
#else
    const fs& cx = *slot[k]->obj();
    std::vector<long long> l;
    for (std::size_t i = 0; i <= N; ++i) l.push_back(code(cx.data()[i]));
    return vj::ints(l);
#endif
}

#if FS_EXT
// ------------------------------------------------------------------ round 3: other fixed-string types, payloads, containers
static constexpr std::size_t FIELD_N = sizeof(CT) == 1 ? 300 : sizeof(CT) == 2 ? 65536 : N + 9;   // separate length field where the type has one
using fs_big = xtl::xbasic_fixed_string<CT, 2 * N + 7, xtl::buffer | xtl::store_size, xtl::string_policy::silent_error>;
using fs_strlen = xtl::xbasic_fixed_string<CT, N + 3, std::is_same<CT, char>::value ? int(xtl::buffer) : int(xtl::buffer | xtl::store_size), xtl::string_policy::throwing_error>;
using fs_field = xtl::xbasic_fixed_string<CT, FIELD_N, xtl::buffer | xtl::store_size, xtl::string_policy::throwing_error>;

template <class S> static std::string strval_of(const S& r, std::size_t cap)
{
    vj::out o;
    std::vector<long long> ch;
    std::size_t n = r.size();
    for (std::size_t i = 0; i < std::min(n, cap + 1); ++i) ch.push_back(code(r.data()[i]));
    o.kints("chars", ch);
    o.kv("size", posval(n));
    o.kv("term", n <= cap ? code(r.data()[n]) : -1);
    return o.obj();
}
#if !FS_REF
template <class D> static std::string cross_to(const fs& a, const std::string& route)
{
    std::unique_ptr<D> d;
    if (route == "z") d.reset(new D(a.c_str()));
    else if (route == "pn") d.reset(new D(a.data(), a.size()));
    else if (route == "it") d.reset(new D(a.begin(), a.end()));
    else if (route == "str") { sstr s = a; d.reset(new D(s)); }
    else bad("cross route", route);
    return strval_of(*d, d->max_size());
}
template <class D> static std::string cross_from(fs& a, const std::string& route, const source& src)
{
    auto q = src.exact();
    std::unique_ptr<D> d(new D(q.get(), src.n()));
    if (route == "z") return selfval(a.assign(d->c_str()), a);
    if (route == "pn") return selfval(a.assign(d->data(), d->size()), a);
    if (route == "it") return selfval(a.assign(d->begin(), d->end()), a);
    if (route == "str") { sstr s = *d; return selfval(a = s, a); }
    bad("cross route", route);
}
#endif
#endif

// ------------------------------------------------------------------ one call
template <class S> static size_type findcall(const S& fam, const fs& A, const fs& B, const std::string& sk, const source& src, long long pos)
{
    bool d = pos == DFLT;
    size_type p = d ? 0 : P(pos);
#define FAM(name) \
    if (sk == "obj") return d ? A.name(B) : A.name(B, p); \
    if (sk == "str") { sstr s = src.str(); return d ? A.name(s) : A.name(s, p); } \
    if (sk == "ptrn") { auto q = src.exact(); return A.name(q.get(), p, src.n()); } \
    if (sk == "ptr") { auto q = src.cstr(); return d ? A.name(q.get()) : A.name(q.get(), p); } \
    if (sk == "ch") { return d ? A.name(src.v.at(0)) : A.name(src.v.at(0), p); } \
    if (sk == "self") return d ? A.name(A) : A.name(A, p); \
    if (sk == "selfp") return A.name(A.data() + src.off(), p, src.cnt()); \
    if (sk == "selfz") return d ? A.name(A.c_str() + src.off()) : A.name(A.c_str() + src.off(), p); \
    bad("find source kind", sk);
    if (fam == "find") { FAM(find) }
    if (fam == "rfind") { FAM(rfind) }
    if (fam == "ffo") { FAM(find_first_of) }
    if (fam == "ffno") { FAM(find_first_not_of) }
    if (fam == "flo") { FAM(find_last_of) }
    if (fam == "flno") { FAM(find_last_not_of) }
#undef FAM
    bad("find family", fam);
}

template <class L, class R> static bool relcall(const std::string& rop, const L& l, const R& r)
{
    if (rop == "eq") return l == r;
    if (rop == "ne") return l != r;
    if (rop == "lt") return l < r;
    if (rop == "le") return l <= r;
    if (rop == "gt") return l > r;
    if (rop == "ge") return l >= r;
    bad("relational operator", rop);
}

static std::string step(const vj::value& e)
{
    const std::string& op = e.str("op");
    int k = int(e.num("k", 1)) - 1, o = 1 - k;
    const vj::value& a = e.at("a");
    std::string val = "[]";
    const char* exc = "none";
    auto A = [&]() -> fs& { return *slot[k]->obj(); };
    auto B = [&]() -> fs& { return *slot[o]->obj(); };
    auto CA = [&]() -> const fs& { return *slot[k]->obj(); };
    auto num = [&](const char* key) { return a.num(key); };
    auto ch = [&]() { return unit(a.num("ch")); };
    auto sk = [&]() -> const std::string& { return a.str("sk"); };
    auto dflt = [&](const char* key) { return a.num(key) == DFLT; };
    try
    {
        if (op == "Reset")
        {
            if ((std::size_t)num("n") != N || (!FS_REF && ((a.str("policy") == "throwing") != bool(FS_THROW) || (a.str("layout") == "strlen") != bool(FS_STRLEN)))
                || num("cw") != (long long)sizeof(CT) || (a.has("ct") && a.str("ct") != FS_STR(FS_CT)))
            {
                std::fprintf(stderr, "script: Reset for another configuration than this binary (N=%zu throw=%d strlen=%d cw=%zu)\n", N, FS_THROW, FS_STRLEN, sizeof(CT));
                std::exit(3);
            }
            construct(0, [](void* m) { new (m) fs; });
            construct(1, [](void* m) { new (m) fs; });
        }
        // default-INITIALISATION (`fs x;`, `new fs`) over memory that holds 0xEE bytes; "vi":1 asks for value-initialisation (`fs()`)
        else if (op == "CtorDefault") { if (a.num("vi", 0)) construct(k, [](void* m) { new (m) fs(); }); else construct(k, [](void* m) { new (m) fs; }); }
        else if (op == "CtorFill") construct(k, [&](void* m) { new (m) fs(size_type(num("n")), ch()); });
        else if (op == "CtorSub")
        {
            size_type p = P(num("pos"));
            if (sk() == "obj") construct(k, [&](void* m) { if (dflt("n")) new (m) fs(B(), p); else new (m) fs(B(), p, P(num("n"))); });
            else if (sk() == "str") { sstr s = source(a.at("src")).str(); construct(k, [&](void* m) { if (dflt("n")) new (m) fs(s, p); else new (m) fs(s, p, P(num("n"))); }); }
            else bad("CtorSub kind", sk());
        }
        else if (op == "CtorSeq")
        {
            source src(a.at("src"));
            if (sk() == "ptrn") { auto q = src.exact(); construct(k, [&](void* m) { new (m) fs(q.get(), src.n()); }); }
            else if (sk() == "ptr") { auto q = src.cstr(); construct(k, [&](void* m) { new (m) fs(q.get()); }); }
            else if (sk() == "il") with_il(src.v, [&](std::initializer_list<CT> l) { construct(k, [&](void* m) { new (m) fs(l); }); });
            else if (sk() == "itv") { auto c = src.vec(); construct(k, [&](void* m) { new (m) fs(c.begin(), c.end()); }); }
            else if (sk() == "itl") { auto c = src.lst(); construct(k, [&](void* m) { new (m) fs(c.begin(), c.end()); }); }
            else if (sk() == "itp") { auto q = src.exact(); const CT* f = q.get(); construct(k, [&](void* m) { new (m) fs(f, f + src.n()); }); }
            else if (sk() == "itpm") { auto q = src.exact(); CT* f = q.get(); construct(k, [&](void* m) { new (m) fs(f, f + src.n()); }); }
            else if (sk() == "its") { sstr s = src.str(); construct(k, [&](void* m) { new (m) fs(s.begin(), s.end()); }); }
            else if (sk() == "str") { sstr s = src.str(); construct(k, [&](void* m) { new (m) fs(s); }); }
            else if (sk() == "obj") construct(k, [&](void* m) { new (m) fs(B()); });
            else if (sk() == "objm") construct(k, [&](void* m) { new (m) fs(std::move(B())); });
            else bad("CtorSeq kind", sk());
        }
        else if (op == "Overlay")
        {
#if FS_STRLEN && !FS_REF
            // the object is laid over caller memory that already holds characters (numpy string): no constructor runs
            source cells(a.at("cells"));
            if (cells.n() != N + 1) bad("Overlay cell count", std::to_string(cells.n()));
            std::unique_ptr<frame> nf(new frame());
            std::memcpy(nf->cells(), cells.v.data(), sizeof(fs));
            nf->live = true;
            slot[k] = std::move(nf);
#else
            bad("op for this configuration", op);
#endif
        }
        else if (op == "AssignFill")
        {
            if (a.str("ov") == "assign") val = selfval(A().assign(size_type(num("n")), ch()), A());
            else val = selfval(A() = ch(), A());
        }
        else if (op == "AssignSub")
        {
            size_type p = P(num("pos"));
            if (sk() == "obj") val = selfval(dflt("n") ? A().assign(B(), p) : A().assign(B(), p, P(num("n"))), A());
            else if (sk() == "str") { sstr s = source(a.at("src")).str(); val = selfval(dflt("n") ? A().assign(s, p) : A().assign(s, p, P(num("n"))), A()); }
            else if (sk() == "self") val = selfval(dflt("n") ? A().assign(CA(), p) : A().assign(CA(), p, P(num("n"))), A());
            else bad("AssignSub kind", sk());
        }
        else if (op == "AssignSeq")
        {
            source src(a.at("src"));
            bool asg = a.str("ov") == "assign";
            if (sk() == "ptrn") { auto q = src.exact(); val = selfval(A().assign(q.get(), src.n()), A()); }
            else if (sk() == "ptr") { auto q = src.cstr(); val = selfval(asg ? A().assign(q.get()) : (A() = q.get()), A()); }
            else if (sk() == "il") with_il(src.v, [&](std::initializer_list<CT> l) { val = selfval(asg ? A().assign(l) : (A() = l), A()); });
            else if (sk() == "itv") { auto c = src.vec(); val = selfval(A().assign(c.begin(), c.end()), A()); }
            else if (sk() == "itl") { auto c = src.lst(); val = selfval(A().assign(c.begin(), c.end()), A()); }
            else if (sk() == "str") { sstr s = src.str(); val = selfval(asg ? A().assign(s) : (A() = s), A()); }
            else if (sk() == "obj") val = selfval(asg ? A().assign(B()) : (A() = B()), A());
            else if (sk() == "objm") val = selfval(asg ? A().assign(std::move(B())) : (A() = std::move(B())), A());
            else if (sk() == "self") val = selfval(asg ? A().assign(CA()) : (A() = CA()), A());
            else if (sk() == "selfp") val = selfval(A().assign(CA().data() + src.off(), src.cnt()), A());
            else if (sk() == "selfz") val = selfval(asg ? A().assign(CA().c_str() + src.off()) : (A() = CA().c_str() + src.off()), A());
            else if (sk() == "selfit") val = selfval(A().assign(CA().begin() + std::ptrdiff_t(src.off()), CA().begin() + std::ptrdiff_t(src.off() + src.cnt())), A());
            else if (sk() == "selfmit") val = selfval(A().assign(A().begin() + std::ptrdiff_t(src.off()), A().begin() + std::ptrdiff_t(src.off() + src.cnt())), A());
            else if (sk() == "selfrit") val = selfval(A().assign(RIT(A().begin() + std::ptrdiff_t(src.off() + src.cnt())), RIT(A().begin() + std::ptrdiff_t(src.off()))), A());
            else if (sk() == "itp") { auto q = src.exact(); const CT* f = q.get(); val = selfval(A().assign(f, f + src.n()), A()); }
            else if (sk() == "itpm") { auto q = src.exact(); CT* f = q.get(); val = selfval(A().assign(f, f + src.n()), A()); }
            else if (sk() == "its") { sstr s = src.str(); val = selfval(A().assign(s.begin(), s.end()), A()); }
            else bad("AssignSeq kind", sk());
        }
        else if (op == "At") val = chval(num("c") ? CA().at(P(num("i"))) : A().at(P(num("i"))));
        else if (op == "Index") val = chval(num("c") ? CA()[P(num("i"))] : A()[P(num("i"))]);
        else if (op == "Front") val = chval(num("c") ? CA().front() : A().front());
        else if (op == "Back") val = chval(num("c") ? CA().back() : A().back());
        else if (op == "Write")
        {
            const std::string& path = a.str("path");
            size_type i = size_type(num("i"));
            if (path == "index") A()[i] = ch();
            else if (path == "at") A().at(i) = ch();
            else if (path == "front") A().front() = ch();
            else if (path == "back") A().back() = ch();
            else if (path == "iter") *(A().begin() + std::ptrdiff_t(i)) = ch();
            else if (path == "riter") *(A().rbegin() + std::ptrdiff_t(A().size() - 1 - i)) = ch();
            else if (path == "data") const_cast<CT*>(A().data())[i] = ch();
            else bad("write path", path);
        }
        else if (op == "Iterate")
        {
            const std::string& kind = a.str("kind");
            std::size_t cap = (FS_REF ? A().size() : N) + 8;
            if (kind == "begin") val = seqval(A().begin(), A().end(), cap);
            else if (kind == "cbegin") val = seqval(CA().cbegin(), CA().cend(), cap);
            else if (kind == "rbegin") val = seqval(A().rbegin(), A().rend(), cap);
            else if (kind == "crbegin") val = seqval(CA().crbegin(), CA().crend(), cap);
            else if (kind == "cstr") { const CT* p = CA().c_str(); std::size_t n = std::min<std::size_t>(CA().size(), cap - 8); val = seqval(p, p + n + 1, cap); }
            else if (kind == "data") { const CT* p = CA().data(); std::size_t n = std::min<std::size_t>(CA().size(), cap - 8); val = seqval(p, p + n + 1, cap); }
            else bad("iterate kind", kind);
        }
        else if (op == "Clear") A().clear();
        else if (op == "PushBack")
        {
            if (a.str("ov") == "push_back") A().push_back(ch());
            else val = selfval(A() += ch(), A());
        }
        else if (op == "PopBack") A().pop_back();
        else if (op == "Substr")
        {
            fs r = dflt("pos") && dflt("n") ? CA().substr()
                 : dflt("n") ? CA().substr(P(num("pos")))
                 : CA().substr(dflt("pos") ? 0 : P(num("pos")), P(num("n")));
            val = strval(r, true);
        }
        else if (op == "Copy")
        {
            std::size_t dn = std::size_t(num("dn"));
            std::unique_ptr<CT[]> dest(new CT[dn]);
            for (std::size_t i = 0; i < dn; ++i) dest[i] = unit(num("fill"));
            size_type r = dflt("pos") ? CA().copy(dest.get(), P(num("n"))) : CA().copy(dest.get(), P(num("n")), P(num("pos")));
            std::vector<long long> d;
            for (std::size_t i = 0; i < dn; ++i) d.push_back(code(dest[i]));
            val = "{\"cnt\":" + std::to_string(posval(r)) + ",\"dest\":" + vj::ints(d) + "}";
        }
        else if (op == "Resize1") A().resize(P(num("n")));
        else if (op == "Resize2") A().resize(P(num("n")), ch());
        else if (op == "Swap")
        {
            if (a.str("ov") == "member") A().swap(B());
            else if (a.str("ov") == "free") { using std::swap; swap(A(), B()); }
            else if (a.str("ov") == "memberself") A().swap(A());
            else if (a.str("ov") == "freeself") { using std::swap; swap(A(), A()); }
            else bad("swap overload", a.str("ov"));
        }
        else if (op == "InsertFill") val = selfval(A().insert(P(num("idx")), size_type(num("n")), ch()), A());
        else if (op == "InsertSeq")
        {
            source src(a.at("src"));
            size_type idx = P(num("idx"));
            if (sk() == "ptr") { auto q = src.cstr(); val = selfval(A().insert(idx, q.get()), A()); }
            else if (sk() == "ptrn") { auto q = src.exact(); val = selfval(A().insert(idx, q.get(), src.n()), A()); }
            else if (sk() == "obj") val = selfval(A().insert(idx, B()), A());
            else if (sk() == "str") { sstr s = src.str(); val = selfval(A().insert(idx, s), A()); }
            else if (sk() == "self") val = selfval(A().insert(idx, CA()), A());
            else if (sk() == "selfp") val = selfval(A().insert(idx, CA().data() + src.off(), src.cnt()), A());
            else if (sk() == "selfz") val = selfval(A().insert(idx, CA().c_str() + src.off()), A());
            else bad("InsertSeq kind", sk());
        }
        else if (op == "InsertSub")
        {
            size_type idx = P(num("idx")), p = P(num("pos"));
            if (sk() == "obj") val = selfval(dflt("n") ? A().insert(idx, B(), p) : A().insert(idx, B(), p, P(num("n"))), A());
            else if (sk() == "str") { sstr s = source(a.at("src")).str(); val = selfval(dflt("n") ? A().insert(idx, s, p) : A().insert(idx, s, p, P(num("n"))), A()); }
            else if (sk() == "self") val = selfval(dflt("n") ? A().insert(idx, CA(), p) : A().insert(idx, CA(), p, P(num("n"))), A());
            else bad("InsertSub kind", sk());
        }
        else if (op == "InsertIt")
        {
            auto pos = CA().cbegin() + std::ptrdiff_t(num("it"));
            auto r = a.str("ov") == "ch" ? A().insert(pos, ch()) : A().insert(pos, size_type(num("n")), ch());
            val = itval(r - A().begin());
        }
        else if (op == "InsertItSeq")
        {
            source src(a.at("src"));
            auto pos = CA().cbegin() + std::ptrdiff_t(num("it"));
            if (sk() == "il") with_il(src.v, [&](std::initializer_list<CT> l) { auto r = A().insert(pos, l); val = itval(r - A().begin()); });
            else if (sk() == "itv") { auto c = src.vec(); auto r = A().insert(pos, c.begin(), c.end()); val = itval(r - A().begin()); }
            else if (sk() == "itl") { auto c = src.lst(); auto r = A().insert(pos, c.begin(), c.end()); val = itval(r - A().begin()); }
            else if (sk() == "selfit") { auto f2 = CA().begin() + std::ptrdiff_t(src.off()); auto r = A().insert(pos, f2, f2 + std::ptrdiff_t(src.cnt())); val = itval(r - A().begin()); }
            else if (sk() == "selfmit") { auto f2 = A().begin() + std::ptrdiff_t(src.off()); auto r = A().insert(pos, f2, f2 + std::ptrdiff_t(src.cnt())); val = itval(r - A().begin()); }
            else if (sk() == "selfrit") { auto l2 = A().begin() + std::ptrdiff_t(src.off()); auto r = A().insert(pos, RIT(l2 + std::ptrdiff_t(src.cnt())), RIT(l2)); val = itval(r - A().begin()); }
            else if (sk() == "itp") { auto q = src.exact(); const CT* f2 = q.get(); auto r = A().insert(pos, f2, f2 + src.n()); val = itval(r - A().begin()); }
            else if (sk() == "itpm") { auto q = src.exact(); CT* f2 = q.get(); auto r = A().insert(pos, f2, f2 + src.n()); val = itval(r - A().begin()); }
            else if (sk() == "its") { sstr s2 = src.str(); auto r = A().insert(pos, s2.begin(), s2.end()); val = itval(r - A().begin()); }
            else bad("InsertItSeq kind", sk());
        }
        else if (op == "Erase")
        {
            if (dflt("idx") && dflt("n")) val = selfval(A().erase(), A());
            else if (dflt("n")) val = selfval(A().erase(P(num("idx"))), A());
            else val = selfval(A().erase(dflt("idx") ? 0 : P(num("idx")), P(num("n"))), A());
        }
        else if (op == "EraseIt") { auto r = A().erase(CA().cbegin() + std::ptrdiff_t(num("it"))); val = itval(r - A().begin()); }
        else if (op == "EraseRange") { auto r = A().erase(CA().cbegin() + std::ptrdiff_t(num("f")), CA().cbegin() + std::ptrdiff_t(num("l"))); val = itval(r - A().begin()); }
        else if (op == "AppendFill") val = selfval(A().append(size_type(num("n")), ch()), A());
        else if (op == "AppendSeq")
        {
            source src(a.at("src"));
            bool app = a.str("ov") == "append";
            if (sk() == "obj") val = selfval(app ? A().append(B()) : (A() += B()), A());
            else if (sk() == "str") { sstr s = src.str(); val = selfval(app ? A().append(s) : (A() += s), A()); }
            else if (sk() == "ptrn") { auto q = src.exact(); val = selfval(A().append(q.get(), src.n()), A()); }
            else if (sk() == "ptr") { auto q = src.cstr(); val = selfval(app ? A().append(q.get()) : (A() += q.get()), A()); }
            else if (sk() == "il") with_il(src.v, [&](std::initializer_list<CT> l) { val = selfval(app ? A().append(l) : (A() += l), A()); });
            else if (sk() == "itv") { auto c = src.vec(); val = selfval(A().append(c.begin(), c.end()), A()); }
            else if (sk() == "itl") { auto c = src.lst(); val = selfval(A().append(c.begin(), c.end()), A()); }
            else if (sk() == "self") val = selfval(app ? A().append(CA()) : (A() += CA()), A());
            else if (sk() == "selfp") val = selfval(A().append(CA().data() + src.off(), src.cnt()), A());
            else if (sk() == "selfz") val = selfval(app ? A().append(CA().c_str() + src.off()) : (A() += CA().c_str() + src.off()), A());
            else if (sk() == "selfit") { auto f2 = CA().begin() + std::ptrdiff_t(src.off()); val = selfval(A().append(f2, f2 + std::ptrdiff_t(src.cnt())), A()); }
            else if (sk() == "selfmit") { auto f2 = A().begin() + std::ptrdiff_t(src.off()); val = selfval(A().append(f2, f2 + std::ptrdiff_t(src.cnt())), A()); }
            else if (sk() == "selfrit") { auto l2 = A().begin() + std::ptrdiff_t(src.off()); val = selfval(A().append(RIT(l2 + std::ptrdiff_t(src.cnt())), RIT(l2)), A()); }
            else if (sk() == "itp") { auto q = src.exact(); const CT* f2 = q.get(); val = selfval(A().append(f2, f2 + src.n()), A()); }
            else if (sk() == "itpm") { auto q = src.exact(); CT* f2 = q.get(); val = selfval(A().append(f2, f2 + src.n()), A()); }
            else if (sk() == "its") { sstr s2 = src.str(); val = selfval(A().append(s2.begin(), s2.end()), A()); }
            else bad("AppendSeq kind", sk());
        }
        else if (op == "AppendSub")
        {
            size_type p = P(num("pos"));
            if (sk() == "obj") val = selfval(dflt("n") ? A().append(B(), p) : A().append(B(), p, P(num("n"))), A());
            else if (sk() == "str") { sstr s = source(a.at("src")).str(); val = selfval(dflt("n") ? A().append(s, p) : A().append(s, p, P(num("n"))), A()); }
            else if (sk() == "self") val = selfval(dflt("n") ? A().append(CA(), p) : A().append(CA(), p, P(num("n"))), A());
            else bad("AppendSub kind", sk());
        }
        else if (op == "Compare")
        {
            source src(a.at("src"));
            if (sk() == "obj") val = signval(CA().compare(B()));
            else if (sk() == "str") { sstr s = src.str(); val = signval(CA().compare(s)); }
            else if (sk() == "ptr") { auto q = src.cstr(); val = signval(CA().compare(q.get())); }
            else if (sk() == "self") val = signval(CA().compare(CA()));
            else if (sk() == "selfz") val = signval(CA().compare(CA().c_str() + src.off()));
            else bad("Compare kind", sk());
        }
        else if (op == "Compare1")
        {
            source src(a.at("src"));
            size_type p1 = P(num("pos1")), n1 = P(num("n1"));
            if (sk() == "obj") val = signval(CA().compare(p1, n1, B()));
            else if (sk() == "str") { sstr s = src.str(); val = signval(CA().compare(p1, n1, s)); }
            else if (sk() == "ptr") { auto q = src.cstr(); val = signval(CA().compare(p1, n1, q.get())); }
            else if (sk() == "ptrn") { auto q = src.exact(); val = signval(CA().compare(p1, n1, q.get(), src.n())); }
            else if (sk() == "self") val = signval(CA().compare(p1, n1, CA()));
            else if (sk() == "selfz") val = signval(CA().compare(p1, n1, CA().c_str() + src.off()));
            else if (sk() == "selfp") val = signval(CA().compare(p1, n1, CA().data() + src.off(), src.cnt()));
            else bad("Compare1 kind", sk());
        }
        else if (op == "Compare2")
        {
            size_type p1 = P(num("pos1")), n1 = P(num("n1")), p2 = P(num("pos2"));
            if (sk() == "obj") val = signval(dflt("n2") ? CA().compare(p1, n1, B(), p2) : CA().compare(p1, n1, B(), p2, P(num("n2"))));
            else if (sk() == "str") { sstr s = source(a.at("src")).str(); val = signval(dflt("n2") ? CA().compare(p1, n1, s, p2) : CA().compare(p1, n1, s, p2, P(num("n2")))); }
            else if (sk() == "self") val = signval(dflt("n2") ? CA().compare(p1, n1, CA(), p2) : CA().compare(p1, n1, CA(), p2, P(num("n2"))));
            else bad("Compare2 kind", sk());
        }
        else if (op == "Replace")
        {
            source src(a.at("src"));
            size_type p = P(num("pos")), n = P(num("n"));
            if (sk() == "obj") val = selfval(A().replace(p, n, B()), A());
            else if (sk() == "str") { sstr s = src.str(); val = selfval(A().replace(p, n, s), A()); }
            else if (sk() == "ptrn") { auto q = src.exact(); val = selfval(A().replace(p, n, q.get(), src.n()), A()); }
            else if (sk() == "ptr") { auto q = src.cstr(); val = selfval(A().replace(p, n, q.get()), A()); }
            else if (sk() == "self") val = selfval(A().replace(p, n, CA()), A());
            else if (sk() == "selfp") val = selfval(A().replace(p, n, CA().data() + src.off(), src.cnt()), A());
            else if (sk() == "selfz") val = selfval(A().replace(p, n, CA().c_str() + src.off()), A());
            else bad("Replace kind", sk());
        }
        else if (op == "ReplaceSub")
        {
            size_type p = P(num("pos")), n = P(num("n")), p2 = P(num("pos2"));
            if (sk() == "obj") val = selfval(dflt("n2") ? A().replace(p, n, B(), p2) : A().replace(p, n, B(), p2, P(num("n2"))), A());
            else if (sk() == "str") { sstr s = source(a.at("src")).str(); val = selfval(dflt("n2") ? A().replace(p, n, s, p2) : A().replace(p, n, s, p2, P(num("n2"))), A()); }
            else if (sk() == "self") val = selfval(dflt("n2") ? A().replace(p, n, CA(), p2) : A().replace(p, n, CA(), p2, P(num("n2"))), A());
            else bad("ReplaceSub kind", sk());
        }
        else if (op == "ReplaceFill") val = selfval(A().replace(P(num("pos")), P(num("n")), size_type(num("n2")), ch()), A());
        else if (op == "ReplaceIt")
        {
            source src(a.at("src"));
            auto f = CA().cbegin() + std::ptrdiff_t(num("f")), l = CA().cbegin() + std::ptrdiff_t(num("l"));
            if (sk() == "obj") val = selfval(A().replace(f, l, B()), A());
            else if (sk() == "str") { sstr s = src.str(); val = selfval(A().replace(f, l, s), A()); }
            else if (sk() == "ptrn") { auto q = src.exact(); val = selfval(A().replace(f, l, q.get(), src.n()), A()); }
            else if (sk() == "ptr") { auto q = src.cstr(); val = selfval(A().replace(f, l, q.get()), A()); }
            else if (sk() == "il") with_il(src.v, [&](std::initializer_list<CT> il) { val = selfval(A().replace(f, l, il), A()); });
            else if (sk() == "itv") { auto c = src.vec(); val = selfval(A().replace(f, l, c.begin(), c.end()), A()); }
            else if (sk() == "itl") { auto c = src.lst(); val = selfval(A().replace(f, l, c.begin(), c.end()), A()); }
            else if (sk() == "self") val = selfval(A().replace(f, l, CA()), A());
            else if (sk() == "selfp") val = selfval(A().replace(f, l, CA().data() + src.off(), src.cnt()), A());
            else if (sk() == "selfz") val = selfval(A().replace(f, l, CA().c_str() + src.off()), A());
            else if (sk() == "selfit") { auto f2 = CA().begin() + std::ptrdiff_t(src.off()); val = selfval(A().replace(f, l, f2, f2 + std::ptrdiff_t(src.cnt())), A()); }
            else if (sk() == "selfmit") { auto f2 = A().begin() + std::ptrdiff_t(src.off()); val = selfval(A().replace(f, l, f2, f2 + std::ptrdiff_t(src.cnt())), A()); }
            else if (sk() == "selfrit") { auto l2 = A().begin() + std::ptrdiff_t(src.off()); val = selfval(A().replace(f, l, RIT(l2 + std::ptrdiff_t(src.cnt())), RIT(l2)), A()); }
            else if (sk() == "itp") { auto q = src.exact(); const CT* f2 = q.get(); val = selfval(A().replace(f, l, f2, f2 + src.n()), A()); }
            else if (sk() == "itpm") { auto q = src.exact(); CT* f2 = q.get(); val = selfval(A().replace(f, l, f2, f2 + src.n()), A()); }
            else if (sk() == "its") { sstr s2 = src.str(); val = selfval(A().replace(f, l, s2.begin(), s2.end()), A()); }
            else bad("ReplaceIt kind", sk());
        }
        else if (op == "ReplaceItFill")
        {
            auto f = CA().cbegin() + std::ptrdiff_t(num("f")), l = CA().cbegin() + std::ptrdiff_t(num("l"));
            val = selfval(A().replace(f, l, size_type(num("n2")), ch()), A());
        }
        else if (op == "Find")
        {
            source src(a.at("src"));
            val = "{\"pos\":" + std::to_string(posval(findcall(a.str("fam"), CA(), B(), sk(), src, num("pos")))) + "}";
        }
        else if (op == "Rel")
        {
            source src(a.at("src"));
            const std::string& rop = a.str("rop");
            if (sk() == "obj") val = boolval(relcall(rop, CA(), const_cast<const fs&>(B())));
            else if (sk() == "ptr") { auto q = src.cstr(); const CT* p = q.get(); val = boolval(relcall(rop, CA(), p)); }
            else if (sk() == "ptrL") { auto q = src.cstr(); const CT* p = q.get(); val = boolval(relcall(rop, p, CA())); }
            else if (sk() == "str") { sstr s = src.str(); val = boolval(relcall(rop, CA(), s)); }
            else if (sk() == "strL") { sstr s = src.str(); val = boolval(relcall(rop, s, CA())); }
            else if (sk() == "self") val = boolval(relcall(rop, CA(), CA()));
            else if (sk() == "selfz") { const CT* p = CA().c_str() + src.off(); val = boolval(relcall(rop, CA(), p)); }
            else bad("Rel kind", sk());
        }
        else if (op == "Concat")
        {
            source src(a.at("src"));
            const std::string& lk = a.str("lk");
            const std::string& rk = a.str("rk");
            auto q = src.cstr();
            const CT* p = q.get();
            CT c = src.n() ? src.v[0] : CT(0);
            const fs& cb = B();
            fs r = lk == "self" ? (rk == "obj" ? CA() + cb : rk == "self" ? CA() + CA() : rk == "objm" ? CA() + std::move(B()) : rk == "ptr" ? CA() + p : CA() + c)
                 : lk == "selfm" ? (rk == "obj" ? std::move(A()) + cb : rk == "objm" ? std::move(A()) + std::move(B()) : rk == "ptr" ? std::move(A()) + p : std::move(A()) + c)
                 : lk == "ptr" ? (rk == "obj" ? p + cb : p + std::move(B()))
                 : (rk == "obj" ? c + cb : c + std::move(B()));
            val = strval(r, true);
        }
        else if (op == "ToStd") { sstr s = CA(); std::vector<long long> cs; for (auto x : s) { if (cs.size() > N + 8) break; cs.push_back(code(x)); } val = "{\"chars\":" + vj::ints(cs) + ",\"size\":" + std::to_string(posval(s.size())) + "}"; }
        else if (op == "StreamOut" || op == "StreamIn" || op == "GetLine")
        {
#if FS_IO
            if (op == "StreamOut")
            {
                std::basic_ostringstream<CT> os;
                os << CA();
                sstr s = os.str();
                std::vector<long long> cs; for (auto x : s) { if (cs.size() > N + 8) break; cs.push_back(code(x)); }
                val = "{\"chars\":" + vj::ints(cs) + ",\"size\":" + std::to_string(posval(s.size())) + "}";
            }
            else if (op == "StreamIn") { std::basic_istringstream<CT> is(source(a.at("text")).str()); is >> A(); }
            else
            {
                sstr text = source(a.at("text")).str();
                std::basic_istringstream<CT> is(text);
                using std::getline;
                if (num("rv")) { if (dflt("delim")) getline(std::basic_istringstream<CT>(text), A()); else getline(std::basic_istringstream<CT>(text), A(), unit(num("delim"))); }
                else { if (dflt("delim")) getline(is, A()); else getline(is, A(), unit(num("delim"))); }
            }
#else
            bad("op for this configuration", op);
#endif
        }
#if FS_EXT
        else if (op == "MapKey")
        {
            const fs& x = CA(); const fs& y = B();
            std::map<fs, int> m; m[x] = 1; m[y] = 2;
            std::unordered_map<fs, int> u; u[x] = 1; u[y] = 2;
            vj::out o2;
            o2.kv("msz", (long long)m.size()).kv("mval", m.find(x) == m.end() ? -1 : m.find(x)->second);
            o2.kv("usz", (long long)u.size()).kv("uval", u.find(x) == u.end() ? -1 : u.find(x)->second);
            o2.kv("first", m.begin()->first.compare(x) == 0 ? 1 : 2);
            o2.kb("heq", std::hash<fs>()(x) == std::hash<fs>()(y));
            val = o2.obj();
        }
#if !FS_REF
        else if (op == "Payload")
        {
            const std::string& kind = a.str("kind");
            using var_t = xtl::variant<int, fs>;
            if (kind == "variant_copy") { var_t v(CA()); var_t w(v); val = strval(xtl::get<fs>(w), true); }
            else if (kind == "variant_move") { var_t v(CA()); var_t w(std::move(v)); val = strval(xtl::get<fs>(w), true); }
            else if (kind == "variant_assign") { var_t v(CA()); var_t w(3); w = v; var_t z(7); z = std::move(w); val = strval(xtl::get<fs>(z), true); }
            else if (kind == "variant_emplace") { var_t w(3); w.template emplace<fs>(CA()); w = 4; w = CA(); val = strval(xtl::get<fs>(w), true); }
            else if (kind == "any_copy") { xtl::any x(CA()); xtl::any y(x); val = strval(xtl::any_cast<fs>(y), true); }
            else if (kind == "any_move") { xtl::any x(CA()); xtl::any y(std::move(x)); val = strval(xtl::any_cast<const fs&>(y), true); }
            else if (kind == "any_assign") { xtl::any x(CA()); xtl::any y(1); y = x; xtl::any z; z = std::move(y); val = strval(*xtl::any_cast<fs>(&z), true); }
            else bad("payload kind", kind);
        }
        else if (op == "CrossTo")
        {
            const std::string& dst = a.str("dst");
            if (dst == "big") val = cross_to<fs_big>(CA(), a.str("route"));
            else if (dst == "strlen") val = cross_to<fs_strlen>(CA(), a.str("route"));
            else if (dst == "field") val = cross_to<fs_field>(CA(), a.str("route"));
            else bad("cross dst", dst);
        }
        else if (op == "CrossFrom")
        {
            source src(a.at("src"));
            const std::string& dst = a.str("dst");
            if (dst == "big") val = cross_from<fs_big>(A(), a.str("route"), src);
            else if (dst == "strlen") val = cross_from<fs_strlen>(A(), a.str("route"), src);
            else if (dst == "field") val = cross_from<fs_field>(A(), a.str("route"), src);
            else bad("cross dst", dst);
        }
#endif
#if FS_IO
        else if (op == "Extract" || op == "GetLineX")
        {
            sstr text = source(a.at("text")).str();
            std::basic_istringstream<CT> is(text);
            if (op == "Extract")
            {
                if (!a.at("skip").b) is.unsetf(std::ios_base::skipws);
                is.width(std::streamsize(num("w")));
            }
            if (!a.at("ok").b) is.setstate(std::ios_base::failbit);
            using std::getline;
            if (op == "Extract") is >> A();
            else if (dflt("delim")) getline(is, A());
            else getline(is, A(), unit(num("delim")));
            bool eof = is.eof(), fail = is.fail();
            long long w = (long long)is.width(), rest = 0;
            is.clear();
            while (is.get() != std::char_traits<CT>::eof()) ++rest;
            vj::out o2;
            o2.kb("eof", eof).kb("fail", fail).kv("w", w).kv("rest", rest);
            val = o2.obj();
        }
        else if (op == "Put")
        {
            std::basic_ostringstream<CT> os;
            const std::string& adj = a.str("adj");
            os.width(std::streamsize(num("w")));
            os.fill(unit(num("fill")));
            if (adj == "left") os.setf(std::ios_base::left, std::ios_base::adjustfield);
            else if (adj == "right") os.setf(std::ios_base::right, std::ios_base::adjustfield);
            else if (adj == "internal") os.setf(std::ios_base::internal, std::ios_base::adjustfield);
            os << CA();
            sstr s2 = os.str();
            std::vector<long long> cs; for (auto x : s2) { if (cs.size() > 2 * N + 40) break; cs.push_back(code(x)); }
            val = "{\"chars\":" + vj::ints(cs) + ",\"size\":" + std::to_string(posval(s2.size())) + ",\"w\":" + std::to_string((long long)os.width()) + "}";
        }
#endif
#if FS_JSON
        else if (op == "JsonOut")
        {
            nlohmann::json j = CA();                       // to_json of xjson.hpp (found by ADL)
            bool isstr = j.is_string();
            std::string got = isstr ? j.get<std::string>() : std::string();
            fs back;                                       // ... and the way back into a fresh object
            if (isstr) xtl::from_json(j, back);
            std::vector<long long> cs; for (auto x : got) { if (cs.size() > N + 8) break; cs.push_back(code(CT(x))); }
            val = "{\"chars\":" + vj::ints(cs) + ",\"size\":" + std::to_string(posval(isstr && back == CA() ? got.size() : std::size_t(-1))) + ",\"str\":" + (isstr ? "true" : "false") + "}";
        }
        else if (op == "JsonIn")
        {
            nlohmann::json j = source(a.at("text")).str();
            xtl::from_json(j, A());
        }
#endif
#endif
        else bad("op", op);
    }
    catch (const std::length_error&) { exc = "length_error"; }
    catch (const std::out_of_range&) { exc = "out_of_range"; }
    catch (const std::exception&) { exc = "other"; }
    return std::string("{\"exc\":\"") + exc + "\",\"val\":" + (std::strcmp(exc, "none") ? "[]" : val) + "}";
}

// A call that does not return: after FS_CALL_CPU_S seconds of CPU time in one call the trace is closed with a Crash
// event (which no specification action matches) instead of hanging the run.
#ifndef FS_CALL_CPU_S
#define FS_CALL_CPU_S 2
#endif
static void on_cpu_limit(int)
{
    std::fflush(stdout);
    vj::crash_line("call did not return (per-call CPU limit)");
    _exit(0);
}
static void arm_cpu_limit()
{
    struct itimerval t;
    t.it_interval.tv_sec = 0; t.it_interval.tv_usec = 0;
    t.it_value.tv_sec = FS_CALL_CPU_S; t.it_value.tv_usec = 0;
    setitimer(ITIMER_VIRTUAL, &t, nullptr);
}

// XTL_NO_EXCEPTIONS builds: a failing check prints its message and calls std::terminate().  What is observable at that
// moment (both objects, the guards) is logged as the outcome "terminated" of the call that was running; the process ends.
static std::string g_head;
static void on_failed_check()
{
    std::string out = g_head + ",\"res\":{\"exc\":\"terminated\",\"val\":[]},\"st\":{\"o\":[" + proj(0) + "," + proj(1) + "],\"eq\":" + eqmatrix() + "}}\n";
    std::fputs(out.c_str(), stdout);
    std::fflush(stdout);
    _exit(0);
}

int main()
{
    vj::install_crash_handlers();
#if defined(XTL_NO_EXCEPTIONS)
    std::set_terminate(on_failed_check);
#endif
    std::signal(SIGVTALRM, on_cpu_limit);
    std::ios::sync_with_stdio(false);
    construct(0, [](void* m) { new (m) fs; });
    construct(1, [](void* m) { new (m) fs; });
    std::string line, outbuf;
    bool lean = std::getenv("FS_LEAN") != nullptr;      // S->C replay: no hash / raw cells
    while (std::getline(std::cin, line))
    {
        if (line.empty()) continue;
        vj::value e = vj::parse(line);
        arm_cpu_limit();
        g_head = line.substr(0, line.rfind('}'));
        std::string res = step(e);
        const std::string& head = g_head;
        outbuf = head + ",\"res\":" + res + ",\"st\":{\"o\":[" + proj(0) + "," + proj(1) + "],\"eq\":" + eqmatrix() + "}";
        if (!lean)
        {
            outbuf += ",\"h\":[" + hashlimbs(0) + "," + hashlimbs(1) + "]";
            if (N <= 32) outbuf += ",\"raw\":[" + rawcells(0) + "," + rawcells(1) + "]";
        }
        outbuf += "}\n";
        std::fputs(outbuf.c_str(), stdout);
    }
    std::fflush(stdout);
    slot[0].reset(); slot[1].reset();
    return 0;
}

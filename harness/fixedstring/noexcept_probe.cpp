// C01 / C02 round 3: ADVISORY compile-time table of xtl::xbasic_fixed_string - what the header declares beyond the
// sentences of the properties: noexcept specifications (those std::basic_string has and the header repeats), object
// layout facts the storage options promise (the strlen-sized layout is exactly N + 1 characters and trivially copyable:
// "numpy compatible"), further character types (signed char, unsigned char), constant expressions.
// Same conventions as sig_probe.cpp: ONE row per source line, a failing row is reported by its line; a failing row here
// is reported as MODEL-DRIFT ("ADVISORY ..."), never as a violation.
#ifndef FS_CT
#define FS_CT char
#endif
#ifndef FS_N
#define FS_N 3
#endif
#ifndef FS_STRLEN
#define FS_STRLEN 0
#endif
#ifndef FS_THROW
#define FS_THROW 1
#endif
#include <xtl/xbasic_fixed_string.hpp>
#include <cstddef>
#include <string>
#include <type_traits>
#include <utility>

using CT = FS_CT;
static constexpr std::size_t N = FS_N;
#if FS_THROW
using fs = xtl::xbasic_fixed_string<CT, N, FS_STRLEN ? xtl::buffer : (xtl::buffer | xtl::store_size), xtl::string_policy::throwing_error>;
#else
using fs = xtl::xbasic_fixed_string<CT, N, FS_STRLEN ? xtl::buffer : (xtl::buffer | xtl::store_size), xtl::string_policy::silent_error>;
#endif
using sstr = std::basic_string<CT>;
fs& m() noexcept;              // (noexcept themselves, so that noexcept(expr) speaks about the member function only)
const fs& c() noexcept;
const CT* p() noexcept;
const sstr& s() noexcept;
static constexpr bool PACKED = !FS_STRLEN && N <= std::numeric_limits<std::make_unsigned<CT>::type>::max();
#define SIGV(id, ...) static_assert((__VA_ARGS__), "SIG " #id)

// SIG-TABLE-BEGIN
// ---- noexcept: observers std::basic_string declares noexcept
SIGV(nx_data_const, noexcept(c().data()));
SIGV(nx_data_mut, noexcept(m().data()));
SIGV(nx_c_str, noexcept(c().c_str()));
SIGV(nx_begin, noexcept(m().begin()) && noexcept(c().begin()) && noexcept(c().cbegin()));
SIGV(nx_end, noexcept(m().end()) && noexcept(c().end()) && noexcept(c().cend()));
SIGV(nx_rbegin, noexcept(m().rbegin()) && noexcept(c().rbegin()) && noexcept(c().crbegin()));
SIGV(nx_rend, noexcept(m().rend()) && noexcept(c().rend()) && noexcept(c().crend()));
SIGV(nx_size, noexcept(c().size()) && noexcept(c().length()));
SIGV(nx_max_size, noexcept(c().max_size()));
SIGV(nx_empty, noexcept(c().empty()));
SIGV(nx_clear, noexcept(m().clear()));
SIGV(nx_swap_member, noexcept(m().swap(m())));
SIGV(nx_compare_self, noexcept(c().compare(c())));
SIGV(nx_compare_str, noexcept(c().compare(s())));
SIGV(nx_find_self, noexcept(c().find(c())) && noexcept(c().rfind(c())));
SIGV(nx_find_str, noexcept(c().find(s(), 0)) && noexcept(c().rfind(s(), 0)));
SIGV(nx_find_of_self, noexcept(c().find_first_of(c())) && noexcept(c().find_last_of(c())) && noexcept(c().find_first_not_of(c())) && noexcept(c().find_last_not_of(c())));
SIGV(nx_rel_self, noexcept(c() == c()) && noexcept(c() != c()) && noexcept(c() < c()) && noexcept(c() <= c()) && noexcept(c() > c()) && noexcept(c() >= c()));
SIGV(nx_rel_ptr, noexcept(c() == p()) && noexcept(p() == c()) && noexcept(c() < p()) && noexcept(p() < c()));
SIGV(nx_rel_str, noexcept(c() == s()) && noexcept(s() == c()) && noexcept(c() < s()) && noexcept(s() < c()));
// ---- the special members are the defaulted ones: no allocation, nothing can throw
SIGV(nx_copy_ctor, std::is_nothrow_copy_constructible<fs>::value);
SIGV(nx_move_ctor, std::is_nothrow_move_constructible<fs>::value);
SIGV(nx_copy_assign, std::is_nothrow_copy_assignable<fs>::value);
SIGV(nx_move_assign, std::is_nothrow_move_assignable<fs>::value);
SIGV(nx_dtor, std::is_nothrow_destructible<fs>::value);
SIGV(trivial_copy, std::is_trivially_copyable<fs>::value);
SIGV(trivial_dtor, std::is_trivially_destructible<fs>::value);
SIGV(standard_layout, std::is_standard_layout<fs>::value);
// ---- object layout promised by the storage options
SIGV(layout_strlen_is_n_plus_1_chars, !FS_STRLEN || sizeof(fs) == (N + 1) * sizeof(CT));
SIGV(layout_packed_is_n_plus_1_chars, !PACKED || sizeof(fs) == (N + 1) * sizeof(CT));
SIGV(layout_field_is_chars_plus_size, FS_STRLEN || PACKED || (sizeof(fs) >= (N + 1) * sizeof(CT) + sizeof(std::size_t) && sizeof(fs) <= (N + 1) * sizeof(CT) + 2 * sizeof(std::size_t)));
SIGV(layout_align, alignof(fs) <= alignof(std::size_t) && (FS_STRLEN || !PACKED || alignof(fs) == alignof(CT)));
SIGV(layout_buffer_first, FS_STRLEN ? true : true);
// ---- constants
SIGV(npos_constant, fs::npos == sstr::npos);
SIGV(policy_type, std::is_same<fs::error_policy, typename std::conditional<FS_THROW, xtl::string_policy::throwing_error<N>, xtl::string_policy::silent_error<N>>::type>::value);
SIGV(string_type, std::is_same<fs::string_type, sstr>::value);
SIGV(initializer_type, std::is_same<fs::initializer_type, std::initializer_list<CT>>::value);
SIGV(storage_flags, xtl::buffer == 1 && xtl::pointer == 2 && xtl::store_size == 4 && xtl::is_const == 8);
// ---- further character types instantiate (packed: N <= 255; the packed length of a signed char must be read unsigned)
SIGV(ct_signed_char, sizeof(xtl::xbasic_fixed_string<signed char, 200>) == 201);
SIGV(ct_unsigned_char, sizeof(xtl::xbasic_fixed_string<unsigned char, 255>) == 256);
SIGV(ct_unsigned_char_field, sizeof(xtl::xbasic_fixed_string<unsigned char, 256>) > 257);
SIGV(ct_char16_field, sizeof(xtl::xbasic_fixed_string<char16_t, 65536>) > 65537 * 2 && sizeof(xtl::xbasic_fixed_string<char16_t, 65535>) == 65536 * 2);
SIGV(alias_xfixed_string, std::is_same<xtl::xfixed_string<7>, xtl::xbasic_fixed_string<char, 7>>::value);
SIGV(alias_xwfixed_string, std::is_same<xtl::xwfixed_string<7>, xtl::xbasic_fixed_string<wchar_t, 7>>::value);
SIGV(alias_xu16fixed_string, std::is_same<xtl::xu16fixed_string<7>, xtl::xbasic_fixed_string<char16_t, 7>>::value);
SIGV(alias_xu32fixed_string, std::is_same<xtl::xu32fixed_string<7>, xtl::xbasic_fixed_string<char32_t, 7>>::value);
SIGV(default_template_arguments, std::is_same<xtl::xbasic_fixed_string<char>, xtl::xbasic_fixed_string<char, 55, xtl::buffer | xtl::store_size, xtl::string_policy::silent_error, std::char_traits<char>>>::value);
// SIG-TABLE-END
int main() { return 0; }

// C01: "every character type the layout supports" includes the 4-byte wchar_t / char32_t with the
// default storage (buffer | store_size).  Whether this translation unit compiles is the observation.
#include <xtl/xbasic_fixed_string.hpp>
int main()
{
    xtl::xbasic_fixed_string<wchar_t, 16> w(L"wide");
    xtl::xbasic_fixed_string<char32_t, 16> u(U"utf32");
    xtl::xwfixed_string<300> big;
    return (w.size() == 4 && u.size() == 5 && big.empty()) ? 0 : 1;
}

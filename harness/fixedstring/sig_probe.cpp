// C01 signature table of xtl::xbasic_fixed_string ("behaves as a std::basic_string bounded by its capacity").
//
// Compile-only translation unit.  Every table row is ONE source line and ONE self-contained static_assert
// stating that a call expression exists and has the type std::basic_string<CT> declares for the same call
// (with basic_string replaced by the fixed string).  A changed return type fails the static_assert of that
// row; a removed overload makes the decltype of that row ill-formed.  Either way the compiler reports
//        sig_probe.cpp:<LINE>:
// and <LINE> identifies the row (first macro argument = row id, also repeated in the message "SIG <id>").
//
//   g++ -std=c++14 -fsyntax-only -fmax-errors=0 -ftrack-macro-expansion=0 -I<xtl include>
//       -DFS_CT=char -DFS_N=3 -DFS_STRLEN=0 -DFS_THROW=1 -DFS_IO=1 sig_probe.cpp
//
// -ftrack-macro-expansion=0 makes gcc attribute every diagnostic to the line of the macro INVOCATION.
// Without it a failing static_assert is attributed to the #define line of SIG* below and the row line only
// appears in the following "note: in expansion of macro" line (still `sig_probe.cpp:<LINE>:`).
//
// Same configuration macros as driver.cpp (no FS_REF here).  Nothing is asserted about noexcept, about
// values, or about anything the standard leaves to the implementation.
#ifndef FS_CT
#define FS_CT char
#endif
#ifndef FS_N
#define FS_N 3
#endif
#ifndef FS_STRLEN
#define FS_STRLEN 0
#endif
#ifndef FS_THROW
#define FS_THROW 1
#endif
#ifndef FS_IO       // 1: stream operators are probed (they exist for char only)
#define FS_IO 0
#endif

#include <xtl/xbasic_fixed_string.hpp>
#include <cstddef>
#include <functional>
#include <initializer_list>
#include <istream>
#include <iterator>
#include <list>
#include <ostream>
#include <string>
#include <type_traits>
#include <utility>
#include <vector>

using CT = FS_CT;
static constexpr std::size_t N = FS_N;
#if FS_THROW
using fs = xtl::xbasic_fixed_string<CT, N, FS_STRLEN ? xtl::buffer : (xtl::buffer | xtl::store_size), xtl::string_policy::throwing_error>;
#else
using fs = xtl::xbasic_fixed_string<CT, N, FS_STRLEN ? xtl::buffer : (xtl::buffer | xtl::store_size), xtl::string_policy::silent_error>;
#endif
using size_type = std::size_t;
using sstr = std::basic_string<CT>;
using IL = std::initializer_list<CT>;
using VI = std::vector<CT>::const_iterator;     // random access InputIt
using LI = std::list<CT>::const_iterator;       // bidirectional InputIt
using PI = const CT*;                           // pointer InputIt
using OS = std::basic_ostream<CT>;
using IS = std::basic_istream<CT>;

// Argument generators: declared, never defined, only named inside decltype.
fs& m();                // non-const lvalue
const fs& c();          // const lvalue
fs&& r();               // rvalue
size_type z();          // index / count / position
CT ch();                // one character
const CT* p();          // character array / C string
CT* d();                // destination buffer
const sstr& s();        // std::basic_string
IL il();
VI vi();
LI li();
OS& os();
IS& is();
IS&& isr();
template <class T> T mk();     // mk<fs::const_iterator>() etc.: the member type is named on the row itself

// SIG  : decltype(call) is exactly TYPE          SIGC : decltype(call) converts implicitly to TYPE
// SIGT : TYPE1 is exactly TYPE2                  SIGV : a compile-time boolean
#define SIG(id, expr, ...) static_assert(std::is_same<decltype(expr), __VA_ARGS__>::value, "SIG " #id)
#define SIGC(id, expr, ...) static_assert(std::is_convertible<decltype(expr), __VA_ARGS__>::value, "SIG " #id)
#define SIGT(id, type, ...) static_assert(std::is_same<type, __VA_ARGS__>::value, "SIG " #id)
#define SIGV(id, ...) static_assert((__VA_ARGS__), "SIG " #id)
#define CI mk<fs::const_iterator>()
#define IT mk<fs::iterator>()

// SIG-TABLE-BEGIN
// ---- member types
SIGT(type_traits_type, fs::traits_type, std::char_traits<CT>);
SIGT(type_value_type, fs::value_type, CT);
SIGT(type_size_type, fs::size_type, std::size_t);
SIGT(type_difference_type, fs::difference_type, std::ptrdiff_t);
SIGT(type_reference, fs::reference, CT&);
SIGT(type_const_reference, fs::const_reference, const CT&);
SIGT(type_pointer, fs::pointer, CT*);
SIGT(type_const_pointer, fs::const_pointer, const CT*);
SIGT(type_iterator_category, std::iterator_traits<fs::iterator>::iterator_category, std::random_access_iterator_tag);
SIGT(type_iterator_value, std::iterator_traits<fs::iterator>::value_type, CT);
SIGT(type_iterator_reference, std::iterator_traits<fs::iterator>::reference, CT&);
SIGT(type_iterator_difference, std::iterator_traits<fs::iterator>::difference_type, std::ptrdiff_t);
SIGT(type_const_iterator_category, std::iterator_traits<fs::const_iterator>::iterator_category, std::random_access_iterator_tag);
SIGT(type_const_iterator_value, std::iterator_traits<fs::const_iterator>::value_type, CT);
SIGT(type_const_iterator_reference, std::iterator_traits<fs::const_iterator>::reference, const CT&);
SIGT(type_const_iterator_difference, std::iterator_traits<fs::const_iterator>::difference_type, std::ptrdiff_t);
SIGV(type_iterator_to_const_iterator, std::is_convertible<fs::iterator, fs::const_iterator>::value);
SIGT(type_reverse_iterator, fs::reverse_iterator, std::reverse_iterator<fs::iterator>);
SIGT(type_const_reverse_iterator, fs::const_reverse_iterator, std::reverse_iterator<fs::const_iterator>);
SIGT(npos_type, decltype(fs::npos), const std::size_t);
SIGV(npos_value, fs::npos == static_cast<std::size_t>(-1));
// ---- construction, destruction, conversion
SIGV(ctor_default, std::is_default_constructible<fs>::value);
SIGV(ctor_cnt_ch, std::is_constructible<fs, size_type, CT>::value);
SIGV(ctor_fs_pos_cnt, std::is_constructible<fs, const fs&, size_type, size_type>::value);
SIGV(ctor_fs_pos, std::is_constructible<fs, const fs&, size_type>::value);
SIGV(ctor_str, std::is_constructible<fs, const sstr&>::value);
SIGV(ctor_str_pos_cnt, std::is_constructible<fs, const sstr&, size_type, size_type>::value);
SIGV(ctor_str_pos, std::is_constructible<fs, const sstr&, size_type>::value);
SIGV(ctor_ptr_cnt, std::is_constructible<fs, const CT*, size_type>::value);
SIGV(ctor_ptr, std::is_constructible<fs, const CT*>::value);
SIGV(ctor_ptr_implicit, std::is_convertible<const CT*, fs>::value);
SIGV(ctor_il, std::is_constructible<fs, IL>::value);
SIGV(ctor_il_implicit, std::is_convertible<IL, fs>::value);
SIGV(ctor_range_vec, std::is_constructible<fs, VI, VI>::value);
SIGV(ctor_range_list, std::is_constructible<fs, LI, LI>::value);
SIGV(ctor_range_ptr, std::is_constructible<fs, PI, PI>::value);
SIGV(ctor_copy, std::is_copy_constructible<fs>::value);
SIGV(ctor_move, std::is_move_constructible<fs>::value);
SIGV(dtor, std::is_destructible<fs>::value);
SIG(conv_string_type, c().operator sstr(), sstr);
SIGV(conv_string_type_implicit, std::is_convertible<const fs&, sstr>::value);
// ---- operator=
SIG(opassign_copy, m() = c(), fs&);
SIG(opassign_move, m() = r(), fs&);
SIG(opassign_ptr, m() = p(), fs&);
SIG(opassign_ch, m() = ch(), fs&);
SIG(opassign_il, m() = il(), fs&);
SIG(opassign_str, m() = s(), fs&);
// ---- assign
SIG(assign_cnt_ch, m().assign(z(), ch()), fs&);
SIG(assign_fs_pos_cnt, m().assign(c(), z(), z()), fs&);
SIG(assign_fs_pos, m().assign(c(), z()), fs&);
SIG(assign_ptr_cnt, m().assign(p(), z()), fs&);
SIG(assign_ptr, m().assign(p()), fs&);
SIG(assign_il, m().assign(il()), fs&);
SIG(assign_range_vec, m().assign(vi(), vi()), fs&);
SIG(assign_range_list, m().assign(li(), li()), fs&);
SIG(assign_range_ptr, m().assign(p(), p()), fs&);
SIG(assign_fs, m().assign(c()), fs&);
SIG(assign_fs_move, m().assign(r()), fs&);
SIG(assign_str, m().assign(s()), fs&);
SIG(assign_str_pos_cnt, m().assign(s(), z(), z()), fs&);
SIG(assign_str_pos, m().assign(s(), z()), fs&);
// ---- element access
SIG(at_mut, m().at(z()), CT&);
SIG(at_const, c().at(z()), const CT&);
SIG(index_mut, m()[z()], CT&);
SIG(index_const, c()[z()], const CT&);
SIG(front_mut, m().front(), CT&);
SIG(front_const, c().front(), const CT&);
SIG(back_mut, m().back(), CT&);
SIG(back_const, c().back(), const CT&);
SIGC(data_mut, m().data(), const CT*);
SIG(data_const, c().data(), const CT*);
SIG(c_str_const, c().c_str(), const CT*);
SIG(c_str_mut, m().c_str(), const CT*);
// ---- iterators
SIG(begin_mut, m().begin(), fs::iterator);
SIG(end_mut, m().end(), fs::iterator);
SIG(begin_const, c().begin(), fs::const_iterator);
SIG(end_const, c().end(), fs::const_iterator);
SIG(cbegin_const, c().cbegin(), fs::const_iterator);
SIG(cend_const, c().cend(), fs::const_iterator);
SIG(cbegin_mut, m().cbegin(), fs::const_iterator);
SIG(cend_mut, m().cend(), fs::const_iterator);
SIG(rbegin_mut, m().rbegin(), fs::reverse_iterator);
SIG(rend_mut, m().rend(), fs::reverse_iterator);
SIG(rbegin_const, c().rbegin(), fs::const_reverse_iterator);
SIG(rend_const, c().rend(), fs::const_reverse_iterator);
SIG(crbegin_const, c().crbegin(), fs::const_reverse_iterator);
SIG(crend_const, c().crend(), fs::const_reverse_iterator);
SIG(crbegin_mut, m().crbegin(), fs::const_reverse_iterator);
SIG(crend_mut, m().crend(), fs::const_reverse_iterator);
// ---- capacity
SIG(empty_const, c().empty(), bool);
SIG(size_const, c().size(), std::size_t);
SIG(length_const, c().length(), std::size_t);
SIG(max_size_const, c().max_size(), std::size_t);
// ---- simple modifiers and operations
SIG(clear, m().clear(), void);
SIG(push_back_ch, m().push_back(ch()), void);
SIG(pop_back, m().pop_back(), void);
SIG(substr_pos_cnt, c().substr(z(), z()), fs);
SIG(substr_pos, c().substr(z()), fs);
SIG(substr_none, c().substr(), fs);
SIG(copy_dest_cnt_pos, c().copy(d(), z(), z()), std::size_t);
SIG(copy_dest_cnt, c().copy(d(), z()), std::size_t);
SIG(resize_cnt, m().resize(z()), void);
SIG(resize_cnt_ch, m().resize(z(), ch()), void);
SIG(swap_member, m().swap(m()), void);
SIG(swap_free_qualified, xtl::swap(m(), m()), void);
SIG(swap_free_adl, swap(m(), m()), void);
// ---- insert
SIG(insert_idx_cnt_ch, m().insert(z(), z(), ch()), fs&);
SIG(insert_idx_ptr, m().insert(z(), p()), fs&);
SIG(insert_idx_ptr_cnt, m().insert(z(), p(), z()), fs&);
SIG(insert_idx_fs, m().insert(z(), c()), fs&);
SIG(insert_idx_fs_pos_cnt, m().insert(z(), c(), z(), z()), fs&);
SIG(insert_idx_fs_pos, m().insert(z(), c(), z()), fs&);
SIG(insert_idx_str, m().insert(z(), s()), fs&);
SIG(insert_idx_str_pos_cnt, m().insert(z(), s(), z(), z()), fs&);
SIG(insert_idx_str_pos, m().insert(z(), s(), z()), fs&);
SIG(insert_it_ch, m().insert(CI, ch()), fs::iterator);
SIG(insert_it_cnt_ch, m().insert(CI, z(), ch()), fs::iterator);
SIG(insert_it_il, m().insert(CI, il()), fs::iterator);
SIG(insert_it_range_vec, m().insert(CI, vi(), vi()), fs::iterator);
SIG(insert_it_range_list, m().insert(CI, li(), li()), fs::iterator);
SIG(insert_it_range_ptr, m().insert(CI, p(), p()), fs::iterator);
SIG(insert_mutit_ch, m().insert(IT, ch()), fs::iterator);
SIG(insert_mutit_cnt_ch, m().insert(IT, z(), ch()), fs::iterator);
// ---- erase
SIG(erase_idx_cnt, m().erase(z(), z()), fs&);
SIG(erase_idx, m().erase(z()), fs&);
SIG(erase_none, m().erase(), fs&);
SIG(erase_it, m().erase(CI), fs::iterator);
SIG(erase_it_it, m().erase(CI, CI), fs::iterator);
SIG(erase_mutit, m().erase(IT), fs::iterator);
SIG(erase_mutit_mutit, m().erase(IT, IT), fs::iterator);
// ---- append
SIG(append_cnt_ch, m().append(z(), ch()), fs&);
SIG(append_fs, m().append(c()), fs&);
SIG(append_fs_pos_cnt, m().append(c(), z(), z()), fs&);
SIG(append_fs_pos, m().append(c(), z()), fs&);
SIG(append_str, m().append(s()), fs&);
SIG(append_str_pos_cnt, m().append(s(), z(), z()), fs&);
SIG(append_str_pos, m().append(s(), z()), fs&);
SIG(append_ptr_cnt, m().append(p(), z()), fs&);
SIG(append_ptr, m().append(p()), fs&);
SIG(append_il, m().append(il()), fs&);
SIG(append_range_vec, m().append(vi(), vi()), fs&);
SIG(append_range_list, m().append(li(), li()), fs&);
SIG(append_range_ptr, m().append(p(), p()), fs&);
// ---- operator+=
SIG(pluseq_fs, m() += c(), fs&);
SIG(pluseq_str, m() += s(), fs&);
SIG(pluseq_ch, m() += ch(), fs&);
SIG(pluseq_ptr, m() += p(), fs&);
SIG(pluseq_il, m() += il(), fs&);
// ---- compare
SIG(compare_fs, c().compare(c()), int);
SIG(compare_pos_cnt_fs, c().compare(z(), z(), c()), int);
SIG(compare_pos_cnt_fs_pos_cnt, c().compare(z(), z(), c(), z(), z()), int);
SIG(compare_pos_cnt_fs_pos, c().compare(z(), z(), c(), z()), int);
SIG(compare_str, c().compare(s()), int);
SIG(compare_pos_cnt_str, c().compare(z(), z(), s()), int);
SIG(compare_pos_cnt_str_pos_cnt, c().compare(z(), z(), s(), z(), z()), int);
SIG(compare_pos_cnt_str_pos, c().compare(z(), z(), s(), z()), int);
SIG(compare_ptr, c().compare(p()), int);
SIG(compare_pos_cnt_ptr, c().compare(z(), z(), p()), int);
SIG(compare_pos_cnt_ptr_cnt, c().compare(z(), z(), p(), z()), int);
// ---- replace
SIG(replace_pos_cnt_fs, m().replace(z(), z(), c()), fs&);
SIG(replace_it_it_fs, m().replace(CI, CI, c()), fs&);
SIG(replace_pos_cnt_fs_pos_cnt, m().replace(z(), z(), c(), z(), z()), fs&);
SIG(replace_pos_cnt_fs_pos, m().replace(z(), z(), c(), z()), fs&);
SIG(replace_pos_cnt_str, m().replace(z(), z(), s()), fs&);
SIG(replace_it_it_str, m().replace(CI, CI, s()), fs&);
SIG(replace_pos_cnt_str_pos_cnt, m().replace(z(), z(), s(), z(), z()), fs&);
SIG(replace_pos_cnt_str_pos, m().replace(z(), z(), s(), z()), fs&);
SIG(replace_pos_cnt_ptr_cnt, m().replace(z(), z(), p(), z()), fs&);
SIG(replace_it_it_ptr_cnt, m().replace(CI, CI, p(), z()), fs&);
SIG(replace_pos_cnt_ptr, m().replace(z(), z(), p()), fs&);
SIG(replace_it_it_ptr, m().replace(CI, CI, p()), fs&);
SIG(replace_pos_cnt_cnt_ch, m().replace(z(), z(), z(), ch()), fs&);
SIG(replace_it_it_cnt_ch, m().replace(CI, CI, z(), ch()), fs&);
SIG(replace_it_it_il, m().replace(CI, CI, il()), fs&);
SIG(replace_it_it_range_vec, m().replace(CI, CI, vi(), vi()), fs&);
SIG(replace_it_it_range_list, m().replace(CI, CI, li(), li()), fs&);
SIG(replace_it_it_range_ptr, m().replace(CI, CI, p(), p()), fs&);
SIG(replace_mutit_mutit_fs, m().replace(IT, IT, c()), fs&);
// ---- find
SIG(find_fs_pos, c().find(c(), z()), std::size_t);
SIG(find_fs, c().find(c()), std::size_t);
SIG(find_str_pos, c().find(s(), z()), std::size_t);
SIG(find_str, c().find(s()), std::size_t);
SIG(find_ptr_pos_cnt, c().find(p(), z(), z()), std::size_t);
SIG(find_ptr_pos, c().find(p(), z()), std::size_t);
SIG(find_ptr, c().find(p()), std::size_t);
SIG(find_ch_pos, c().find(ch(), z()), std::size_t);
SIG(find_ch, c().find(ch()), std::size_t);
// ---- rfind
SIG(rfind_fs_pos, c().rfind(c(), z()), std::size_t);
SIG(rfind_fs, c().rfind(c()), std::size_t);
SIG(rfind_str_pos, c().rfind(s(), z()), std::size_t);
SIG(rfind_str, c().rfind(s()), std::size_t);
SIG(rfind_ptr_pos_cnt, c().rfind(p(), z(), z()), std::size_t);
SIG(rfind_ptr_pos, c().rfind(p(), z()), std::size_t);
SIG(rfind_ptr, c().rfind(p()), std::size_t);
SIG(rfind_ch_pos, c().rfind(ch(), z()), std::size_t);
SIG(rfind_ch, c().rfind(ch()), std::size_t);
// ---- find_first_of
SIG(find_first_of_fs_pos, c().find_first_of(c(), z()), std::size_t);
SIG(find_first_of_fs, c().find_first_of(c()), std::size_t);
SIG(find_first_of_str_pos, c().find_first_of(s(), z()), std::size_t);
SIG(find_first_of_str, c().find_first_of(s()), std::size_t);
SIG(find_first_of_ptr_pos_cnt, c().find_first_of(p(), z(), z()), std::size_t);
SIG(find_first_of_ptr_pos, c().find_first_of(p(), z()), std::size_t);
SIG(find_first_of_ptr, c().find_first_of(p()), std::size_t);
SIG(find_first_of_ch_pos, c().find_first_of(ch(), z()), std::size_t);
SIG(find_first_of_ch, c().find_first_of(ch()), std::size_t);
// ---- find_first_not_of
SIG(find_first_not_of_fs_pos, c().find_first_not_of(c(), z()), std::size_t);
SIG(find_first_not_of_fs, c().find_first_not_of(c()), std::size_t);
SIG(find_first_not_of_str_pos, c().find_first_not_of(s(), z()), std::size_t);
SIG(find_first_not_of_str, c().find_first_not_of(s()), std::size_t);
SIG(find_first_not_of_ptr_pos_cnt, c().find_first_not_of(p(), z(), z()), std::size_t);
SIG(find_first_not_of_ptr_pos, c().find_first_not_of(p(), z()), std::size_t);
SIG(find_first_not_of_ptr, c().find_first_not_of(p()), std::size_t);
SIG(find_first_not_of_ch_pos, c().find_first_not_of(ch(), z()), std::size_t);
SIG(find_first_not_of_ch, c().find_first_not_of(ch()), std::size_t);
// ---- find_last_of
SIG(find_last_of_fs_pos, c().find_last_of(c(), z()), std::size_t);
SIG(find_last_of_fs, c().find_last_of(c()), std::size_t);
SIG(find_last_of_str_pos, c().find_last_of(s(), z()), std::size_t);
SIG(find_last_of_str, c().find_last_of(s()), std::size_t);
SIG(find_last_of_ptr_pos_cnt, c().find_last_of(p(), z(), z()), std::size_t);
SIG(find_last_of_ptr_pos, c().find_last_of(p(), z()), std::size_t);
SIG(find_last_of_ptr, c().find_last_of(p()), std::size_t);
SIG(find_last_of_ch_pos, c().find_last_of(ch(), z()), std::size_t);
SIG(find_last_of_ch, c().find_last_of(ch()), std::size_t);
// ---- find_last_not_of
SIG(find_last_not_of_fs_pos, c().find_last_not_of(c(), z()), std::size_t);
SIG(find_last_not_of_fs, c().find_last_not_of(c()), std::size_t);
SIG(find_last_not_of_str_pos, c().find_last_not_of(s(), z()), std::size_t);
SIG(find_last_not_of_str, c().find_last_not_of(s()), std::size_t);
SIG(find_last_not_of_ptr_pos_cnt, c().find_last_not_of(p(), z(), z()), std::size_t);
SIG(find_last_not_of_ptr_pos, c().find_last_not_of(p(), z()), std::size_t);
SIG(find_last_not_of_ptr, c().find_last_not_of(p()), std::size_t);
SIG(find_last_not_of_ch_pos, c().find_last_not_of(ch(), z()), std::size_t);
SIG(find_last_not_of_ch, c().find_last_not_of(ch()), std::size_t);
// ---- operator+ (l = lvalue, r = rvalue)
SIG(plus_lfs_lfs, c() + c(), fs);
SIG(plus_lfs_ptr, c() + p(), fs);
SIG(plus_lfs_ch, c() + ch(), fs);
SIG(plus_ptr_lfs, p() + c(), fs);
SIG(plus_ch_lfs, ch() + c(), fs);
SIG(plus_rfs_lfs, r() + c(), fs);
SIG(plus_lfs_rfs, c() + r(), fs);
SIG(plus_rfs_rfs, r() + r(), fs);
SIG(plus_rfs_ptr, r() + p(), fs);
SIG(plus_rfs_ch, r() + ch(), fs);
SIG(plus_ptr_rfs, p() + r(), fs);
SIG(plus_ch_rfs, ch() + r(), fs);
// ---- relational operators
SIG(eq_fs_fs, c() == c(), bool);
SIG(eq_fs_ptr, c() == p(), bool);
SIG(eq_ptr_fs, p() == c(), bool);
SIG(eq_fs_str, c() == s(), bool);
SIG(eq_str_fs, s() == c(), bool);
SIG(ne_fs_fs, c() != c(), bool);
SIG(ne_fs_ptr, c() != p(), bool);
SIG(ne_ptr_fs, p() != c(), bool);
SIG(ne_fs_str, c() != s(), bool);
SIG(ne_str_fs, s() != c(), bool);
SIG(lt_fs_fs, c() < c(), bool);
SIG(lt_fs_ptr, c() < p(), bool);
SIG(lt_ptr_fs, p() < c(), bool);
SIG(lt_fs_str, c() < s(), bool);
SIG(lt_str_fs, s() < c(), bool);
SIG(le_fs_fs, c() <= c(), bool);
SIG(le_fs_ptr, c() <= p(), bool);
SIG(le_ptr_fs, p() <= c(), bool);
SIG(le_fs_str, c() <= s(), bool);
SIG(le_str_fs, s() <= c(), bool);
SIG(gt_fs_fs, c() > c(), bool);
SIG(gt_fs_ptr, c() > p(), bool);
SIG(gt_ptr_fs, p() > c(), bool);
SIG(gt_fs_str, c() > s(), bool);
SIG(gt_str_fs, s() > c(), bool);
SIG(ge_fs_fs, c() >= c(), bool);
SIG(ge_fs_ptr, c() >= p(), bool);
SIG(ge_ptr_fs, p() >= c(), bool);
SIG(ge_fs_str, c() >= s(), bool);
SIG(ge_str_fs, s() >= c(), bool);
// ---- std::hash
SIG(hash_call, std::hash<fs>()(c()), std::size_t);
SIGT(hash_result_type, std::hash<fs>::result_type, std::size_t);
SIGT(hash_argument_type, std::hash<fs>::argument_type, fs);
// ---- streams (char only)
#if FS_IO
SIG(stream_out, os() << c(), OS&);
SIG(stream_in, is() >> m(), IS&);
SIG(getline_lvalue_delim, getline(is(), m(), ch()), IS&);
SIG(getline_rvalue_delim, getline(isr(), m(), ch()), IS&);
SIG(getline_lvalue, getline(is(), m()), IS&);
SIG(getline_rvalue, getline(isr(), m()), IS&);
#endif
// SIG-TABLE-END

// C13 interface probe: the two functions called the way the property statement and the upstream test
// (test/test_xbase64.cpp) call them.  Compiled only when the conformance driver does not build against the
// include tree: if this does not compile either, the property's functions cannot be called as stated (a
// VIOLATION, this file is the replay); if it does, the driver is at fault (machinery error).
#include "xtl/xbase64.hpp"
#include <string>

int main()
{
    std::string s("a\0b\xff", 4);
    std::string expected = "YQ==";
    bool ok = xtl::base64decode(xtl::base64encode(s)) == s;
    ok = (expected == xtl::base64encode(std::string("a"))) && ok;
    ok = (std::string("a") == xtl::base64decode(expected)) && ok;
    return ok ? 0 : 1;
}

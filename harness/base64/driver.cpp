// C13 conformance driver: executes xtl::base64encode / base64decode on the inputs of a script
// (ndjson on stdin) and prints what was returned.  No oracle here: TLC evaluates Base64.tla on
// every recorded case (specs/Base64Check.tla).
//
//   {"op":"E","c":[[b0,b1,..],..]}  ->  {"op":"E","c":[[input, encode(input), decode(encode(input))],..]}
//   {"op":"D","c":[[c0,c1,..],..]}  ->  {"op":"D","c":[[text, decode(text)],..]}
//
// Bytes/characters are written as their unsigned values 0..255.  Every argument string is a
// heap-allocated std::string built from an exact-size heap copy of the input (so that a read
// outside the argument is an AddressSanitizer report); the translation unit is compiled with
// -fsanitize=address,bounds -fno-sanitize-recover=bounds, so an index outside the decode table
// ends the process; the output then stops before that line (the runner treats it as a Crash event).
#include "vjson.hpp"
#include "xtl/xbase64.hpp"

#include <iostream>
#include <memory>
#include <string>
#include <vector>

static std::string ints_of(const std::string& s)
{
    std::string b = "[";
    for (std::size_t i = 0; i < s.size(); ++i)
    {
        if (i) b += ',';
        b += std::to_string((int)(unsigned char)s[i]);
    }
    return b + "]";
}

static std::unique_ptr<std::string> make_arg(const vj::value& arr)
{
    std::size_t n = arr.a.size();
    std::unique_ptr<char[]> raw(new char[n ? n : 1]);     // exact-size heap copy
    for (std::size_t i = 0; i < n; ++i) raw[i] = (char)(unsigned char)arr.a[i].i;
    return std::unique_ptr<std::string>(new std::string(raw.get(), n));
}

int main()
{
    vj::install_crash_handlers();
    std::string line;
    while (std::getline(std::cin, line))
    {
        if (line.empty()) continue;
        vj::value ev = vj::parse(line);
        const std::string& op = ev.str("op");
        std::string o = "{\"op\":\"" + op + "\",\"c\":[";
        bool first = true;
        for (const vj::value& c : ev.at("c").a)
        {
            if (!first) o += ',';
            first = false;
            std::unique_ptr<std::string> arg = make_arg(c);
            if (op == "E")
            {
                std::unique_ptr<std::string> enc(new std::string(xtl::base64encode(*arg)));
                std::string dec = xtl::base64decode(*enc);
                o += "[" + ints_of(*arg) + "," + ints_of(*enc) + "," + ints_of(dec) + "]";
            }
            else if (op == "D")
            {
                std::string dec = xtl::base64decode(*arg);
                o += "[" + ints_of(*arg) + "," + ints_of(dec) + "]";
            }
            else
            {
                std::fprintf(stderr, "script: unknown op %s\n", op.c_str());
                return 3;
            }
        }
        o += "]}\n";
        std::fputs(o.c_str(), stdout);
        std::fflush(stdout);
    }
    return 0;
}

// C13 conformance driver: executes xtl::base64encode / base64decode on the inputs of a script
// (ndjson on stdin) and prints what was returned.  No oracle here: TLC evaluates Base64.tla on
// every recorded case (specs/Base64Check.tla).
//
//   {"op":"E","c":[[b0,b1,..],..]}  ->  {"op":"E","c":[[input, encode(input), decode(encode(input))],..]}
//   {"op":"D","c":[[c0,c1,..],..]}  ->  {"op":"D","c":[[text, decode(text)],..]}
//   {"op":"ES","pos":p,"c":[[b..],..]}  encoder sweep (round 3): each case is an input of length 1..3 whose byte at position p
//        (1-based) is a placeholder; the harness runs base64encode + base64decode(base64encode) for ALL 256 values of that byte
//        ->  {"op":"ES","pos":p,"c":[[input, [elen,p1,p2,dlen,dp, elen,p1,p2,dlen,dp, ...256 times]],..]}
//        elen/dlen: lengths of the two results; p1 = e[0]*256+e[1], p2 = e[2]*256+e[3] (missing characters count as 0; elen > 4:
//        p1 = p2 = -1); dp = the decoded bytes as a base-256 number, most significant first (dlen > 3: -1)
//   {"op":"DS","pos":p,"c":[[c..],..]}  decoder sweep: text of length 1..5 with the character at position p swept over 0..255;
//        the 256 results (dlen * 2^24 + decoded bytes as a base-256 number; dlen > 3: -1) are printed run-length encoded
//        ->  {"op":"DS","pos":p,"c":[[text, [[lo,hi,v],..]],..]}
//   {"op":"R","c":[[c0,..],..]}   (round 4) ->  [[text, d = decode(text), encode(d)],..]
//   {"op":"X","c":[[[a..],[b..]],..]}  (round 4) ->  [[a, b, decode(encode(a) + encode(b)), encode(a + b), encode(a)],..]
//        (the arguments of R and X are enumerated by TLC: specs/Base64Gen.tla)
//   "arg":1 on a script line (round 3): every argument string is built with more capacity than size (reserve, then assign -
//        the state of a string that was longer before); the slack behind the terminator is poisoned under AddressSanitizer
//   (any further key of a script line, e.g. "bld", is ignored)
//
// Bytes/characters are written as their unsigned values 0..255.  Every argument string is a
// heap-allocated std::string built from an exact-size heap copy of the input (so that a read
// outside the argument is an AddressSanitizer report: arguments of 16 bytes and more live in an
// exact-size heap block, shorter ones in the small-string buffer of the heap-allocated string
// object, whose unused tail behind the terminator is poisoned by hand while the call runs); the
// translation unit is compiled with -fsanitize=address,bounds -fno-sanitize-recover=bounds, so an
// index outside the decode table ends the process; the output then stops before that line (the
// runner treats it as a Crash event).
//
// Only the public interface is used, the way the upstream test uses it: the functions are called with
// a std::string lvalue and the results are only iterated (no assumption on the exact return type).
// A call that does not return is ended by a per-line CPU/wall-clock watchdog (Crash event).
#include "vjson.hpp"
#include "xtl/xbase64.hpp"

#include <iostream>
#include <memory>
#include <string>
#include <vector>
#include <sys/time.h>

#if defined(__SANITIZE_ADDRESS__)
#  define VERIF_ASAN 1
#elif defined(__has_feature)
#  if __has_feature(address_sanitizer)
#    define VERIF_ASAN 1
#  endif
#endif
#ifdef VERIF_ASAN
#  include <sanitizer/asan_interface.h>
#endif

// ---- watchdog: a script line needs microseconds; 3 s of CPU time or 90 s of wall-clock time mean "does not return"
static void on_watchdog(int sig)
{
    vj::crash_line(sig == SIGPROF ? "timeout: the call did not return within 3 s of CPU time" : "timeout: the call did not return within 90 s");
    _exit(0);
}
static void arm_watchdog()
{
    struct itimerval cpu = {{0, 0}, {3, 0}}, wall = {{0, 0}, {90, 0}};
    setitimer(ITIMER_PROF, &cpu, nullptr);
    setitimer(ITIMER_REAL, &wall, nullptr);
}

template <class S> static std::string ints_of(const S& s)
{
    std::string b = "[";
    bool first = true;
    for (auto ch : s)
    {
        if (!first) b += ',';
        first = false;
        b += std::to_string((int)(unsigned char)ch);
    }
    return b + "]";
}

template <class S> static std::string bytes_of(const S& s)
{
    std::string b;
    for (auto ch : s) b.push_back((char)ch);
    return b;
}

// the argument of a call: a heap-allocated std::string with nothing readable behind its terminator
struct arg_string
{
    std::unique_ptr<std::string> s;
    const char* poisoned = nullptr;
    std::size_t npoisoned = 0;

    arg_string(const char* p, std::size_t n, int mode = 0)
    {
        std::unique_ptr<char[]> raw(new char[n ? n : 1]);     // exact-size heap copy
        for (std::size_t i = 0; i < n; ++i) raw[i] = p[i];
        if (mode == 1)
        {
            // capacity > size: a heap buffer with slack behind the terminator (as after clear()/resize() of a longer string)
            s.reset(new std::string());
            s->reserve(n + 24 + (n % 7));
            s->assign(raw.get(), n);
#ifdef VERIF_ASAN
            const char* d = s->data();
            const char* obj = reinterpret_cast<const char*>(s.get());
            if (!(d >= obj && d < obj + sizeof(std::string)) && s->capacity() > n)
            {
                const char* from = d + n + 1;
                const char* to = d + s->capacity() + 1;
                to -= reinterpret_cast<std::uintptr_t>(to) % 8;          // whole shadow granules only
                if (from < to)
                {
                    poisoned = from;
                    npoisoned = std::size_t(to - from);
                    ASAN_POISON_MEMORY_REGION(poisoned, npoisoned);
                }
            }
#endif
            return;
        }
        s.reset(new std::string(raw.get(), n));
#ifdef VERIF_ASAN
        // small-string buffer inside the object: poison what lies behind the terminator, up to the end of the object
        const char* obj = reinterpret_cast<const char*>(s.get());
        const char* d = s->data();
        if (d >= obj && d < obj + sizeof(std::string))
        {
            const char* from = d + n + 1;
            const char* to = obj + sizeof(std::string);
            if (from < to && (reinterpret_cast<std::uintptr_t>(to) % 8) == 0)
            {
                poisoned = from;
                npoisoned = std::size_t(to - from);
                ASAN_POISON_MEMORY_REGION(poisoned, npoisoned);
            }
        }
#endif
    }
    ~arg_string()
    {
#ifdef VERIF_ASAN
        if (poisoned) ASAN_UNPOISON_MEMORY_REGION(poisoned, npoisoned);
#endif
    }
    arg_string(const arg_string&) = delete;
    arg_string& operator=(const arg_string&) = delete;
};

static std::string raw_of(const vj::value& arr)
{
    std::string r;
    for (const vj::value& x : arr.a) r.push_back((char)(unsigned char)x.i);
    return r;
}

int main()
{
    vj::install_crash_handlers();
    std::signal(SIGPROF, on_watchdog);
    std::signal(SIGALRM, on_watchdog);
    std::string line;
    while (std::getline(std::cin, line))
    {
        if (line.empty()) continue;
        vj::value ev = vj::parse(line);
        const std::string& op = ev.str("op");
        const int mode = ev.has("arg") ? int(ev.num("arg")) : 0;
        const bool sweep = op == "ES" || op == "DS";
        const int pos = sweep ? int(ev.num("pos")) : 0;
        std::string o = "{\"op\":\"" + op + "\"," + (sweep ? "\"pos\":" + std::to_string(pos) + "," : std::string()) + "\"c\":[";
        bool first = true;
        arm_watchdog();
        for (const vj::value& c : ev.at("c").a)
        {
            if (!first) o += ',';
            first = false;
            if (op == "X")
            {
                std::string ra = raw_of(c.a.at(0)), rb = raw_of(c.a.at(1));
                arg_string a(ra.data(), ra.size(), mode), b(rb.data(), rb.size(), mode);
                std::string ea = bytes_of(xtl::base64encode(*a.s));
                std::string eb = bytes_of(xtl::base64encode(*b.s));
                std::string cat = ea + eb;
                arg_string ca(cat.data(), cat.size(), mode);
                std::string dc = bytes_of(xtl::base64decode(*ca.s));
                std::string ab = ra + rb;
                arg_string aba(ab.data(), ab.size(), mode);
                std::string eab = bytes_of(xtl::base64encode(*aba.s));
                o += "[" + ints_of(ra) + "," + ints_of(rb) + "," + ints_of(dc) + "," + ints_of(eab) + "," + ints_of(ea) + "]";
                continue;
            }
            std::string raw = raw_of(c);
            if (sweep)
            {
                if (pos < 1 || std::size_t(pos) > raw.size() || raw.size() > (op == "ES" ? 3u : 5u)) { std::fprintf(stderr, "script: bad sweep\n"); return 3; }
                std::string shown = raw;
                shown[std::size_t(pos - 1)] = 0;
                o += "[" + ints_of(shown) + ",[";
                long long run_lo = 0, run_v = 0;
                for (int v = 0; v < 256; ++v)
                {
                    raw[std::size_t(pos - 1)] = (char)(unsigned char)v;
                    arg_string a(raw.data(), raw.size(), mode);
                    if (op == "ES")
                    {
                        std::string enc = bytes_of(xtl::base64encode(*a.s));
                        arg_string ea(enc.data(), enc.size(), mode);
                        std::string dec = bytes_of(xtl::base64decode(*ea.s));
                        long long p1 = -1, p2 = -1, dp = -1;
                        if (enc.size() <= 4)
                        {
                            unsigned char e[4] = {0, 0, 0, 0};
                            for (std::size_t i = 0; i < enc.size(); ++i) e[i] = (unsigned char)enc[i];
                            p1 = e[0] * 256 + e[1]; p2 = e[2] * 256 + e[3];
                        }
                        if (dec.size() <= 3) { dp = 0; for (char ch : dec) dp = dp * 256 + (unsigned char)ch; }
                        if (v) o += ',';
                        o += std::to_string(enc.size()) + "," + std::to_string(p1) + "," + std::to_string(p2) + "," + std::to_string(dec.size()) + "," + std::to_string(dp);
                    }
                    else
                    {
                        std::string dec = bytes_of(xtl::base64decode(*a.s));
                        long long r = -1;
                        if (dec.size() <= 3) { r = 0; for (char ch : dec) r = r * 256 + (unsigned char)ch; r += (long long)dec.size() * 16777216LL; }
                        if (v == 0) { run_lo = 0; run_v = r; }
                        else if (r != run_v)
                        {
                            o += (run_lo ? ",[" : "[") + std::to_string(run_lo) + "," + std::to_string(v - 1) + "," + std::to_string(run_v) + "]";
                            run_lo = v; run_v = r;
                        }
                    }
                }
                if (op == "DS") o += (run_lo ? ",[" : "[") + std::to_string(run_lo) + ",255," + std::to_string(run_v) + "]";
                o += "]]";
                continue;
            }
            arg_string arg(raw.data(), raw.size(), mode);
            if (op == "E")
            {
                std::string enc = bytes_of(xtl::base64encode(*arg.s));
                arg_string earg(enc.data(), enc.size(), mode);
                std::string dec = bytes_of(xtl::base64decode(*earg.s));
                o += "[" + ints_of(*arg.s) + "," + ints_of(enc) + "," + ints_of(dec) + "]";
            }
            else if (op == "D")
            {
                std::string dec = bytes_of(xtl::base64decode(*arg.s));
                o += "[" + ints_of(*arg.s) + "," + ints_of(dec) + "]";
            }
            else if (op == "R")
            {
                std::string dec = bytes_of(xtl::base64decode(*arg.s));
                arg_string darg(dec.data(), dec.size(), mode);
                std::string re = bytes_of(xtl::base64encode(*darg.s));
                o += "[" + ints_of(*arg.s) + "," + ints_of(dec) + "," + ints_of(re) + "]";
            }
            else
            {
                std::fprintf(stderr, "script: unknown op %s\n", op.c_str());
                return 3;
            }
        }
        o += "]}\n";
        std::fputs(o.c_str(), stdout);
        std::fflush(stdout);
    }
    struct itimerval off = {{0, 0}, {0, 0}};
    setitimer(ITIMER_PROF, &off, nullptr);
    setitimer(ITIMER_REAL, &off, nullptr);
    return 0;
}

// C05 conformance harness: interprets a script of variant operations (ndjson on stdin, one
// {"op":"Begin","c":<call>,"a":{..},"fuse":n} line per public call) on two real
// xtl::variant objects kept in aligned storage (construction and destruction are explicit
// calls).  The alternative set is chosen at compile time (-DC05_SET=n, see VariantLifetime.tla):
//   1 "mixed" <int, NT, TM, TM2>    2 "triv" <int, Tv1, Tv2, Tv3> (all trivially copyable)
//   3 "td"    <TD, NT, TM, int>     (alternative 0: throwing default constructor)
// It writes a bracketed trace:
//   Begin (echo) ; element events ECtor/EDtor/EAssign/EThrow emitted by the payload types ; End
// with the call's result and the full observable projection of both variants.
// A global countdown fuse makes the n-th throwing-capable element operation of the call throw.
// The harness contains no oracle: it executes and prints.
#include <xtl/xvariant.hpp>
#include <xtl/xclosure.hpp>
#include "vjson.hpp"
#include <iostream>
#include <map>
#include <string>
#include <vector>
#include <initializer_list>
#include <type_traits>
#include <utility>
#include <new>
#include <functional>
#include <csignal>
#include <sys/time.h>
#include <unistd.h>
#if defined(__SANITIZE_ADDRESS__)
#define C05_ASAN 1
#elif defined(__has_feature)
#if __has_feature(address_sanitizer)
#define C05_ASAN 1
#endif
#endif
#ifdef C05_ASAN
#include <sanitizer/common_interface_defs.h>
#endif

#ifndef C05_SET
#define C05_SET 1
#endif

namespace
{
    const int MOVED = -1;
    struct Injected {};

    int g_fuse = 0;          // countdown; 0 = never fires
    bool g_armed = false;    // only while the call under test runs
    bool g_tvthrow = false;  // this call asked for the throwing-capable trivial alternative ("tt":1 in the Begin line; random scripts of set triv)
    int g_next_id = 0;       // ids number tracked payload objects by construction order
    std::map<const void*, int> g_at;   // live tracked objects by address

    struct alignas(16) store_t { unsigned char b[128]; };
    store_t g_store[2];
    bool g_present[2] = {false, false};

    bool g_quiet = false;    // teardown between executions is not part of any trace
#define EMIT(...) do { if (!g_quiet) std::printf(__VA_ARGS__); } while (0)

    int home_of(const void* p)
    {
        const unsigned char* c = static_cast<const unsigned char*>(p);
        for (int k = 0; k < 2; ++k)
            if (c >= g_store[k].b && c < g_store[k].b + sizeof(g_store[k].b)) return k + 1;
        return 0;
    }
    int id_at(const void* p)
    {
        auto it = g_at.find(p);
        return it == g_at.end() ? -1 : it->second;
    }
    void may_throw(const char* at, int alt, const char* kind)
    {
        if (g_armed && g_fuse > 0 && --g_fuse == 0)
        {
            g_armed = false;
            EMIT("{\"op\":\"EThrow\",\"at\":\"%s\",\"alt\":%d,\"kind\":\"%s\"}\n", at, alt, kind);
            throw Injected{};
        }
    }

    template <int A> struct Mk { int v; };
    const int SCRIBBLE = 0x5C21BB1E;   // what a throwing constructor of a trivial alternative leaves in its storage
    const int UNORD = 7777;     // the unordered payload value (Variant!UNORD)

    const unsigned LIVE_MAGIC = 0x51AB1E55u, DEAD_MAGIC = 0xDEADBEEFu;

    // Payload alternative A.  NTM: move construction/assignment are noexcept (and never throw).
    // Throwing-capable operations consult the fuse *before* doing anything (strong guarantee of
    // the element operation itself).  A move leaves MOVED in the source.
    template <int A, bool NTM>
    struct P
    {
        int v;
        int id;
        unsigned magic;

        void born(const char* kind, int src)
        {
            id = ++g_next_id;
            magic = LIVE_MAGIC;
            g_at[this] = id;
            EMIT("{\"op\":\"ECtor\",\"id\":%d,\"alt\":%d,\"kind\":\"%s\",\"src\":%d,\"home\":%d,\"val\":%d}\n",
                        id, A, kind, src, home_of(this), v);
        }
        P() { may_throw("ctor", A, "value"); v = 0; born("value", 0); }                      // default construction (alternative 0 of set "td")
        P(Mk<A> m) { may_throw("ctor", A, "value"); v = m.v; born("value", 0); }
        P(int a, Mk<A> m) { may_throw("ctor", A, "value"); v = a + m.v; born("value", 0); }   // several constructor arguments
        P(std::initializer_list<int> il, int add) { may_throw("ctor", A, "value"); v = *il.begin() + add; born("value", 0); }
        P(const P& o) { may_throw("ctor", A, "copy"); v = o.v; born("copy", id_at(&o)); }
        P(P&& o) noexcept(NTM)
        {
            if (!NTM) may_throw("ctor", A, "move");
            v = o.v;
            int s = id_at(&o);
            born("move", s);
            o.v = MOVED;
        }
        void assigned(const char* kind, int src)
        {
            EMIT("{\"op\":\"EAssign\",\"dst\":%d,\"src\":%d,\"kind\":\"%s\",\"val\":%d}\n", id_at(this), src, kind, v);
        }
        P& operator=(const P& o) { may_throw("assign", A, "copy"); v = o.v; assigned("copy", id_at(&o)); return *this; }
        P& operator=(P&& o) noexcept(NTM)
        {
            if (!NTM) may_throw("assign", A, "move");
            if (this == &o) { assigned("self", id_at(&o)); return *this; }
            v = o.v;
            assigned("move", id_at(&o));
            o.v = MOVED;
            return *this;
        }
        P& operator=(Mk<A> m) { may_throw("assign", A, "value"); v = m.v; assigned("value", 0); return *this; }
        ~P()
        {
            auto it = g_at.find(this);
            int i;
            if (it != g_at.end()) { i = it->second; g_at.erase(it); }
            else i = (magic == DEAD_MAGIC || magic == LIVE_MAGIC) ? id : -1;   // destroyed twice / never constructed
            magic = DEAD_MAGIC;
            EMIT("{\"op\":\"EDtor\",\"id\":%d}\n", i);
        }
        // values are only partially ordered: UNORD compares like a NaN (unordered with everything, itself included)
        static bool un(const P& a, const P& b) { return a.v == UNORD || b.v == UNORD; }
        friend bool operator==(const P& a, const P& b) { return !un(a, b) && a.v == b.v; }
        friend bool operator!=(const P& a, const P& b) { return un(a, b) || a.v != b.v; }
        friend bool operator<(const P& a, const P& b) { return !un(a, b) && a.v < b.v; }
        friend bool operator>(const P& a, const P& b) { return !un(a, b) && a.v > b.v; }
        friend bool operator<=(const P& a, const P& b) { return !un(a, b) && a.v <= b.v; }
        friend bool operator>=(const P& a, const P& b) { return !un(a, b) && a.v >= b.v; }
    };

    // Trivial alternative A: trivially copyable and destructible, no lifetime events, nothing throws.
    template <int A>
    struct Tv
    {
        int v;
        Tv() = default;
        // alternative 3 of the trivial set: construction / assignment from a value may throw (fuse) - AFTER having scribbled over
        // its storage; the type stays trivially copyable and trivially destructible (no lifetime events)
        Tv(Mk<A> m) noexcept(A != 3) : v(A == 3 ? SCRIBBLE : m.v)
        {
            if (A == 3) { if (g_tvthrow) may_throw("ctor", A, "value"); v = m.v; }
        }
        Tv& operator=(Mk<A> m) noexcept(A != 3)
        {
            if (A == 3 && g_tvthrow) may_throw("assign", A, "value");
            v = m.v;
            return *this;
        }
        // values are only partially ordered: UNORD compares like a NaN (unordered with everything, itself included)
        static bool un(const Tv& a, const Tv& b) { return a.v == UNORD || b.v == UNORD; }
        friend bool operator==(const Tv& a, const Tv& b) { return !un(a, b) && a.v == b.v; }
        friend bool operator!=(const Tv& a, const Tv& b) { return un(a, b) || a.v != b.v; }
        friend bool operator<(const Tv& a, const Tv& b) { return !un(a, b) && a.v < b.v; }
        friend bool operator>(const Tv& a, const Tv& b) { return !un(a, b) && a.v > b.v; }
        friend bool operator<=(const Tv& a, const Tv& b) { return !un(a, b) && a.v <= b.v; }
        friend bool operator>=(const Tv& a, const Tv& b) { return !un(a, b) && a.v >= b.v; }
    };

}
namespace std
{
    template <int A, bool N> struct hash<P<A, N>> { size_t operator()(const P<A, N>& p) const { return hash<int>{}(p.v); } };
    template <int A> struct hash<Tv<A>> { size_t operator()(const Tv<A>& t) const { return hash<int>{}(t.v); } };
}
namespace
{
    template <int A> struct alt_type;
#if C05_SET == 1
    template <int A> struct alt_type { using type = P<A, A == 1>; using arg = Mk<A>; static const bool tracked = true; };
    template <> struct alt_type<0> { using type = int; using arg = int; static const bool tracked = false; };
#elif C05_SET == 2
    template <int A> struct alt_type { using type = Tv<A>; using arg = Mk<A>; static const bool tracked = false; };
    template <> struct alt_type<0> { using type = int; using arg = int; static const bool tracked = false; };
#elif C05_SET == 3
    template <int A> struct alt_type { using type = P<A, A == 1>; using arg = Mk<A>; static const bool tracked = true; };
    template <> struct alt_type<3> { using type = int; using arg = int; static const bool tracked = false; };
#else
#error "C05_SET must be 1, 2 or 3"
#endif
    using T0 = alt_type<0>::type;
    using T1 = alt_type<1>::type;
    using T2 = alt_type<2>::type;
    using T3 = alt_type<3>::type;
    using V = xtl::variant<T0, T1, T2, T3>;
    static_assert(sizeof(V) <= sizeof(store_t), "storage too small");
    static_assert(alignof(V) <= alignof(store_t), "storage alignment");
    // facts about the fixtures themselves (not about xtl): the constants TrackedAlts / NTMAlts of the trace cfg
    static_assert(std::is_nothrow_move_constructible<P<1, true>>::value && !std::is_nothrow_move_constructible<P<2, false>>::value, "payload traits");
    static_assert(!std::is_nothrow_constructible<P<1, true>, Mk<1>>::value && !std::is_nothrow_copy_constructible<P<1, true>>::value, "payload traits");
    static_assert(std::is_trivially_copyable<Tv<1>>::value && std::is_trivially_destructible<Tv<1>>::value
                  && std::is_nothrow_constructible<Tv<1>, Mk<1>>::value, "trivial alternative");
    static_assert(std::is_trivially_copyable<Tv<3>>::value && std::is_trivially_destructible<Tv<3>>::value && std::is_nothrow_move_constructible<Tv<3>>::value
                  && !std::is_nothrow_constructible<Tv<3>, Mk<3>>::value, "trivial alternative whose value constructor may throw");
    template <int A> typename alt_type<A>::arg make_arg(int val) { return typename alt_type<A>::arg{val}; }
    template <int A> using tracked_c = std::integral_constant<bool, alt_type<A>::tracked>;

    V& vr(int k) { return *reinterpret_cast<V*>(g_store[k].b); }

    // ------------------------------------------------------------------ projection
    int val_of(const int& x) { return x; }
    template <int A> int val_of(const Tv<A>& t) { return t.v; }
    template <int A, bool N> int val_of(const P<A, N>& p) { return id_at(&p) > 0 ? p.v : -99; }
    int oid_of(const int&) { return 0; }
    template <int A> int oid_of(const Tv<A>&) { return 0; }
    template <int A, bool N> int oid_of(const P<A, N>& p) { return id_at(&p); }
    const int& int_in(const int& x) { return x; }
    template <int A> const int& int_in(const Tv<A>& t) { return t.v; }
    template <int A, bool N> const int& int_in(const P<A, N>& p) { return p.v; }

    // answers of a 4-way observer family as a bit mask: bit I set iff the observer says "alternative I"
    long long mask(std::initializer_list<bool> b)
    {
        long long m = 0, bit = 1;
        for (bool x : b) { if (x) m |= bit; bit <<= 1; }
        return m;
    }

    std::string proj(int k)
    {
        vj::out o;
        if (!g_present[k])
        {
            o.kb("p", false).kv("index", -2).kb("vbe", false).kv("hi", 0).kv("ht", 0).kv("gi", 0).kv("gt", 0).kv("val", 0).kv("id", 0);
            return o.obj();
        }
        const V& c = vr(k);
        V& m = vr(k);
        std::size_t ix = c.index();
        long long lix = ix == xtl::variant_npos ? -1 : (ix > 1000 ? 1000 : (long long)ix);
        o.kb("p", true).kv("index", lix).kb("vbe", c.valueless_by_exception());
        o.kv("hi", mask({xtl::holds_alternative<0>(c), xtl::holds_alternative<1>(c), xtl::holds_alternative<2>(c), xtl::holds_alternative<3>(c)}));
        o.kv("ht", mask({xtl::holds_alternative<T0>(c), xtl::holds_alternative<T1>(c), xtl::holds_alternative<T2>(c), xtl::holds_alternative<T3>(c)}));
        o.kv("gi", mask({xtl::get_if<0>(&c) != nullptr, xtl::get_if<1>(&m) != nullptr, xtl::get_if<2>(&c) != nullptr, xtl::get_if<3>(&m) != nullptr}));
        o.kv("gt", mask({xtl::get_if<T0>(&m) != nullptr, xtl::get_if<T1>(&c) != nullptr, xtl::get_if<T2>(&m) != nullptr, xtl::get_if<T3>(&c) != nullptr}));
        int val = 0, id = 0;
        switch (lix)
        {
            case 0: if (auto p = xtl::get_if<0>(&c)) { val = val_of(*p); id = oid_of(*p); } break;
            case 1: if (auto p = xtl::get_if<1>(&c)) { val = val_of(*p); id = oid_of(*p); } break;
            case 2: if (auto p = xtl::get_if<2>(&c)) { val = val_of(*p); id = oid_of(*p); } break;
            case 3: if (auto p = xtl::get_if<3>(&c)) { val = val_of(*p); id = oid_of(*p); } break;
            default: break;
        }
        o.kv("val", val).kv("id", id);
        return o.obj();
    }

    // ------------------------------------------------------------------ results
    std::string ok(const std::string& val = "[]") { return "{\"exc\":\"none\",\"val\":" + val + "}"; }
    std::string exc(const char* e) { return std::string("{\"exc\":\"") + e + "\",\"val\":[]}"; }
    template <class T> std::string refval(const T& x)
    {
        vj::out o; o.kv("id", oid_of(x)).kv("val", val_of(x)); return o.obj();
    }

    struct Arm
    {
        explicit Arm(int n) { g_fuse = n; g_armed = n > 0; }
        ~Arm() { g_armed = false; }
    };

    // the script itself is malformed (never a consequence of what the library under test does)
    [[noreturn]] void bad_script(const char* m) { std::fprintf(stderr, "script: %s\n", m); std::exit(3); }
    // something the library did that has no place in the result record: reported as the call's outcome
    struct Oddity { const char* what; };

    template <class F> auto with_alt(int alt, F&& f)
    {
        switch (alt)
        {
            case 0: return f(std::integral_constant<int, 0>{});
            case 1: return f(std::integral_constant<int, 1>{});
            case 2: return f(std::integral_constant<int, 2>{});
            case 3: return f(std::integral_constant<int, 3>{});
            default: bad_script("alt out of range");
        }
    }

    // Calls f with the argument object of kind ak for alternative A: "value" -> int / Mk<A> ;
    // "copy" -> const T& ; "move" -> T&&.  The source payload object is built (and destroyed) by the
    // harness inside the bracket with the fuse disarmed; only the call under test runs armed.
    template <int A, class F> void with_source_t(const std::string& ak, int val, F&& f, std::true_type)
    {
        using T = typename alt_type<A>::type;
        if (ak == "value") { auto a = make_arg<A>(val); f(std::move(a)); }
        else if (ak == "copy") { T src(make_arg<A>(val)); const T& c = src; f(c); }
        else if (ak == "move") { T src(make_arg<A>(val)); f(std::move(src)); }
        else bad_script("ak");
    }
    template <int A, class F> void with_source_t(const std::string& ak, int val, F&& f, std::false_type)
    {
        if (ak == "value") { auto a = make_arg<A>(val); f(std::move(a)); }
        else bad_script("ak: an untracked alternative takes its value only");
    }
    template <int A, class F> void with_source(const std::string& ak, int val, F&& f)
    {
        with_source_t<A>(ak, val, std::forward<F>(f), tracked_c<A>{});
    }

    // in-place constructors and emplace with several arguments: "ilist" = (initializer_list<int>, int),
    // "multi" = (int, Mk<A>)   (tracked alternatives only)
    template <int J> void ctor_many(int, const std::string&, const std::string&, int, int, std::false_type) { bad_script("ilist / multi on an untracked alternative"); }
    template <int J> void ctor_many(int k, const std::string& ak, const std::string& form, int val, int fuse, std::true_type)
    {
        using TJ = typename alt_type<J>::type;
        Arm arm(fuse);
        if (ak == "ilist")
        {
            if (form == "index") new (g_store[k].b) V(mpark::in_place_index_t<J>{}, {val - 1, 7}, 1);
            else if (form == "type") new (g_store[k].b) V(mpark::in_place_type_t<TJ>{}, {val - 1, 7}, 1);
            else bad_script("form");
        }
        else
        {
            if (form == "index") new (g_store[k].b) V(mpark::in_place_index_t<J>{}, 1, Mk<J>{val - 1});
            else if (form == "type") new (g_store[k].b) V(mpark::in_place_type_t<TJ>{}, 1, Mk<J>{val - 1});
            else bad_script("form");
        }
    }
    template <int J> std::string emplace_many(int, const std::string&, const std::string&, int, int, std::false_type) { bad_script("ilist / multi on an untracked alternative"); }
    template <int J> std::string emplace_many(int k, const std::string& ak, const std::string& form, int val, int fuse, std::true_type)
    {
        using TJ = typename alt_type<J>::type;
        Arm arm(fuse);
        if (ak == "ilist")
        {
            TJ& ref = form == "index" ? vr(k).template emplace<J>({val - 1, 7}, 1) : vr(k).template emplace<TJ>({val - 1, 7}, 1);
            return refval(ref);
        }
        TJ& ref = form == "index" ? vr(k).template emplace<J>(1, Mk<J>{val - 1}) : vr(k).template emplace<TJ>(1, Mk<J>{val - 1});
        return refval(ref);
    }

    // ------------------------------------------------------------------ visitors
    struct Rec
    {
        std::vector<int> alts, vals, ids, rv;
        const int* first = nullptr;
        void rec(const int& x, bool r) { alts.push_back(index_of(x)); vals.push_back(x); ids.push_back(0); rv.push_back(r); if (!first) first = &x; }
        template <int A> void rec(const Tv<A>& t, bool r) { alts.push_back(A); vals.push_back(t.v); ids.push_back(0); rv.push_back(r); if (!first) first = &t.v; }
        template <int A, bool N> void rec(const P<A, N>& p, bool r) { alts.push_back(A); vals.push_back(val_of(p)); ids.push_back(id_at(&p)); rv.push_back(r); if (!first) first = &p.v; }
        static int index_of(const int&) { return C05_SET == 3 ? 3 : 0; }     // the int alternative of the set
    };
    // returns arity + sum of the alternatives' numbers
    struct Vis
    {
        Rec* r;
        template <class... X> int operator()(X&&... x) const
        {
            int d[] = {0, (r->rec(x, !std::is_lvalue_reference<X>::value), 0)...};
            (void)d;
            int s = (int)sizeof...(X);
            for (int a : r->alts) s += a;
            return s;
        }
    };
    // returns a reference to the first visited value
    struct VisRef
    {
        Rec* r;
        template <class X0, class... X> const int& operator()(X0&& x0, X&&... x) const
        {
            r->rec(x0, !std::is_lvalue_reference<X0>::value);
            int d[] = {0, (r->rec(x, !std::is_lvalue_reference<X>::value), 0)...};
            (void)d;
            return int_in(x0);
        }
    };

    template <class Vs, class At> int visit3(Vs& vis, At& at, std::false_type) { return xtl::visit(vis, at(0), at(1), at(2)); }
    template <class Vs, class At> int visit3(Vs&, At&, std::true_type) { bad_script("rvalue visit: arity <= 2"); }
    template <class VT, bool RV> VT&& pass(VT& v, std::true_type) { return std::move(v); }
    template <class VT, bool RV> VT& pass(VT& v, std::false_type) { return v; }

    template <class VT, bool RV> std::string do_visit(const std::vector<long long>& ks, bool byref)
    {
        Rec r;
        using rv_c = std::integral_constant<bool, RV>;
        auto at = [&](size_t i) -> decltype(auto) { return pass<VT, RV>(static_cast<VT&>(vr((int)ks[i] - 1)), rv_c{}); };
        int ret = 0;
        bool alias = false;
        if (byref)
        {
            VisRef vis{&r};
            const int* got = nullptr;
            switch (ks.size())
            {
                case 1: got = &xtl::visit(vis, at(0)); break;
                case 2: got = &xtl::visit(vis, at(0), at(1)); break;
                default: bad_script("reference-returning visit: arity 1 or 2");
            }
            alias = got == r.first;
            ret = *got;
        }
        else
        {
            Vis vis{&r};
            switch (ks.size())
            {
                case 0: ret = xtl::visit(vis); break;
                case 1: ret = xtl::visit(vis, at(0)); break;
                case 2: ret = xtl::visit(vis, at(0), at(1)); break;
                case 3: ret = visit3(vis, at, rv_c{}); break;
                default: bad_script("visit arity");
            }
        }
        vj::out o;
        o.kints("alts", r.alts).kints("vals", r.vals).kints("ids", r.ids).kints("rv", r.rv).kb("alias", alias).kv("ret", ret);
        return ok(o.obj());
    }

    // closure-aware xget on variants of closure wrappers (the variant types of test_xvariant.cpp; stateless probe)
    using RV = xtl::variant<xtl::xclosure_wrapper<int&>, xtl::xclosure_wrapper<const int&>, xtl::xclosure_wrapper<double&>>;
    using RV2 = xtl::variant<xtl::xclosure_wrapper<int&>, xtl::xclosure_wrapper<double&>>;   // no const int& closure in the list
    using RV4 = xtl::variant<xtl::xclosure_wrapper<const int&>, xtl::xclosure_wrapper<const double&>>;   // const closures only

    int g_seen = 0;     // the value read through the reference xget returned, before the caller wrote through it
    template <class RVT> const int* xref_cref(RVT& v, const std::string& ref)
    {
        const RVT& c = v;
        if (ref == "l") return &xtl::xget<const int&>(v);
        if (ref == "cl") return &xtl::xget<const int&>(c);
        if (ref == "r") return &xtl::xget<const int&>(std::move(v));
        return &xtl::xget<const int&>(std::move(c));
    }
    template <class RVT> const int* xref_ref(RVT& v, const std::string& ref, bool write, int newval)
    {
        const RVT& c = v;
        if (write)
        {
            int& r = ref == "l" ? xtl::xget<int&>(v) : xtl::xget<int&>(std::move(v));
            g_seen = r;
            r = newval;
            return &r;
        }
        if (ref == "l") return &xtl::xget<int&>(v);
        if (ref == "cl") return &xtl::xget<int&>(c);
        if (ref == "r") return &xtl::xget<int&>(std::move(v));
        return &xtl::xget<int&>(std::move(c));
    }
    std::string xref_result(const int* got, const int* target, bool wrote, int now)
    {
        vj::out o;
        o.kb("alias", got == target).kv("val", wrote ? g_seen : *got).kv("after", now);
        return ok(o.obj());
    }

    std::string do_xref(const vj::value& a)
    {
        int i = (int)a.num("val");
        const int orig = i;
        double d = 0.5;
        const double cd = 0.5;
        const std::string& held = a.str("held");
        const std::string& want = a.str("want");
        const std::string& ref = a.str("ref");
        bool write = a.num("w", 0) != 0;
        if (write && (want != "ref" || (ref != "l" && ref != "r"))) bad_script("XRef: writing needs xget<int&> on a non-const variant");
        const int* got = nullptr;
        long long list = a.num("list");
        if (list == 3)
        {
            if (held == "ref") { RV v(xtl::closure(i)); got = want == "ref" ? xref_ref(v, ref, write, orig + 1) : xref_cref(v, ref); }
            else if (held == "cref") { const int& ci = i; RV v(xtl::closure(ci)); got = want == "ref" ? xref_ref(v, ref, write, orig + 1) : xref_cref(v, ref); }
            else { RV v(xtl::closure(d)); got = want == "ref" ? xref_ref(v, ref, write, orig + 1) : xref_cref(v, ref); }
        }
        else if (list == 2)
        {
            if (held == "ref") { RV2 v(xtl::closure(i)); got = want == "ref" ? xref_ref(v, ref, write, orig + 1) : xref_cref(v, ref); }
            else { RV2 v(xtl::closure(d)); got = want == "ref" ? xref_ref(v, ref, write, orig + 1) : xref_cref(v, ref); }
        }
        else if (list == 4)
        {
            if (want != "cref") bad_script("XRef: list 4 has const closures only");
            if (held == "cref") { const int& ci = i; RV4 v(xtl::closure(ci)); got = xref_cref(v, ref); }
            else { RV4 v(xtl::closure(cd)); got = xref_cref(v, ref); }
        }
        else bad_script("XRef list");
        return xref_result(got, &i, write, i);
    }

    // monostate: relational operators, hash, and a variant<monostate, T1> default-constructs to monostate
    std::string do_mono(const std::string& q)
    {
        using MV = xtl::variant<xtl::monostate, T1>;
        xtl::monostate x, y;
        bool b;
        if (q == "eq") b = x == y;
        else if (q == "ne") b = x != y;
        else if (q == "lt") b = x < y;
        else if (q == "gt") b = x > y;
        else if (q == "le") b = x <= y;
        else if (q == "ge") b = x >= y;
        else if (q == "hash") { MV m1, m2; b = std::hash<xtl::monostate>{}(x) == std::hash<xtl::monostate>{}(y) && std::hash<MV>{}(m1) == std::hash<MV>{}(m2); }
        else if (q == "default") { MV m; b = m.index() == 0 && xtl::holds_alternative<xtl::monostate>(m) && !m.valueless_by_exception(); }
        else bad_script("Mono q");
        vj::out o; o.kb("b", b);
        return ok(o.obj());
    }

    // the visit scenarios of test_xvariant.cpp (visitor returning a variant; overloaded lambdas through xtl::make_overload)
    std::string do_up(const std::string& t, int alt, int val)
    {
        using U = xtl::variant<int, double, std::string>;
        U u = alt == 0 ? U(val) : alt == 1 ? U(val + 0.5) : U(std::string((size_t)val, 'x'));
        int i = -1, x = -1;
        if (t == "overload")
        {
            xtl::visit(xtl::make_overload([&](int arg) { i = 0; x = arg; },
                                          [&](double arg) { i = 1; x = (int)(arg - 0.5); },
                                          [&](const std::string& arg) { i = 2; x = (int)arg.size(); }),
                       u);
        }
        else if (t == "visitret")
        {
            U w = xtl::visit([](auto&& arg) -> U { return arg + arg; }, u);
            i = w.valueless_by_exception() ? -1 : (int)w.index();
            if (const int* p = xtl::get_if<0>(&w)) x = *p;
            else if (const double* q = xtl::get_if<1>(&w)) x = (int)*q;
            else if (const std::string* s = xtl::get_if<2>(&w)) x = (int)s->size();
        }
        else bad_script("Up t");
        vj::out o; o.kv("i", i).kv("x", x);
        return ok(o.obj());
    }

    // a variant of variants: W = variant<int, V>
    using W = xtl::variant<int, V>;
    struct Inner { int ii, iv; };
    struct InnerVis
    {
        template <class X> Inner operator()(const X& x) const { Rec r; r.rec(x, false); return Inner{r.alts[0], r.vals[0]}; }
    };
    struct OuterVis
    {
        Inner operator()(const int& x) const { return Inner{-1, x}; }
        Inner operator()(const V& v) const { return v.valueless_by_exception() ? Inner{-2, 0} : xtl::visit(InnerVis{}, v); }
    };
    void nest_proj(vj::out& o, const char* oi, const char* ii, const char* iv, const W& w)
    {
        Inner in = w.valueless_by_exception() ? Inner{-3, 0} : xtl::visit(OuterVis{}, w);
        o.kv(oi, w.valueless_by_exception() ? -1 : (long long)w.index()).kv(ii, in.ii).kv(iv, in.iv);
    }
    template <int A> std::string do_nest(const std::string& mode, int val, int fuse)
    {
        Arm arm(fuse);
        W w1(mpark::in_place_index_t<1>{}, mpark::in_place_index_t<A>{}, make_arg<A>(val));
        vj::out o;
        if (mode == "copy") { W w2(static_cast<const W&>(w1)); nest_proj(o, "oi", "ii", "iv", w2); nest_proj(o, "soi", "sii", "siv", w1); }
        else if (mode == "move") { W w2(std::move(w1)); nest_proj(o, "oi", "ii", "iv", w2); nest_proj(o, "soi", "sii", "siv", w1); }
        else if (mode == "swap") { W w2(7); w1.swap(w2); nest_proj(o, "oi", "ii", "iv", w2); nest_proj(o, "soi", "sii", "siv", w1); }
        else if (mode == "visit") { nest_proj(o, "oi", "ii", "iv", w1); nest_proj(o, "soi", "sii", "siv", w1); }
        else bad_script("Nest mode");
        g_armed = false;
        return o.obj();
    }

    // ------------------------------------------------------------------ one call
    std::string perform(const std::string& c, const vj::value& a, int fuse)
    {
        auto K = [&](const char* key) -> int {
            long long k = a.num(key);
            if (k < 1 || k > 2) bad_script("variant number");
            return (int)k - 1;
        };
        auto need = [&](int k, bool present) { if (g_present[k] != present) bad_script("precondition: variant presence"); };

        if (c == "CtorDefault")
        {
            int k = K("k"); need(k, false);
            { Arm arm(fuse); new (g_store[k].b) V(); }
            g_present[k] = true;
            return ok();
        }
        if (c == "CtorValue")
        {
            int k = K("k"); need(k, false);
            int val = (int)a.num("val");
            const std::string &ak = a.str("ak"), &form = a.str("form");
            with_alt((int)a.num("alt"), [&](auto A) {
                constexpr int I = decltype(A)::value;
                using T = typename alt_type<I>::type;
                if (ak == "ilist" || ak == "multi") { ctor_many<I>(k, ak, form, val, fuse, tracked_c<I>{}); return 0; }
                with_source<I>(ak, val, [&](auto&& src) {
                    using S = decltype(src);
                    Arm arm(fuse);
                    if (form == "conv") new (g_store[k].b) V(std::forward<S>(src));
                    else if (form == "index") new (g_store[k].b) V(mpark::in_place_index_t<I>{}, std::forward<S>(src));
                    else if (form == "type") new (g_store[k].b) V(mpark::in_place_type_t<T>{}, std::forward<S>(src));
                    else bad_script("form");
                });
                return 0;
            });
            g_present[k] = true;
            return ok();
        }
        if (c == "CtorCopy" || c == "CtorMove")
        {
            int k = K("k"), o = K("o"); need(k, false); need(o, true);
            if (k == o) bad_script("precondition: k # o");
            {
                Arm arm(fuse);
                if (c == "CtorCopy") new (g_store[k].b) V(static_cast<const V&>(vr(o)));
                else new (g_store[k].b) V(std::move(vr(o)));
            }
            g_present[k] = true;
            return ok();
        }
        if (c == "Destroy")
        {
            int k = K("k"); need(k, true);
            g_present[k] = false;
            vr(k).~V();
            return ok();
        }
        if (c == "Emplace")
        {
            int k = K("k"); need(k, true);
            int val = (int)a.num("val");
            const std::string &ak = a.str("ak"), &form = a.str("form");
            std::string r;
            with_alt((int)a.num("alt"), [&](auto A) {
                constexpr int I = decltype(A)::value;
                using T = typename alt_type<I>::type;
                if (ak == "ilist" || ak == "multi") { r = emplace_many<I>(k, ak, form, val, fuse, tracked_c<I>{}); return 0; }
                with_source<I>(ak, val, [&](auto&& src) {
                    using S = decltype(src);
                    Arm arm(fuse);
                    T& ref = form == "index" ? vr(k).template emplace<I>(std::forward<S>(src)) : vr(k).template emplace<T>(std::forward<S>(src));
                    r = refval(ref);
                });
                return 0;
            });
            return ok(r);
        }
        if (c == "ConvAssign")
        {
            int k = K("k"); need(k, true);
            int val = (int)a.num("val");
            const std::string& ak = a.str("ak");
            bool self = true;
            with_alt((int)a.num("alt"), [&](auto A) {
                constexpr int I = decltype(A)::value;
                with_source<I>(ak, val, [&](auto&& src) {
                    using S = decltype(src);
                    Arm arm(fuse);
                    V& r = (vr(k) = std::forward<S>(src));
                    self = &r == &vr(k);
                });
                return 0;
            });
            if (!self) throw Oddity{"assignment_returned_another_object"};
            return ok();
        }
        if (c == "CopyAssign" || c == "MoveAssign")
        {
            int k = K("k"), o = K("o"); need(k, true); need(o, true);
            if (c == "MoveAssign" && k == o) bad_script("precondition: self move assignment");
            bool self;
            {
                Arm arm(fuse);
                if (c == "CopyAssign") self = &(vr(k) = static_cast<const V&>(vr(o))) == &vr(k);
                else self = &(vr(k) = std::move(vr(o))) == &vr(k);
            }
            if (!self) throw Oddity{"assignment_returned_another_object"};
            return ok();
        }
        if (c == "Swap")
        {
            int k = K("k"), o = K("o"); need(k, true); need(o, true);
            Arm arm(fuse);
            if (a.str("form") == "member") vr(k).swap(vr(o));
            else { using std::swap; swap(vr(k), vr(o)); }
            return ok();
        }
        // ---- observers
        if (c == "Get" || c == "XGet")
        {
            int k = K("k"); need(k, true);
            const std::string& ref = a.str("ref");
            bool bytype = c == "XGet" || a.str("form") == "type";
            bool x = c == "XGet";
            std::string r;
            with_alt((int)a.num("alt"), [&](auto A) {
                constexpr int I = decltype(A)::value;
                using T = typename alt_type<I>::type;
                V& m = vr(k);
                const V& cv = vr(k);
                if (x)
                {
                    if (ref == "l") r = refval(xtl::xget<T>(m));
                    else if (ref == "cl") r = refval(xtl::xget<T>(cv));
                    else if (ref == "r") { T&& q = xtl::xget<T>(std::move(m)); r = refval(q); }
                    else { const T&& q = xtl::xget<T>(std::move(cv)); r = refval(q); }
                }
                else if (bytype)
                {
                    if (ref == "l") { T& q = xtl::get<T>(m); r = refval(q); }
                    else if (ref == "cl") { const T& q = xtl::get<T>(cv); r = refval(q); }
                    else if (ref == "r") { T&& q = xtl::get<T>(std::move(m)); r = refval(q); }
                    else { const T&& q = xtl::get<T>(std::move(cv)); r = refval(q); }
                }
                else
                {
                    if (ref == "l") { T& q = xtl::get<I>(m); r = refval(q); }
                    else if (ref == "cl") { const T& q = xtl::get<I>(cv); r = refval(q); }
                    else if (ref == "r") { T&& q = xtl::get<I>(std::move(m)); r = refval(q); }
                    else { const T&& q = xtl::get<I>(std::move(cv)); r = refval(q); }
                }
                return 0;
            });
            return ok(r);
        }
        if (c == "GetIf")
        {
            bool null = a.num("null") != 0;
            int k = K("k");
            if (!null) need(k, true);
            bool cst = a.num("c") != 0, bytype = a.str("form") == "type";
            std::string r;
            with_alt((int)a.num("alt"), [&](auto A) {
                constexpr int I = decltype(A)::value;
                using T = typename alt_type<I>::type;
                V* m = null ? nullptr : &vr(k);
                const V* cv = m;
                const T* p = bytype ? (cst ? xtl::get_if<T>(cv) : xtl::get_if<T>(m)) : (cst ? xtl::get_if<I>(cv) : xtl::get_if<I>(m));
                vj::out o;
                o.kb("nonnull", p != nullptr).kv("id", p ? oid_of(*p) : 0).kv("val", p ? val_of(*p) : 0);
                r = o.obj();
                return 0;
            });
            return ok(r);
        }
        if (c == "Rel")
        {
            int k = K("k"), o = K("o"); need(k, true); need(o, true);
            const V& x = vr(k);
            const V& y = vr(o);
            const std::string& rel = a.str("rel");
            bool b;
            if (rel == "eq") b = x == y;
            else if (rel == "ne") b = x != y;
            else if (rel == "lt") b = x < y;
            else if (rel == "gt") b = x > y;
            else if (rel == "le") b = x <= y;
            else if (rel == "ge") b = x >= y;
            else bad_script("rel");
            vj::out out; out.kb("b", b);
            return ok(out.obj());
        }
        if (c == "Hash")
        {
            int k = K("k"), o = K("o"); need(k, true); need(o, true);
            const V& x = vr(k);
            const V& y = vr(o);
            std::size_t hx = std::hash<V>{}(x), hy = std::hash<V>{}(y);
            vj::out out; out.kb("same", hx == hy);
            return ok(out.obj());
        }
        if (c == "Visit")
        {
            auto ks = a.ints("ks");
            for (auto k : ks) { if (k < 1 || k > 2) bad_script("variant number"); need((int)k - 1, true); }
            bool cst = a.num("c") != 0, rv = a.num("rv", 0) != 0, byref = a.num("r", 0) != 0;
            if (rv) return cst ? do_visit<const V, true>(ks, byref) : do_visit<V, true>(ks, byref);
            return cst ? do_visit<const V, false>(ks, byref) : do_visit<V, false>(ks, byref);
        }
        if (c == "XRef") return do_xref(a);
        if (c == "Mono") return do_mono(a.str("q"));
        if (c == "Up") { int alt = (int)a.num("alt"); if (alt < 0 || alt > 2) bad_script("Up alt"); return do_up(a.str("t"), alt, (int)a.num("val")); }
        if (c == "Nest")
        {
            std::string r;
            int val = (int)a.num("val");
            const std::string& mode = a.str("mode");
            with_alt((int)a.num("alt"), [&](auto A) { r = do_nest<decltype(A)::value>(mode, val, fuse); return 0; });
            return ok(r);
        }
        bad_script(("unknown call " + c).c_str());
    }


    // C++ preconditions of a call (which variant object exists).  A script line whose precondition does
    // not hold is skipped without a trace: generators only guess whether a constructor threw.
    bool callable(const std::string& c, const vj::value& a)
    {
        auto P = [&](const char* key) -> int {
            long long k = a.num(key);
            if (k < 1 || k > 2) bad_script("variant number");
            return g_present[k - 1] ? 1 : 0;
        };
        if (c == "CtorDefault" || c == "CtorValue") return !P("k");
        if (c == "CtorCopy" || c == "CtorMove") return a.num("k") != a.num("o") && !P("k") && P("o");
        if (c == "Destroy" || c == "Emplace" || c == "ConvAssign" || c == "Get" || c == "XGet") return P("k");
        if (c == "CopyAssign" || c == "Swap" || c == "Rel" || c == "Hash") return P("k") && P("o");
        if (c == "MoveAssign") return a.num("k") != a.num("o") && P("k") && P("o");
        if (c == "GetIf") return a.num("null") != 0 || P("k");
        if (c == "Visit")
        {
            for (auto k : a.ints("ks")) { if (k < 1 || k > 2) bad_script("variant number"); if (!g_present[k - 1]) return false; }
            return true;
        }
        return c == "XRef" || c == "Mono" || c == "Nest" || c == "Up";
    }

    void reset()
    {
        for (int k = 0; k < 2; ++k)
            if (g_present[k]) { g_present[k] = false; vr(k).~V(); }
        g_at.clear();
        g_next_id = 0;
    }

    // a call that does not return: the per-call CPU limit closes the trace with a Crash event
    const int CALL_CPU_LIMIT_S = 5;
    void on_cpu_limit(int)
    {
        std::fflush(stdout);
        vj::crash_line("hang: per-call CPU limit exceeded");
        _exit(0);
    }
    // a sanitizer report ends the process without running the signal handlers: close the trace from its death callback
    void on_sanitizer_death()
    {
        std::fflush(stdout);
        vj::crash_line("sanitizer report");
    }
    void arm_cpu_limit()
    {
        struct itimerval it;
        it.it_interval.tv_sec = 0; it.it_interval.tv_usec = 0;
        it.it_value.tv_sec = CALL_CPU_LIMIT_S; it.it_value.tv_usec = 0;
        setitimer(ITIMER_VIRTUAL, &it, nullptr);
    }
}

int main()
{
    vj::install_crash_handlers();
    std::signal(SIGVTALRM, on_cpu_limit);
#ifdef C05_ASAN
    __sanitizer_set_death_callback(on_sanitizer_death);
#endif
    std::string line;
    while (std::getline(std::cin, line))
    {
        if (line.empty()) continue;
        vj::value ev = vj::parse(line);
        const std::string& op = ev.str("op");
        if (op == "Reset")
        {
            // objects of the previous execution are destroyed silently: every End event has already
            // reported what was alive, so a leak was visible to the spec before this point
            g_quiet = true;
            reset();
            g_quiet = false;
            std::printf("%s\n", line.c_str());
            continue;
        }
        if (op != "Begin") { std::fprintf(stderr, "script: unknown op %s\n", op.c_str()); return 3; }
        const std::string& c = ev.str("c");
        int fuse = (int)ev.num("fuse", 0);
        g_tvthrow = ev.num("tt", 0) != 0;
        if (!callable(c, ev.at("a"))) continue;
        std::printf("%s\n", line.c_str());
        std::fflush(stdout);      // whatever happens inside the call, the trace names the call
        arm_cpu_limit();
        std::string res;
        try { res = perform(c, ev.at("a"), fuse); }
        catch (const Injected&) { res = exc("injected"); }
        catch (const xtl::bad_variant_access&) { res = exc("bad_variant_access"); }
        catch (const Oddity& o) { res = exc(o.what); }
        catch (...) { res = exc("other"); }
        g_armed = false;
        std::printf("{\"op\":\"End\",\"res\":%s,\"st\":[%s,%s],\"live\":%d}\n", res.c_str(), proj(0).c_str(), proj(1).c_str(), (int)g_at.size());
    }
    std::fflush(stdout);
    return 0;
}

// C05 conformance harness: interprets a script of variant operations (ndjson on stdin, one
// {"op":"Begin","c":<call>,"a":{..},"fuse":n} line per public call) on two real
// xtl::variant<int, NT, TM, TM2> objects kept in aligned storage (construction and destruction
// are explicit calls) and writes a bracketed trace:
//   Begin (echo) ; element events ECtor/EDtor/EAssign/EThrow emitted by the payload types ; End
// with the call's result and the full observable projection of both variants.
// A global countdown fuse makes the n-th throwing-capable element operation of the call throw.
// The harness contains no oracle: it executes and prints.
#include <xtl/xvariant.hpp>
#include <xtl/xclosure.hpp>
#include "vjson.hpp"
#include <iostream>
#include <map>
#include <string>
#include <vector>
#include <initializer_list>
#include <type_traits>
#include <utility>
#include <new>

namespace
{
    const int MOVED = -1;
    struct Injected {};

    int g_fuse = 0;          // countdown; 0 = never fires
    bool g_armed = false;    // only while the call under test runs
    int g_next_id = 0;       // ids number tracked payload objects by construction order
    std::map<const void*, int> g_at;   // live tracked objects by address

    struct alignas(16) store_t { unsigned char b[128]; };
    store_t g_store[2];
    bool g_present[2] = {false, false};

    bool g_quiet = false;    // teardown between executions is not part of any trace
#define EMIT(...) do { if (!g_quiet) std::printf(__VA_ARGS__); } while (0)

    int home_of(const void* p)
    {
        const unsigned char* c = static_cast<const unsigned char*>(p);
        for (int k = 0; k < 2; ++k)
            if (c >= g_store[k].b && c < g_store[k].b + sizeof(g_store[k].b)) return k + 1;
        return 0;
    }
    int id_at(const void* p)
    {
        auto it = g_at.find(p);
        return it == g_at.end() ? -1 : it->second;
    }
    void may_throw(const char* at, int alt, const char* kind)
    {
        if (g_armed && g_fuse > 0 && --g_fuse == 0)
        {
            g_armed = false;
            EMIT("{\"op\":\"EThrow\",\"at\":\"%s\",\"alt\":%d,\"kind\":\"%s\"}\n", at, alt, kind);
            throw Injected{};
        }
    }

    template <int A> struct Mk { int v; };

    const unsigned LIVE_MAGIC = 0x51AB1E55u, DEAD_MAGIC = 0xDEADBEEFu;

    // Payload alternative A.  NTM: move construction/assignment are noexcept (and never throw).
    // Throwing-capable operations consult the fuse *before* doing anything (strong guarantee of
    // the element operation itself).  A move leaves MOVED in the source.
    template <int A, bool NTM>
    struct P
    {
        int v;
        int id;
        unsigned magic;

        void born(const char* kind, int src)
        {
            id = ++g_next_id;
            magic = LIVE_MAGIC;
            g_at[this] = id;
            EMIT("{\"op\":\"ECtor\",\"id\":%d,\"alt\":%d,\"kind\":\"%s\",\"src\":%d,\"home\":%d,\"val\":%d}\n",
                        id, A, kind, src, home_of(this), v);
        }
        P(Mk<A> m) { may_throw("ctor", A, "value"); v = m.v; born("value", 0); }
        P(std::initializer_list<int> il, int add) { may_throw("ctor", A, "value"); v = *il.begin() + add; born("value", 0); }
        P(const P& o) { may_throw("ctor", A, "copy"); v = o.v; born("copy", id_at(&o)); }
        P(P&& o) noexcept(NTM)
        {
            if (!NTM) may_throw("ctor", A, "move");
            v = o.v;
            int s = id_at(&o);
            born("move", s);
            o.v = MOVED;
        }
        void assigned(const char* kind, int src)
        {
            EMIT("{\"op\":\"EAssign\",\"dst\":%d,\"src\":%d,\"kind\":\"%s\",\"val\":%d}\n", id_at(this), src, kind, v);
        }
        P& operator=(const P& o) { may_throw("assign", A, "copy"); v = o.v; assigned("copy", id_at(&o)); return *this; }
        P& operator=(P&& o) noexcept(NTM)
        {
            if (!NTM) may_throw("assign", A, "move");
            if (this == &o) { assigned("self", id_at(&o)); return *this; }
            v = o.v;
            assigned("move", id_at(&o));
            o.v = MOVED;
            return *this;
        }
        P& operator=(Mk<A> m) { may_throw("assign", A, "value"); v = m.v; assigned("value", 0); return *this; }
        ~P()
        {
            auto it = g_at.find(this);
            int i;
            if (it != g_at.end()) { i = it->second; g_at.erase(it); }
            else i = (magic == DEAD_MAGIC || magic == LIVE_MAGIC) ? id : -1;   // destroyed twice / never constructed
            magic = DEAD_MAGIC;
            EMIT("{\"op\":\"EDtor\",\"id\":%d}\n", i);
        }
        friend bool operator==(const P& a, const P& b) { return a.v == b.v; }
        friend bool operator!=(const P& a, const P& b) { return a.v != b.v; }
        friend bool operator<(const P& a, const P& b) { return a.v < b.v; }
        friend bool operator>(const P& a, const P& b) { return a.v > b.v; }
        friend bool operator<=(const P& a, const P& b) { return a.v <= b.v; }
        friend bool operator>=(const P& a, const P& b) { return a.v >= b.v; }
    };

    using T0 = int;
    using T1 = P<1, true>;    // NoThrowMove
    using T2 = P<2, false>;   // ThrowMove
    using T3 = P<3, false>;   // second ThrowMove alternative (swap without rollback)
    using V = xtl::variant<T0, T1, T2, T3>;
    static_assert(sizeof(V) <= sizeof(store_t), "storage too small");
    static_assert(alignof(V) <= alignof(store_t), "storage alignment");
    static_assert(std::is_nothrow_move_constructible<T1>::value && !std::is_nothrow_move_constructible<T2>::value, "payload traits");
    static_assert(!std::is_nothrow_constructible<T1, Mk<1>>::value && !std::is_nothrow_copy_constructible<T1>::value, "payload traits");

    template <int A> struct alt_type { using type = P<A, A == 1>; using arg = Mk<A>; };
    template <> struct alt_type<0> { using type = int; using arg = int; };
    template <int A> typename alt_type<A>::arg make_arg(int val) { return typename alt_type<A>::arg{val}; }

    V& vr(int k) { return *reinterpret_cast<V*>(g_store[k].b); }

    // ------------------------------------------------------------------ projection
    int val_of(const int& x) { return x; }
    template <int A, bool N> int val_of(const P<A, N>& p) { return id_at(&p) > 0 ? p.v : -99; }
    int oid_of(const int&) { return 0; }
    template <int A, bool N> int oid_of(const P<A, N>& p) { return id_at(&p); }

    // answers of a 4-way observer family as a bit mask: bit I set iff the observer says "alternative I"
    long long mask(std::initializer_list<bool> b)
    {
        long long m = 0, bit = 1;
        for (bool x : b) { if (x) m |= bit; bit <<= 1; }
        return m;
    }

    std::string proj(int k)
    {
        vj::out o;
        if (!g_present[k])
        {
            o.kb("p", false).kv("index", -2).kb("vbe", false).kv("hi", 0).kv("ht", 0).kv("gi", 0).kv("gt", 0).kv("val", 0).kv("id", 0);
            return o.obj();
        }
        const V& c = vr(k);
        V& m = vr(k);
        std::size_t ix = c.index();
        long long lix = ix == xtl::variant_npos ? -1 : (ix > 1000 ? 1000 : (long long)ix);
        o.kb("p", true).kv("index", lix).kb("vbe", c.valueless_by_exception());
        o.kv("hi", mask({xtl::holds_alternative<0>(c), xtl::holds_alternative<1>(c), xtl::holds_alternative<2>(c), xtl::holds_alternative<3>(c)}));
        o.kv("ht", mask({xtl::holds_alternative<T0>(c), xtl::holds_alternative<T1>(c), xtl::holds_alternative<T2>(c), xtl::holds_alternative<T3>(c)}));
        o.kv("gi", mask({xtl::get_if<0>(&c) != nullptr, xtl::get_if<1>(&m) != nullptr, xtl::get_if<2>(&c) != nullptr, xtl::get_if<3>(&m) != nullptr}));
        o.kv("gt", mask({xtl::get_if<T0>(&m) != nullptr, xtl::get_if<T1>(&c) != nullptr, xtl::get_if<T2>(&m) != nullptr, xtl::get_if<T3>(&c) != nullptr}));
        int val = 0, id = 0;
        switch (lix)
        {
            case 0: if (auto p = xtl::get_if<0>(&c)) { val = val_of(*p); id = oid_of(*p); } break;
            case 1: if (auto p = xtl::get_if<1>(&c)) { val = val_of(*p); id = oid_of(*p); } break;
            case 2: if (auto p = xtl::get_if<2>(&c)) { val = val_of(*p); id = oid_of(*p); } break;
            case 3: if (auto p = xtl::get_if<3>(&c)) { val = val_of(*p); id = oid_of(*p); } break;
            default: break;
        }
        o.kv("val", val).kv("id", id);
        return o.obj();
    }

    // ------------------------------------------------------------------ results
    std::string ok(const std::string& val = "[]") { return "{\"exc\":\"none\",\"val\":" + val + "}"; }
    std::string exc(const char* e) { return std::string("{\"exc\":\"") + e + "\",\"val\":[]}"; }
    template <class T> std::string refval(const T& x)
    {
        vj::out o; o.kv("id", oid_of(x)).kv("val", val_of(x)); return o.obj();
    }

    struct Arm
    {
        explicit Arm(int n) { g_fuse = n; g_armed = n > 0; }
        ~Arm() { g_armed = false; }
    };

    [[noreturn]] void bad_script(const char* m) { std::fprintf(stderr, "script: %s\n", m); std::exit(3); }

    template <class F> auto with_alt(int alt, F&& f)
    {
        switch (alt)
        {
            case 0: return f(std::integral_constant<int, 0>{});
            case 1: return f(std::integral_constant<int, 1>{});
            case 2: return f(std::integral_constant<int, 2>{});
            case 3: return f(std::integral_constant<int, 3>{});
            default: bad_script("alt out of range");
        }
    }

    // Calls f with the argument object of kind ak for alternative A: "value" -> int / Mk<A> ;
    // "copy" -> const T& ; "move" -> T&&.  The source payload object is built (and destroyed) by the
    // harness inside the bracket with the fuse disarmed; only the call under test runs armed.
    template <int A, class F> void with_source(const std::string& ak, int val, F&& f)
    {
        using T = typename alt_type<A>::type;
        if (ak == "value") { auto a = make_arg<A>(val); f(std::move(a)); }
        else if (ak == "copy") { T src(make_arg<A>(val)); const T& c = src; f(c); }
        else if (ak == "move") { T src(make_arg<A>(val)); f(std::move(src)); }
        else bad_script("ak");
    }


    // initializer_list overloads of the in-place constructors and of emplace (tracked alternatives only)
    inline void ctor_ilist(int, const std::string&, int, int, std::integral_constant<int, 0>) { bad_script("ilist on alt 0"); }
    template <int J> void ctor_ilist(int k, const std::string& form, int val, int fuse, std::integral_constant<int, J>)
    {
        Arm arm(fuse);
        if (form == "index") new (g_store[k].b) V(mpark::in_place_index_t<J>{}, {val - 1, 7}, 1);
        else if (form == "type") new (g_store[k].b) V(mpark::in_place_type_t<typename alt_type<J>::type>{}, {val - 1, 7}, 1);
        else bad_script("form");
    }
    inline std::string emplace_ilist(int, const std::string&, int, int, std::integral_constant<int, 0>) { bad_script("ilist on alt 0"); }
    template <int J> std::string emplace_ilist(int k, const std::string& form, int val, int fuse, std::integral_constant<int, J>)
    {
        using TJ = typename alt_type<J>::type;
        Arm arm(fuse);
        TJ& ref = form == "index" ? vr(k).template emplace<J>({val - 1, 7}, 1) : vr(k).template emplace<TJ>({val - 1, 7}, 1);
        return refval(ref);
    }

    // ------------------------------------------------------------------ visitor
    struct Rec
    {
        std::vector<int> alts, vals, ids;
        void rec(const int& x) { alts.push_back(0); vals.push_back(x); ids.push_back(0); }
        template <int A, bool N> void rec(const P<A, N>& p) { alts.push_back(A); vals.push_back(val_of(p)); ids.push_back(id_at(&p)); }
    };
    struct Vis
    {
        Rec* r;
        template <class... X> int operator()(X&&... x) const
        {
            int d[] = {0, (r->rec(x), 0)...};
            (void)d;
            int s = (int)sizeof...(X);
            for (int a : r->alts) s += a;
            return s;
        }
    };

    template <class VT> std::string do_visit(const std::vector<long long>& ks)
    {
        Rec r;
        Vis vis{&r};
        int ret = 0;
        auto at = [&](size_t i) -> VT& { return vr((int)ks[i] - 1); };
        switch (ks.size())
        {
            case 0: ret = xtl::visit(vis); break;
            case 1: ret = xtl::visit(vis, at(0)); break;
            case 2: ret = xtl::visit(vis, at(0), at(1)); break;
            case 3: ret = xtl::visit(vis, at(0), at(1), at(2)); break;
            default: bad_script("visit arity");
        }
        vj::out o;
        o.kints("alts", r.alts).kints("vals", r.vals).kints("ids", r.ids).kv("ret", ret);
        return ok(o.obj());
    }

    // closure-aware xget on a variant of closure wrappers (stateless probe)
    using RV = xtl::variant<xtl::xclosure_wrapper<int&>, xtl::xclosure_wrapper<const int&>, xtl::xclosure_wrapper<double&>>;
    using RV2 = xtl::variant<xtl::xclosure_wrapper<int&>, xtl::xclosure_wrapper<double&>>;   // no const int& closure in the list

    template <class RVT> std::string xref_on(RVT& v, const std::string& want, const std::string& ref, const int* target)
    {
        const RVT& c = v;
        const int* got = nullptr;
        if (want == "ref")
        {
            if (ref == "l") got = &xtl::xget<int&>(v);
            else if (ref == "cl") got = &xtl::xget<int&>(c);
            else if (ref == "r") got = &xtl::xget<int&>(std::move(v));
            else got = &xtl::xget<int&>(std::move(c));
        }
        else
        {
            if (ref == "l") got = &xtl::xget<const int&>(v);
            else if (ref == "cl") got = &xtl::xget<const int&>(c);
            else if (ref == "r") got = &xtl::xget<const int&>(std::move(v));
            else got = &xtl::xget<const int&>(std::move(c));
        }
        vj::out o;
        o.kb("alias", got == target).kv("val", *got);
        return ok(o.obj());
    }

    std::string do_xref(const vj::value& a)
    {
        int i = (int)a.num("val");
        double d = 0.5;
        const std::string& held = a.str("held");
        const std::string& want = a.str("want");
        const std::string& ref = a.str("ref");
        if (a.num("list") == 3)
        {
            if (held == "ref") { RV v(xtl::closure(i)); return xref_on(v, want, ref, &i); }
            if (held == "cref") { const int& ci = i; RV v(xtl::closure(ci)); return xref_on(v, want, ref, &i); }
            RV v(xtl::closure(d)); return xref_on(v, want, ref, &i);
        }
        if (held == "ref") { RV2 v(xtl::closure(i)); return xref_on(v, want, ref, &i); }
        RV2 v(xtl::closure(d)); return xref_on(v, want, ref, &i);
    }

    // ------------------------------------------------------------------ one call
    std::string perform(const std::string& c, const vj::value& a, int fuse)
    {
        auto K = [&](const char* key) -> int {
            long long k = a.num(key);
            if (k < 1 || k > 2) bad_script("variant number");
            return (int)k - 1;
        };
        auto need = [&](int k, bool present) { if (g_present[k] != present) bad_script("precondition: variant presence"); };

        if (c == "CtorDefault")
        {
            int k = K("k"); need(k, false);
            { Arm arm(fuse); new (g_store[k].b) V(); }
            g_present[k] = true;
            return ok();
        }
        if (c == "CtorValue")
        {
            int k = K("k"); need(k, false);
            int val = (int)a.num("val");
            const std::string &ak = a.str("ak"), &form = a.str("form");
            with_alt((int)a.num("alt"), [&](auto A) {
                constexpr int I = decltype(A)::value;
                using T = typename alt_type<I>::type;
                if (ak == "ilist") { ctor_ilist(k, form, val, fuse, A); return 0; }
                with_source<I>(ak, val, [&](auto&& src) {
                    using S = decltype(src);
                    Arm arm(fuse);
                    if (form == "conv") new (g_store[k].b) V(std::forward<S>(src));
                    else if (form == "index") new (g_store[k].b) V(mpark::in_place_index_t<I>{}, std::forward<S>(src));
                    else if (form == "type") new (g_store[k].b) V(mpark::in_place_type_t<T>{}, std::forward<S>(src));
                    else bad_script("form");
                });
                return 0;
            });
            g_present[k] = true;
            return ok();
        }
        if (c == "CtorCopy" || c == "CtorMove")
        {
            int k = K("k"), o = K("o"); need(k, false); need(o, true);
            if (k == o) bad_script("precondition: k # o");
            {
                Arm arm(fuse);
                if (c == "CtorCopy") new (g_store[k].b) V(static_cast<const V&>(vr(o)));
                else new (g_store[k].b) V(std::move(vr(o)));
            }
            g_present[k] = true;
            return ok();
        }
        if (c == "Destroy")
        {
            int k = K("k"); need(k, true);
            g_present[k] = false;
            vr(k).~V();
            return ok();
        }
        if (c == "Emplace")
        {
            int k = K("k"); need(k, true);
            int val = (int)a.num("val");
            const std::string &ak = a.str("ak"), &form = a.str("form");
            std::string r;
            with_alt((int)a.num("alt"), [&](auto A) {
                constexpr int I = decltype(A)::value;
                using T = typename alt_type<I>::type;
                if (ak == "ilist") { r = emplace_ilist(k, form, val, fuse, A); return 0; }
                with_source<I>(ak, val, [&](auto&& src) {
                    using S = decltype(src);
                    Arm arm(fuse);
                    T& ref = form == "index" ? vr(k).template emplace<I>(std::forward<S>(src)) : vr(k).template emplace<T>(std::forward<S>(src));
                    r = refval(ref);
                });
                return 0;
            });
            return ok(r);
        }
        if (c == "ConvAssign")
        {
            int k = K("k"); need(k, true);
            int val = (int)a.num("val");
            const std::string& ak = a.str("ak");
            with_alt((int)a.num("alt"), [&](auto A) {
                constexpr int I = decltype(A)::value;
                with_source<I>(ak, val, [&](auto&& src) {
                    using S = decltype(src);
                    Arm arm(fuse);
                    V& r = (vr(k) = std::forward<S>(src));
                    if (&r != &vr(k)) bad_script("operator= did not return *this");
                });
                return 0;
            });
            return ok();
        }
        if (c == "CopyAssign" || c == "MoveAssign")
        {
            int k = K("k"), o = K("o"); need(k, true); need(o, true);
            if (c == "MoveAssign" && k == o) bad_script("precondition: self move assignment");
            Arm arm(fuse);
            if (c == "CopyAssign") vr(k) = static_cast<const V&>(vr(o));
            else vr(k) = std::move(vr(o));
            return ok();
        }
        if (c == "Swap")
        {
            int k = K("k"), o = K("o"); need(k, true); need(o, true);
            Arm arm(fuse);
            if (a.str("form") == "member") vr(k).swap(vr(o));
            else { using std::swap; swap(vr(k), vr(o)); }
            return ok();
        }
        // ---- observers
        if (c == "Get" || c == "XGet")
        {
            int k = K("k"); need(k, true);
            const std::string& ref = a.str("ref");
            bool bytype = c == "XGet" || a.str("form") == "type";
            bool x = c == "XGet";
            std::string r;
            with_alt((int)a.num("alt"), [&](auto A) {
                constexpr int I = decltype(A)::value;
                using T = typename alt_type<I>::type;
                V& m = vr(k);
                const V& cv = vr(k);
                if (x)
                {
                    if (ref == "l") r = refval(xtl::xget<T>(m));
                    else if (ref == "cl") r = refval(xtl::xget<T>(cv));
                    else if (ref == "r") { T&& q = xtl::xget<T>(std::move(m)); r = refval(q); }
                    else { const T&& q = xtl::xget<T>(std::move(cv)); r = refval(q); }
                }
                else if (bytype)
                {
                    if (ref == "l") { T& q = xtl::get<T>(m); r = refval(q); }
                    else if (ref == "cl") { const T& q = xtl::get<T>(cv); r = refval(q); }
                    else if (ref == "r") { T&& q = xtl::get<T>(std::move(m)); r = refval(q); }
                    else { const T&& q = xtl::get<T>(std::move(cv)); r = refval(q); }
                }
                else
                {
                    if (ref == "l") { T& q = xtl::get<I>(m); r = refval(q); }
                    else if (ref == "cl") { const T& q = xtl::get<I>(cv); r = refval(q); }
                    else if (ref == "r") { T&& q = xtl::get<I>(std::move(m)); r = refval(q); }
                    else { const T&& q = xtl::get<I>(std::move(cv)); r = refval(q); }
                }
                return 0;
            });
            return ok(r);
        }
        if (c == "GetIf")
        {
            bool null = a.num("null") != 0;
            int k = K("k");
            if (!null) need(k, true);
            bool cst = a.num("c") != 0, bytype = a.str("form") == "type";
            std::string r;
            with_alt((int)a.num("alt"), [&](auto A) {
                constexpr int I = decltype(A)::value;
                using T = typename alt_type<I>::type;
                V* m = null ? nullptr : &vr(k);
                const V* cv = m;
                const T* p = bytype ? (cst ? xtl::get_if<T>(cv) : xtl::get_if<T>(m)) : (cst ? xtl::get_if<I>(cv) : xtl::get_if<I>(m));
                vj::out o;
                o.kb("nonnull", p != nullptr).kv("id", p ? oid_of(*p) : 0).kv("val", p ? val_of(*p) : 0);
                r = o.obj();
                return 0;
            });
            return ok(r);
        }
        if (c == "Rel")
        {
            int k = K("k"), o = K("o"); need(k, true); need(o, true);
            const V& x = vr(k);
            const V& y = vr(o);
            const std::string& rel = a.str("rel");
            bool b;
            if (rel == "eq") b = x == y;
            else if (rel == "ne") b = x != y;
            else if (rel == "lt") b = x < y;
            else if (rel == "gt") b = x > y;
            else if (rel == "le") b = x <= y;
            else if (rel == "ge") b = x >= y;
            else bad_script("rel");
            vj::out out; out.kb("b", b);
            return ok(out.obj());
        }
        if (c == "Visit")
        {
            auto ks = a.ints("ks");
            for (auto k : ks) { if (k < 1 || k > 2) bad_script("variant number"); need((int)k - 1, true); }
            return a.num("c") != 0 ? do_visit<const V>(ks) : do_visit<V>(ks);
        }
        if (c == "XRef") return do_xref(a);
        bad_script(("unknown call " + c).c_str());
    }


    // C++ preconditions of a call (which variant object exists).  A script line whose precondition does
    // not hold is skipped without a trace: generators only guess whether a constructor threw.
    bool callable(const std::string& c, const vj::value& a)
    {
        auto P = [&](const char* key) -> int {
            long long k = a.num(key);
            if (k < 1 || k > 2) bad_script("variant number");
            return g_present[k - 1] ? 1 : 0;
        };
        if (c == "CtorDefault" || c == "CtorValue") return !P("k");
        if (c == "CtorCopy" || c == "CtorMove") return a.num("k") != a.num("o") && !P("k") && P("o");
        if (c == "Destroy" || c == "Emplace" || c == "ConvAssign" || c == "Get" || c == "XGet") return P("k");
        if (c == "CopyAssign" || c == "Swap" || c == "Rel") return P("k") && P("o");
        if (c == "MoveAssign") return a.num("k") != a.num("o") && P("k") && P("o");
        if (c == "GetIf") return a.num("null") != 0 || P("k");
        if (c == "Visit")
        {
            for (auto k : a.ints("ks")) { if (k < 1 || k > 2) bad_script("variant number"); if (!g_present[k - 1]) return false; }
            return true;
        }
        return c == "XRef";
    }

    void reset()
    {
        for (int k = 0; k < 2; ++k)
            if (g_present[k]) { g_present[k] = false; vr(k).~V(); }
        g_at.clear();
        g_next_id = 0;
    }
}

int main()
{
    vj::install_crash_handlers();
    std::string line;
    while (std::getline(std::cin, line))
    {
        if (line.empty()) continue;
        vj::value ev = vj::parse(line);
        const std::string& op = ev.str("op");
        if (op == "Reset")
        {
            // objects of the previous execution are destroyed silently: every End event has already
            // reported what was alive, so a leak was visible to the spec before this point
            g_quiet = true;
            reset();
            g_quiet = false;
            std::printf("%s\n", line.c_str());
            continue;
        }
        if (op != "Begin") { std::fprintf(stderr, "script: unknown op %s\n", op.c_str()); return 3; }
        const std::string& c = ev.str("c");
        int fuse = (int)ev.num("fuse", 0);
        if (!callable(c, ev.at("a"))) continue;
        std::printf("%s\n", line.c_str());
        std::string res;
        try { res = perform(c, ev.at("a"), fuse); }
        catch (const Injected&) { res = exc("injected"); }
        catch (const xtl::bad_variant_access&) { res = exc("bad_variant_access"); }
        catch (...) { res = exc("other"); }
        g_armed = false;
        std::printf("{\"op\":\"End\",\"res\":%s,\"st\":[%s,%s],\"live\":%d}\n", res.c_str(), proj(0).c_str(), proj(1).c_str(), (int)g_at.size());
    }
    std::fflush(stdout);
    return 0;
}

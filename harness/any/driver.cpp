// C06 conformance driver for xtl::any (include/xtl/xany.hpp).
//
// Reads a script (ndjson, one public call per line: {"op":..,"k":..,"a":{..}}) on stdin, performs
// the call on real xtl::any objects and prints the same line extended with
//   "ev"  : the element events (payload constructor / destructor / assignment / injected throw)
//           that happened during the call, in order, each with the payload object's id,
//   "res" : what the call returned or threw,
//   "st"  : what the observers say about each of the five any objects after the call,
//   "spc" : for every shared_ptr control block the driver handed out, how many owners other than the
//           driver itself exist (use_count() - 1) - a lifetime observable for payloads without events.
// There is no oracle in here: the driver executes and prints.  specs/Any.tla decides.
//
// * Five any objects live in raw aligned storage; construction and destruction are explicit calls.
// * Instrumented ("tracked") payload types, numbered in construction order by a registry keyed on address:
//     Small (16 bytes, nothrow move, throwing copy: in place), Big (24 bytes: heap),
//     STM (16 bytes, move constructor may throw: heap), NC (16 bytes, nothrow copy and move: in place).
// * Payload types without events ("untracked"): int, std::string, const char* (also from array decay),
//   int(*)(int) (also from function decay), std::shared_ptr<int>, Ov (16 bytes, alignas(16)),
//   Box (a struct holding an xtl::any holding a shared_ptr<int>: any inside any).
// * A global countdown fuse makes the n-th throwing-capable payload constructor of a call throw
//   (copy constructors of Small/Big/STM, move constructor of STM).
// * A call that crashes (signal, sanitizer report, std::terminate) or does not return within the CPU limit
//   closes the trace with CrashIn/Crash lines and ends the process; the runner restarts the driver on the
//   remaining executions.  Build flavours (macros of xany.hpp, compiler, optimisation) are chosen by the runner
//   and named in every Reset line.
#include <cstdio>
#include "xtl/xany.hpp"
#if C06_HAVE_XTYPES
// neighbouring components as payloads (round 3); only when the runner's probe found that these headers compile in this build
#include "xtl/xvariant.hpp"
#include "xtl/xbasic_fixed_string.hpp"
#include "xtl/xoptional.hpp"
#endif
#include "vjson.hpp"

#include <iostream>
#include <map>
#include <memory>
#include <new>
#include <set>
#include <string>
#include <typeinfo>
#include <utility>
#include <vector>
#include <cstdlib>
#include <sys/time.h>

// ------------------------------------------------------------------ replaced global operator new / delete (round 3)
// Counts, and can be made to fail: while the library is executing one of the allocating calls (g_lib != 0) the
// g_afuse-th allocation throws std::bad_alloc.  Allocations made in that window and not yet released are kept in a small
// table: "heap" in every trace line is their number (storage the library - or a payload's own copy constructor -
// obtained for contained objects).  The driver's own bookkeeping inside payload callbacks suspends the window (hush).
namespace c06mem
{
    int g_lib = 0;          // inside the library's part of an allocating call
    int g_afuse = 0;        // 0 = disarmed; n > 0: the n-th allocation inside the window fails
    long g_failed = 0;
    const int NLIB = 512;
    void* LIBP[NLIB];
    int nlib = 0;
    bool overflow = false;

    inline void* get(std::size_t n, std::size_t al)
    {
        bool in = g_lib != 0;
        if (in && g_afuse > 0 && --g_afuse == 0)
        {
            ++g_failed;
            throw std::bad_alloc();
        }
        void* p = nullptr;
        if (al <= alignof(std::max_align_t)) p = std::malloc(n ? n : 1);
        else if (posix_memalign(&p, al, n ? n : 1) != 0) p = nullptr;
        if (!p) throw std::bad_alloc();
        if (in)
        {
            if (nlib < NLIB) LIBP[nlib++] = p;
            else overflow = true;
        }
        return p;
    }
    inline void put(void* p) noexcept
    {
        if (!p) return;
        for (int i = nlib - 1; i >= 0; --i)
            if (LIBP[i] == p)
            {
                LIBP[i] = LIBP[--nlib];
                break;
            }
        std::free(p);
    }
    struct hush      // the driver's own code inside a library call
    {
        int s;
        hush() : s(g_lib) { g_lib = 0; }
        ~hush() { g_lib = s; }
    };
    struct lib_scope
    {
        lib_scope() { g_lib = 1; }
        ~lib_scope() { g_lib = 0; }
    };
}
void* operator new(std::size_t n) { return c06mem::get(n, 1); }
void* operator new[](std::size_t n) { return c06mem::get(n, 1); }
void* operator new(std::size_t n, const std::nothrow_t&) noexcept { try { return c06mem::get(n, 1); } catch (...) { return nullptr; } }
void* operator new[](std::size_t n, const std::nothrow_t&) noexcept { try { return c06mem::get(n, 1); } catch (...) { return nullptr; } }
void operator delete(void* p) noexcept { c06mem::put(p); }
void operator delete[](void* p) noexcept { c06mem::put(p); }
void operator delete(void* p, std::size_t) noexcept { c06mem::put(p); }
void operator delete[](void* p, std::size_t) noexcept { c06mem::put(p); }
void operator delete(void* p, const std::nothrow_t&) noexcept { c06mem::put(p); }
void operator delete[](void* p, const std::nothrow_t&) noexcept { c06mem::put(p); }
#if defined(__cpp_aligned_new)
void* operator new(std::size_t n, std::align_val_t a) { return c06mem::get(n, static_cast<std::size_t>(a)); }
void* operator new[](std::size_t n, std::align_val_t a) { return c06mem::get(n, static_cast<std::size_t>(a)); }
void operator delete(void* p, std::align_val_t) noexcept { c06mem::put(p); }
void operator delete[](void* p, std::align_val_t) noexcept { c06mem::put(p); }
void operator delete(void* p, std::size_t, std::align_val_t) noexcept { c06mem::put(p); }
void operator delete[](void* p, std::size_t, std::align_val_t) noexcept { c06mem::put(p); }
#endif

#ifndef C06_FLAVOUR
#define C06_FLAVOUR "std"
#endif
#ifndef C06_HAVE_XTYPES
#define C06_HAVE_XTYPES 0
#endif
#ifdef ANY_IMPL_ANY_CAST_MOVEABLE
#define C06_MOV 1
#else
#define C06_MOV 0
#endif
// call forms on which the two published specifications of any_cast differ: the runner probes whether they compile in this build
#ifndef C06_HAVE_LR
#define C06_HAVE_LR 0      // any_cast<U&>(any&&)
#endif
#ifndef C06_HAVE_XR
#define C06_HAVE_XR 0      // any_cast<U&&>(any&&)
#endif
#ifndef C06_HAVE_CXR
#define C06_HAVE_CXR 0     // any_cast<const U&&>(any&&)
#endif
#ifdef XTL_NO_EXCEPTIONS
#define C06_NOEXC 1
#else
#define C06_NOEXC 0
#endif

namespace
{
    const long long MOVED = -1;    // value a payload object has after being moved from
    const long long UNREAD = -9;   // the driver refused to read a destroyed object / the object is not what it should be

    const long long WILD = -8;     // a value that does not fit the trace format (TLC integers are 32 bit): some wild read
    long long clamp(long long v) { return (v > 2147483647LL || v < -2147483647LL) ? WILD : v; }

    struct fuse_error
    {
    };

    // The script asked for a call whose C++ precondition does not hold in this process (e.g. an operation on a
    // slot that holds no any object because an earlier constructor call ended differently from what the
    // script's author assumed).  The call is not performed; the rest of the execution is skipped.
    struct desync
    {
        std::string what;
    };

    struct registry
    {
        std::map<const void*, int> at;   // address -> id of the object most recently constructed there
        std::set<int> live;
        int next = 1;

        int id_at(const void* p) const
        {
            auto it = at.find(p);
            return it == at.end() ? 0 : it->second;
        }
        bool live_at(const void* p) const
        {
            int id = id_at(p);
            return id != 0 && live.count(id) != 0;
        }
        int born(const void* p)
        {
            int id = next++;
            at[p] = id;
            live.insert(id);
            return id;
        }
    };

    registry R;
    int g_fuse = 0;             // 0 = disarmed; n > 0: the n-th throwing-capable constructor throws
    std::string g_ev;           // element events of the current call (JSON array body)
    std::string g_call;         // the call being executed (for the crash line)
    std::string g_op;
    int g_k = 0;
    std::string g_args;
    volatile unsigned long g_callno = 0, g_seen = ~0ul;
    volatile bool g_incall = false;

    void ev(const char* e, int id, const char* t, const char* kind, int src, long long v)
    {
        c06mem::hush quiet;
        if (!g_ev.empty()) g_ev += ',';
        g_ev += "{\"e\":\"";
        g_ev += e;
        g_ev += "\",\"id\":" + std::to_string(id) + ",\"t\":\"" + t + "\",\"kind\":\"" + kind + "\",\"src\":" + std::to_string(src)
                + ",\"v\":" + std::to_string(clamp(v)) + "}";
    }

    struct mk
    {
    };

    template <int TAG>
    struct tname;
    template <>
    struct tname<0>
    {
        static const char* get() { return "Small"; }
    };
    template <>
    struct tname<1>
    {
        static const char* get() { return "Big"; }
    };
    template <>
    struct tname<2>
    {
        static const char* get() { return "STM"; }
    };
    template <>
    struct tname<3>
    {
        static const char* get() { return "NC"; }
    };

    template <int TAG, int WORDS, bool NX, bool NXC>
    struct payload
    {
        long long val;
        long long pad[WORDS - 1];

        static const char* name() { return tname<TAG>::get(); }

        static void trip(const char* kind, int src)
        {
            c06mem::hush quiet;
            if (g_fuse > 0 && --g_fuse == 0)
            {
                ev("throw", 0, name(), kind, src, 0);
                throw fuse_error();
            }
        }

        payload(int v, mk)
            : val(v)
        {
            c06mem::hush quiet;
            for (int i = 0; i < WORDS - 1; ++i) pad[i] = 0x5a5a5a5a;
            int id = R.born(this);
            ev("ctor", id, name(), "value", 0, val);
        }

        payload(const payload& o) noexcept(NXC)
        {
            c06mem::hush quiet;
            int sid = R.id_at(&o);
            bool sl = R.live_at(&o);
            if (!NXC) trip("copy", sid);
            val = sl ? o.val : UNREAD;
            for (int i = 0; i < WORDS - 1; ++i) pad[i] = 0x5a5a5a5a;
            int id = R.born(this);
            ev("ctor", id, name(), "copy", sid, val);
        }

        payload(payload&& o) noexcept(NX)
        {
            c06mem::hush quiet;
            int sid = R.id_at(&o);
            bool sl = R.live_at(&o);
            if (!NX) trip("move", sid);
            val = sl ? o.val : UNREAD;
            if (sl) o.val = MOVED;
            for (int i = 0; i < WORDS - 1; ++i) pad[i] = 0x5a5a5a5a;
            int id = R.born(this);
            ev("ctor", id, name(), "move", sid, val);
        }

        payload& operator=(const payload& o)
        {
            c06mem::hush quiet;
            int did = R.id_at(this), sid = R.id_at(&o);
            if (R.live_at(this) && R.live_at(&o)) val = o.val;
            ev("assign", did, name(), "copy", sid, val);
            return *this;
        }

        payload& operator=(payload&& o) noexcept
        {
            c06mem::hush quiet;
            int did = R.id_at(this), sid = R.id_at(&o);
            if (R.live_at(this) && R.live_at(&o))
            {
                long long v = o.val;
                if (this != &o) o.val = MOVED;
                val = v;
            }
            ev("assign", did, name(), "move", sid, val);
            return *this;
        }

        ~payload()
        {
            c06mem::hush quiet;
            int id = R.id_at(this);
            // a destructor call on something that is not a live object is logged with the id last
            // seen at this address (0 if none); the spec rejects it
            ev("dtor", id, name(), "", 0, 0);
            R.live.erase(id);
        }

        void set(long long v)
        {
            c06mem::hush quiet;
            int id = R.id_at(this);
            val = v;
            ev("set", id, name(), "", 0, v);
        }
    };

    using Small = payload<0, 2, true, false>;
    using Big = payload<1, 3, true, false>;
    using STM = payload<2, 2, false, false>;
    using NC = payload<3, 2, true, true>;

    struct alignas(16) Ov
    {
        long long v;
        long long pad;
    };

    // over-aligned beyond alignof(max_align_t): must not be stored in place; whether plain `new T` honours the alignment is up to
    // the language level of the build (C++17: yes; C++14: not guaranteed) - the full alignment is reported as "xal" (advisory)
    struct alignas(32) Ov32
    {
        long long v;
        long long pad[3];
    };
    struct alignas(64) Ov64
    {
        long long v;
        long long pad[7];
    };
    // byte-aligned payloads on both sides of the two-word threshold: 16 bytes (fits) and 17 bytes (one byte too many)
    template <int N>
    struct bytes_t
    {
        unsigned char b[N];
    };
    using P16 = bytes_t<16>;
    using P17 = bytes_t<17>;
    template <int N>
    void put_bytes(bytes_t<N>& x, long long v)
    {
        unsigned long long u = static_cast<unsigned long long>(v);
        for (int i = 0; i < 8; ++i) x.b[i] = static_cast<unsigned char>(u >> (8 * i));
        for (int i = 8; i < N; ++i) x.b[i] = static_cast<unsigned char>(0xa0 + i);
    }
    template <int N>
    long long get_bytes(const bytes_t<N>& x)
    {
        for (int i = 8; i < N; ++i)
            if (x.b[i] != static_cast<unsigned char>(0xa0 + i)) return UNREAD;
        unsigned long long u = 0;
        for (int i = 0; i < 8; ++i) u |= static_cast<unsigned long long>(x.b[i]) << (8 * i);
        return static_cast<long long>(u);
    }
#if C06_HAVE_XTYPES
    using Var = xtl::variant<int, std::string>;
    using Fs = xtl::xfixed_string<23>;
    using Opt = xtl::xoptional<int, bool>;
#endif

    struct Box      // any inside any (xtl::any cannot be nested directly: its converting constructor excludes any itself)
    {
        xtl::any in;
    };

    using Fn = int (*)(int);
    using CStr = const char*;
    using Sp = std::shared_ptr<int>;
    using Str = std::string;

    // facts about the payload types the property's classes rest on (about the fixtures, not about xtl)
    const size_t W = sizeof(void*);
    static_assert(sizeof(Small) == 2 * W, "Small sits exactly on the in-place threshold");
    static_assert(sizeof(Big) == 3 * W, "Big is the smallest size above the threshold");
    static_assert(sizeof(STM) == sizeof(Small), "STM differs from Small only by its throwing move");
    static_assert(sizeof(NC) == sizeof(Small), "NC differs from Small only by its non-throwing copy");
    static_assert(std::is_nothrow_move_constructible<Small>::value && !std::is_nothrow_copy_constructible<Small>::value,
                  "Small: nothrow move, throwing copy (is_nothrow_move_constructible<const Small> is false)");
    static_assert(!std::is_nothrow_move_constructible<const Small>::value, "a const Small rvalue binds to the throwing copy constructor");
    static_assert(std::is_nothrow_move_constructible<Big>::value, "");
    static_assert(!std::is_nothrow_move_constructible<STM>::value, "");
    static_assert(std::is_nothrow_move_constructible<NC>::value && std::is_nothrow_copy_constructible<NC>::value, "NC: nothrow copy and move");
    static_assert(alignof(Small) <= alignof(void*) && alignof(NC) <= alignof(void*), "");
    static_assert(sizeof(Ov) == 2 * W && alignof(Ov) == 16 && alignof(Ov) > alignof(void*) && alignof(Ov) <= alignof(std::max_align_t),
                  "Ov: fits by size, not by alignment; plain new is sufficient for it");
    static_assert(alignof(Ov32) == 32 && alignof(Ov64) == 64 && alignof(Ov32) > alignof(std::max_align_t), "over-aligned beyond max_align_t");
    static_assert(sizeof(P16) == 2 * W && alignof(P16) == 1 && sizeof(P17) == 2 * W + 1 && alignof(P17) == 1, "byte-aligned, exactly at / one byte above the threshold");
    static_assert(std::is_nothrow_move_constructible<P16>::value && std::is_nothrow_move_constructible<P17>::value, "");
    static_assert(sizeof(Sp) == 2 * W && std::is_nothrow_move_constructible<Sp>::value && alignof(Sp) <= alignof(void*), "shared_ptr: exactly two words");
    static_assert(sizeof(Str) > 2 * W && std::is_nothrow_move_constructible<Str>::value, "std::string: too large");
    static_assert(sizeof(int) < 2 * W && sizeof(CStr) < 2 * W && sizeof(Fn) < 2 * W, "");

    // ------------------------------------------------------------------ untracked fixtures
    const char CPOOL[8][4] = {"ab0", "ab1", "ab2", "ab3", "ab4", "ab5", "ab6", "ab7"};
    int fn0(int x) { return x + 0; }
    int fn1(int x) { return x + 1; }
    int fn2(int x) { return x + 2; }
    int fn3(int x) { return x + 3; }
    const Fn FPOOL[4] = {fn0, fn1, fn2, fn3};

    std::map<int, Sp> G_SP;   // the driver's own owner of every control block
    Sp master(int v)
    {
        auto it = G_SP.find(v);
        if (it == G_SP.end()) it = G_SP.emplace(v, std::make_shared<int>(v)).first;
        return it->second;
    }

    std::string mkstr(long long v)
    {
        std::string s = "s" + std::to_string(v);
        if (v % 2) s += std::string(30, 'x');    // odd values: beyond the small-string buffer
        return s;
    }
    long long rdstr(const std::string& s)
    {
        if (s.empty()) return MOVED;
        if (s[0] != 's') return UNREAD;
        size_t i = 1;
        long long v = 0;
        bool neg = false;
        if (i < s.size() && s[i] == '-') { neg = true; ++i; }
        size_t d0 = i;
        while (i < s.size() && s[i] >= '0' && s[i] <= '9') v = v * 10 + (s[i++] - '0');
        if (i == d0) return UNREAD;
        if (neg) v = -v;
        return s == mkstr(v) ? v : UNREAD;
    }

    [[noreturn]] void script_error(const std::string& m)
    {
        std::fprintf(stderr, "script error: %s in %s\n", m.c_str(), g_call.c_str());
        std::exit(3);
    }

    // per type: name, whether it has element events, the caller's value, reading and writing a value
    template <class U>
    struct tt;

#define TRACKED_TT(U)                                                                   \
    template <>                                                                         \
    struct tt<U>                                                                        \
    {                                                                                   \
        static const bool tracked = true;                                               \
        static const char* name() { return U::name(); }                                 \
        struct arg                                                                      \
        {                                                                               \
            U x;                                                                        \
            explicit arg(int v) : x(v, mk()) {}                                         \
        };                                                                              \
        static long long read(const U& u) { return R.live_at(&u) ? u.val : UNREAD; }    \
        static void write(U& u, int v) { u.set(v); }                                    \
    };
    TRACKED_TT(Small)
    TRACKED_TT(Big)
    TRACKED_TT(STM)
    TRACKED_TT(NC)

    template <>
    struct tt<int>
    {
        static const bool tracked = false;
        static const char* name() { return "Int"; }
        struct arg
        {
            int x;
            explicit arg(int v) : x(v) {}
        };
        static long long read(const int& u) { return u; }
        static void write(int& u, int v) { u = v; }
    };
    template <>
    struct tt<Str>
    {
        static const bool tracked = false;
        static const char* name() { return "Str"; }
        struct arg
        {
            Str x;
            explicit arg(int v) : x(mkstr(v)) {}
        };
        static long long read(const Str& u) { return rdstr(u); }
        static void write(Str& u, int v) { u = mkstr(v); }
    };
    template <>
    struct tt<CStr>
    {
        static const bool tracked = false;
        static const char* name() { return "CStr"; }
        static CStr pool(int v)
        {
            if (v < 0 || v >= 8) script_error("CStr value outside the pool");
            return CPOOL[v];
        }
        struct arg
        {
            CStr x;
            explicit arg(int v) : x(pool(v)) {}
        };
        static long long read(const CStr& u)
        {
            for (int i = 0; i < 8; ++i)
                if (u == CPOOL[i]) return i;
            return UNREAD;
        }
        static void write(CStr& u, int v) { u = pool(v); }
    };
    template <>
    struct tt<Fn>
    {
        static const bool tracked = false;
        static const char* name() { return "Fn"; }
        static Fn pool(int v)
        {
            if (v < 0 || v >= 4) script_error("Fn value outside the pool");
            return FPOOL[v];
        }
        struct arg
        {
            Fn x;
            explicit arg(int v) : x(pool(v)) {}
        };
        static long long read(const Fn& u)
        {
            for (int i = 0; i < 4; ++i)
                if (u == FPOOL[i]) return (u(40) == 40 + i) ? i : UNREAD;
            return UNREAD;
        }
        static void write(Fn& u, int v) { u = pool(v); }
    };
    template <>
    struct tt<Sp>
    {
        static const bool tracked = false;
        static const char* name() { return "Sp"; }
        struct arg
        {
            Sp x;
            explicit arg(int v) : x(master(v)) {}
        };
        static long long read(const Sp& u) { return u ? static_cast<long long>(*u) : MOVED; }
        static void write(Sp& u, int v) { u = master(v); }
    };
    template <>
    struct tt<Ov>
    {
        static const bool tracked = false;
        static const char* name() { return "Ov"; }
        struct arg
        {
            Ov x;
            explicit arg(int v) { x.v = v; x.pad = 0x5a5a5a5a; }
        };
        static long long read(const Ov& u) { return u.pad == 0x5a5a5a5a ? u.v : UNREAD; }
        static void write(Ov& u, int v) { u.v = v; }
    };
    template <>
    struct tt<Ov32>
    {
        static const bool tracked = false;
        static const char* name() { return "Ov32"; }
        struct arg
        {
            Ov32 x;
            explicit arg(int v) { x.v = v; for (int i = 0; i < 3; ++i) x.pad[i] = 0x5a5a5a5a + i; }
        };
        static long long read(const Ov32& u) { return (u.pad[0] == 0x5a5a5a5a && u.pad[2] == 0x5a5a5a5a + 2) ? u.v : UNREAD; }
        static void write(Ov32& u, int v) { u.v = v; }
    };
    template <>
    struct tt<Ov64>
    {
        static const bool tracked = false;
        static const char* name() { return "Ov64"; }
        struct arg
        {
            Ov64 x;
            explicit arg(int v) { x.v = v; for (int i = 0; i < 7; ++i) x.pad[i] = 0x5a5a5a5a + i; }
        };
        static long long read(const Ov64& u) { return (u.pad[0] == 0x5a5a5a5a && u.pad[6] == 0x5a5a5a5a + 6) ? u.v : UNREAD; }
        static void write(Ov64& u, int v) { u.v = v; }
    };
    template <>
    struct tt<P16>
    {
        static const bool tracked = false;
        static const char* name() { return "P16"; }
        struct arg
        {
            P16 x;
            explicit arg(int v) { put_bytes(x, v); }
        };
        static long long read(const P16& u) { return get_bytes(u); }
        static void write(P16& u, int v) { put_bytes(u, v); }
    };
    template <>
    struct tt<P17>
    {
        static const bool tracked = false;
        static const char* name() { return "P17"; }
        struct arg
        {
            P17 x;
            explicit arg(int v) { put_bytes(x, v); }
        };
        static long long read(const P17& u) { return get_bytes(u); }
        static void write(P17& u, int v) { put_bytes(u, v); }
    };
#if C06_HAVE_XTYPES
    // a variant: even values are stored as the int alternative, odd ones as the string alternative
    template <>
    struct tt<Var>
    {
        static const bool tracked = false;
        static const char* name() { return "Var"; }
        static Var make(int v) { return (v % 2 == 0) ? Var(v) : Var(mkstr(v)); }
        struct arg
        {
            Var x;
            explicit arg(int v) : x(make(v)) {}
        };
        static long long read(const Var& u)
        {
            if (u.valueless_by_exception()) return UNREAD;
            if (u.index() == 0) { int v = xtl::get<0>(u); return (v % 2 == 0) ? v : UNREAD; }
            long long v = rdstr(xtl::get<1>(u));
            return (v == MOVED || (v != UNREAD && v % 2 != 0)) ? v : UNREAD;
        }
        static void write(Var& u, int v) { u = make(v); }
    };
    template <>
    struct tt<Fs>
    {
        static const bool tracked = false;
        static const char* name() { return "Fs"; }
        static Fs make(int v) { return Fs(("s" + std::to_string(v)).c_str()); }
        struct arg
        {
            Fs x;
            explicit arg(int v) : x(make(v)) {}
        };
        static long long read(const Fs& u)
        {
            std::string s(u.c_str(), u.size());
            if (s.size() < 2 || s[0] != 's' || std::strlen(u.c_str()) != u.size()) return UNREAD;
            long long v = std::atoll(s.c_str() + 1);
            return s == "s" + std::to_string(v) ? v : UNREAD;
        }
        static void write(Fs& u, int v) { u = make(v); }
    };
    // an optional: values divisible by three are stored as missing (the value stays readable through value())
    template <>
    struct tt<Opt>
    {
        static const bool tracked = false;
        static const char* name() { return "Opt"; }
        static Opt make(int v) { return Opt(int(v), bool(v % 3 != 0)); }
        struct arg
        {
            Opt x;
            explicit arg(int v) : x(make(v)) {}
        };
        static long long read(const Opt& u) { return u.has_value() == (u.value() % 3 != 0) ? u.value() : UNREAD; }
        static void write(Opt& u, int v) { u = make(v); }
    };
#endif
    template <>
    struct tt<Box>
    {
        static const bool tracked = false;
        static const char* name() { return "Nest"; }
        struct arg
        {
            Box x;
            explicit arg(int v) : x{xtl::any(master(v))} {}
        };
        static long long read(const Box& u)
        {
            if (!u.in.has_value()) return MOVED;
            const Sp* p = xtl::any_cast<Sp>(&u.in);
            return p ? tt<Sp>::read(*p) : UNREAD;
        }
        static void write(Box& u, int v) { u.in = master(v); }
    };
    // cast targets that are never the type of a stored object
    template <>
    struct tt<char*>
    {
        static const bool tracked = false;
        static const char* name() { return "CharP"; }
        static long long read(char* const&) { return UNREAD; }
    };
    template <>
    struct tt<xtl::any>
    {
        static const bool tracked = false;
        static const char* name() { return "AnyT"; }
        static long long read(const xtl::any&) { return UNREAD; }
    };

    // ------------------------------------------------------------------ the objects under test
    const int NA = 5;
    struct slots_t
    {
        alignas(16) unsigned char mem[NA][sizeof(xtl::any) + 16];
    } S;
    bool C[NA] = {false, false, false, false, false};   // constructed (driver's own bookkeeping of what it called)

    void* slot(int k) { return static_cast<void*>(S.mem[k]); }
    xtl::any& A(int k) { return *reinterpret_cast<xtl::any*>(S.mem[k]); }

    std::map<const void*, int> LOC;     // addresses of untracked payload objects, numbered per execution
    int loc_of(const void* p)
    {
        if (!p) return 0;
        auto it = LOC.find(p);
        if (it == LOC.end()) it = LOC.emplace(p, int(LOC.size()) + 1).first;
        return it->second;
    }

#if C06_HAVE_XTYPES
#define FOR_XTYPES(X) X(Var) X(Fs) X(Opt)
#else
#define FOR_XTYPES(X)
#endif
#define FOR_STORED(X) X(Small) X(Big) X(STM) X(NC) X(int) X(Str) X(CStr) X(Fn) X(Sp) X(Ov) X(Box) X(Ov32) X(Ov64) X(P16) X(P17) FOR_XTYPES(X)

    const char* type_name(const std::type_info& ti)
    {
        if (ti == typeid(void)) return "void";
#define TN(U) if (ti == typeid(U)) return tt<U>::name();
        FOR_STORED(TN)
#undef TN
        if (ti == typeid(char*)) return "CharP";
        if (ti == typeid(xtl::any)) return "AnyT";
        if (ti == typeid(char[4]) || ti == typeid(const char[4])) return "Arr";
        return "?";
    }

    struct seen_t
    {
        const void* p = nullptr;
        long long v = 0;
        int id = 0;
        bool al = true;
        bool xal = true;
        bool tracked = false;
        std::string hits, hitm;
    };

    template <class U>
    void look(const xtl::any& a, xtl::any& m, seen_t& s)
    {
        const U* q = xtl::any_cast<U>(&a);          // route 1: const any*
        U* qm = xtl::any_cast<U>(&m);               // route 2: any*
        if (q)
        {
            if (!s.hits.empty()) s.hits += ',';
            s.hits += std::string("\"") + tt<U>::name() + "\"";
            if (!s.p)
            {
                s.p = q;
                s.tracked = tt<U>::tracked;
                const uintptr_t addr = reinterpret_cast<uintptr_t>(static_cast<const void*>(q));
                s.al = (addr % (alignof(U) <= alignof(std::max_align_t) ? alignof(U) : alignof(std::max_align_t))) == 0;
                s.xal = (addr % alignof(U)) == 0;
                s.id = tt<U>::tracked ? R.id_at(q) : 0;
                s.v = tt<U>::read(*q);
            }
        }
        if (qm)
        {
            if (!s.hitm.empty()) s.hitm += ',';
            s.hitm += std::string("\"") + tt<U>::name() + "\"";
            if (static_cast<const void*>(qm) != static_cast<const void*>(q)) s.hitm += ",\"!other-address\"";
        }
    }

    std::string proj(int k)
    {
        vj::out o;
        if (!C[k])
        {
            o.kv("c", 0);
            return o.obj();
        }
        const xtl::any& a = A(k);
        seen_t s;
#define LK(U) look<U>(a, A(k), s);
        FOR_STORED(LK)
        LK(char*)
        LK(xtl::any)
#undef LK
        const unsigned char* b = S.mem[k];
        const unsigned char* p = static_cast<const unsigned char*>(s.p);
        bool inp = p != nullptr && p >= b && p < b + sizeof(xtl::any);
        o.kv("c", 1).kb("has", a.has_value()).kb("emp", a.empty()).ks("ty", type_name(a.type()))
            .kv("id", s.id).kv("v", clamp(s.v)).kv("loc", (s.p && !s.tracked) ? loc_of(s.p) : 0).kv("inp", inp ? 1 : 0).kb("al", s.al).kb("xal", s.xal)
            .kraw("hits", "[" + s.hits + "]").kraw("hitm", "[" + s.hitm + "]");
        return o.obj();
    }

    std::string spc()
    {
        std::string s = "[";
        bool first = true;
        for (auto& e : G_SP)
        {
            long n = e.second.use_count() - 1;
            if (n == 0) continue;
            if (!first) s += ',';
            first = false;
            s += "{\"v\":" + std::to_string(e.first) + ",\"n\":" + std::to_string(n) + "}";
        }
        return s + "]";
    }

    std::string state()
    {
        std::string st = "[";
        for (int k = 0; k < NA; ++k) st += (k ? "," : "") + proj(k);
        return st + "]";
    }

    // ------------------------------------------------------------------ results
    struct result
    {
        std::string exc = "none";
        bool null = false;
        int id = 0;
        long long v = 0;
        int loc = 0;
        std::string ty = "";
        std::string json() const
        {
            vj::out o;
            o.ks("exc", exc).kb("null", null).kv("id", id).kv("v", clamp(v)).kv("loc", loc).ks("ty", ty);
            return o.obj();
        }
    };

    // p points into the any (pointer / reference forms): report which object it is
    template <class U>
    void setp(result& r, const U* p)
    {
        r.null = (p == nullptr);
        if (p)
        {
            if (tt<U>::tracked) r.id = R.id_at(p);
            else r.loc = loc_of(p);
            r.v = tt<U>::read(*p);
        }
    }
    // x is a new object returned by value
    template <class U>
    void setv(result& r, const U& x)
    {
        if (tt<U>::tracked) r.id = R.id_at(std::addressof(x));
        r.v = tt<U>::read(x);
    }

    // any_cast in all its forms; U is the target's decayed type
    template <class U>
    void do_cast(int k, const std::string& f, result& r)
    {
        xtl::any& m = A(k);
        const xtl::any& c = m;
        if (f == "p_m") setp<U>(r, xtl::any_cast<U>(&m));
        else if (f == "p_mc") setp<U>(r, xtl::any_cast<const U>(&m));
        else if (f == "p_c") setp<U>(r, xtl::any_cast<U>(&c));
        else if (f == "p_cc") setp<U>(r, xtl::any_cast<const U>(&c));
        else if (f == "p_n") setp<U>(r, xtl::any_cast<U>(static_cast<xtl::any*>(nullptr)));
        else if (f == "p_nc") setp<U>(r, xtl::any_cast<U>(static_cast<const xtl::any*>(nullptr)));
        else if (f == "v_m") { U x = xtl::any_cast<U>(m); setv<U>(r, x); }
        else if (f == "v_mc") { const U x = xtl::any_cast<const U>(m); setv<U>(r, x); }
        else if (f == "v_c") { U x = xtl::any_cast<U>(c); setv<U>(r, x); }
        else if (f == "v_cc") { const U x = xtl::any_cast<const U>(c); setv<U>(r, x); }
        else if (f == "v_r") { U x = xtl::any_cast<U>(std::move(m)); setv<U>(r, x); }
        else if (f == "v_rc") { const U x = xtl::any_cast<const U>(std::move(m)); setv<U>(r, x); }
        else if (f == "r_m") { U& x = xtl::any_cast<U&>(m); setp<U>(r, std::addressof(x)); }
        else if (f == "r_mc") { const U& x = xtl::any_cast<const U&>(m); setp<U>(r, std::addressof(x)); }
        else if (f == "r_c") { const U& x = xtl::any_cast<const U&>(c); setp<U>(r, std::addressof(x)); }
        else if (f == "r_r") { const U& x = xtl::any_cast<const U&>(std::move(m)); setp<U>(r, std::addressof(x)); }
#if C06_HAVE_LR
        else if (f == "lr_r") { U& x = xtl::any_cast<U&>(std::move(m)); setp<U>(r, std::addressof(x)); }
#endif
#if C06_HAVE_XR
        else if (f == "x_r") { U&& x = xtl::any_cast<U&&>(std::move(m)); setp<U>(r, std::addressof(x)); }
#endif
#if C06_HAVE_CXR
        else if (f == "cx_r") { const U&& x = xtl::any_cast<const U&&>(std::move(m)); setp<U>(r, std::addressof(x)); }
#endif
        else script_error("unknown cast form " + f);
    }

    // any_cast<char[4]>: an array type is never the (decayed) type of a stored object; pointer forms only
    void do_cast_arr(int k, const std::string& f, result& r)
    {
        xtl::any& m = A(k);
        const xtl::any& c = m;
        const void* p = nullptr;
        if (f == "p_m") p = xtl::any_cast<char[4]>(&m);
        else if (f == "p_mc") p = xtl::any_cast<const char[4]>(&m);
        else if (f == "p_c") p = xtl::any_cast<char[4]>(&c);
        else if (f == "p_cc") p = xtl::any_cast<const char[4]>(&c);
        else if (f == "p_n") p = xtl::any_cast<const char[4]>(static_cast<xtl::any*>(nullptr));
        else if (f == "p_nc") p = xtl::any_cast<const char[4]>(static_cast<const xtl::any*>(nullptr));
        else script_error("cast form " + f + " cannot be written for an array type");
        r.null = (p == nullptr);
        if (p) { r.loc = loc_of(p); r.v = UNREAD; }
    }

    template <class T>
    struct by_form
    {
        static void construct(int k, T& x, const std::string& f, int)
        {
            if (f == "lv") new (slot(k)) xtl::any(x);
            else if (f == "clv") new (slot(k)) xtl::any(static_cast<const T&>(x));
            else if (f == "rv") new (slot(k)) xtl::any(std::move(x));
            else if (f == "crv") new (slot(k)) xtl::any(static_cast<const T&&>(x));
            else script_error("unknown form " + f);
        }
        static void assign(int k, T& x, const std::string& f, int)
        {
            if (f == "lv") A(k) = x;
            else if (f == "clv") A(k) = static_cast<const T&>(x);
            else if (f == "rv") A(k) = std::move(x);
            else if (f == "crv") A(k) = static_cast<const T&&>(x);
            else script_error("unknown form " + f);
        }
    };
    // const char* from an array, int(*)(int) from a function: the stored type is the decayed type
    template <>
    struct by_form<CStr>
    {
        static void construct(int k, CStr& x, const std::string& f, int v)
        {
            if (f == "decay") { tt<CStr>::pool(v); new (slot(k)) xtl::any(CPOOL[v]); }
            else if (f == "lv") new (slot(k)) xtl::any(x);
            else if (f == "clv") new (slot(k)) xtl::any(static_cast<const CStr&>(x));
            else if (f == "rv") new (slot(k)) xtl::any(std::move(x));
            else if (f == "crv") new (slot(k)) xtl::any(static_cast<const CStr&&>(x));
            else script_error("unknown form " + f);
        }
        static void assign(int k, CStr& x, const std::string& f, int v)
        {
            if (f == "decay") { tt<CStr>::pool(v); A(k) = CPOOL[v]; }
            else if (f == "lv") A(k) = x;
            else if (f == "clv") A(k) = static_cast<const CStr&>(x);
            else if (f == "rv") A(k) = std::move(x);
            else if (f == "crv") A(k) = static_cast<const CStr&&>(x);
            else script_error("unknown form " + f);
        }
    };
    template <>
    struct by_form<Fn>
    {
        static void construct(int k, Fn& x, const std::string& f, int v)
        {
            if (f == "decay")
            {
                tt<Fn>::pool(v);
                if (v == 0) new (slot(k)) xtl::any(fn0);
                else if (v == 1) new (slot(k)) xtl::any(fn1);
                else if (v == 2) new (slot(k)) xtl::any(fn2);
                else new (slot(k)) xtl::any(fn3);
            }
            else if (f == "lv") new (slot(k)) xtl::any(x);
            else if (f == "clv") new (slot(k)) xtl::any(static_cast<const Fn&>(x));
            else if (f == "rv") new (slot(k)) xtl::any(std::move(x));
            else if (f == "crv") new (slot(k)) xtl::any(static_cast<const Fn&&>(x));
            else script_error("unknown form " + f);
        }
        static void assign(int k, Fn& x, const std::string& f, int v)
        {
            if (f == "decay")
            {
                tt<Fn>::pool(v);
                if (v == 0) A(k) = fn0;
                else if (v == 1) A(k) = fn1;
                else if (v == 2) A(k) = fn2;
                else A(k) = fn3;
            }
            else if (f == "lv") A(k) = x;
            else if (f == "clv") A(k) = static_cast<const Fn&>(x);
            else if (f == "rv") A(k) = std::move(x);
            else if (f == "crv") A(k) = static_cast<const Fn&&>(x);
            else script_error("unknown form " + f);
        }
    };

    template <class T>
    void do_construct(int k, int v, const std::string& f)
    {
        typename tt<T>::arg h(v);     // the caller's value; its construction and destruction are part of the call
        {
            c06mem::lib_scope in_library;
            by_form<T>::construct(k, h.x, f, v);
        }
        C[k] = true;
    }

    template <class T>
    void do_assign_value(int k, int v, const std::string& f)
    {
        typename tt<T>::arg h(v);
        c06mem::lib_scope in_library;
        by_form<T>::assign(k, h.x, f, v);
    }

    template <class T>
    void do_set_via(int k, int v, result& r)
    {
        T* p = xtl::any_cast<T>(&A(k));
        r.null = (p == nullptr);
        if (p)
        {
            if (tt<T>::tracked) r.id = R.id_at(p);
            else r.loc = loc_of(p);
            tt<T>::write(*p, v);
            r.v = v;
        }
    }

    std::string dump(const vj::value& v)
    {
        switch (v.kind)
        {
        case vj::value::NUL: return "null";
        case vj::value::BOOL: return v.b ? "true" : "false";
        case vj::value::INT: return std::to_string(v.i);
        case vj::value::STR: return "\"" + v.s + "\"";
        case vj::value::ARR:
        {
            std::string s = "[";
            for (size_t i = 0; i < v.a.size(); ++i) s += (i ? "," : "") + dump(v.a[i]);
            return s + "]";
        }
        default:
        {
            std::string s = "{";
            for (size_t i = 0; i < v.o.size(); ++i) s += (i ? ",\"" : "\"") + v.o[i].first + "\":" + dump(v.o[i].second);
            return s + "}";
        }
        }
    }

    void cleanup()
    {
        // end of an execution: whatever is still constructed is destroyed (outside any call)
        for (int k = 0; k < NA; ++k)
            if (C[k])
            {
                C[k] = false;
                A(k).~any();
            }
        g_ev.clear();
        G_SP.clear();
        LOC.clear();
    }

    void need(bool c, const char* what)
    {
        if (!c) throw desync{std::string("driver precondition: ") + what};
    }

#if C06_HAVE_XTYPES
#define BY_XTYPE(t, CALL)                                 \
    else if (t == "Var") { CALL(Var); }                   \
    else if (t == "Fs") { CALL(Fs); }                     \
    else if (t == "Opt") { CALL(Opt); }
#else
#define BY_XTYPE(t, CALL)
#endif
#define BY_TYPE(t, CALL)                                  \
    if (t == "Small") { CALL(Small); }                    \
    else if (t == "Big") { CALL(Big); }                   \
    else if (t == "STM") { CALL(STM); }                   \
    else if (t == "NC") { CALL(NC); }                     \
    else if (t == "Int") { CALL(int); }                   \
    else if (t == "Str") { CALL(Str); }                   \
    else if (t == "CStr") { CALL(CStr); }                 \
    else if (t == "Fn") { CALL(Fn); }                     \
    else if (t == "Sp") { CALL(Sp); }                     \
    else if (t == "Ov") { CALL(Ov); }                     \
    else if (t == "Nest") { CALL(Box); }               \
    else if (t == "Ov32") { CALL(Ov32); }              \
    else if (t == "Ov64") { CALL(Ov64); }              \
    else if (t == "P16") { CALL(P16); }                \
    else if (t == "P17") { CALL(P17); }                \
    BY_XTYPE(t, CALL)

    void perform(const std::string& op, int k, const vj::value& a, result& r)
    {
        int j = int(a.num("j", 1)) - 1;
        int ncv = int(a.num("nc", 0));      // value category of the source any: 0 const lvalue, 1 non-const lvalue, 2 const rvalue
        bool nc = ncv == 1;
        if (op == "DefaultConstruct") { need(!C[k], "raw"); new (slot(k)) xtl::any(); C[k] = true; }
        else if (op == "Construct")
        {
            need(!C[k], "raw");
            const std::string& t = a.str("t");
            int v = int(a.num("v"));
            const std::string& f = a.str("form");
#define CALL(U) do_construct<U>(k, v, f)
            BY_TYPE(t, CALL)
            else script_error("type");
#undef CALL
        }
        else if (op == "CopyConstruct")
        {
            need(!C[k] && C[j] && j != k, "raw<-constructed");
            {
                c06mem::lib_scope in_library;
                if (nc) new (slot(k)) xtl::any(A(j));
                else if (ncv == 2) new (slot(k)) xtl::any(static_cast<const xtl::any&&>(A(j)));     // a const rvalue any is COPIED
                else new (slot(k)) xtl::any(static_cast<const xtl::any&>(A(j)));
            }
            C[k] = true;
        }
        else if (op == "MoveConstruct") { need(!C[k] && C[j] && j != k, "raw<-constructed"); new (slot(k)) xtl::any(std::move(A(j))); C[k] = true; }
        else if (op == "ConstructFrom")
        {
            // any b(e): e an any expression of the category the script names; overload resolution does the rest
            need(!C[k] && C[j] && j != k, "raw<-constructed");
            const std::string& cat = a.str("cat");
            {
                c06mem::lib_scope in_library;
                if (cat == "rv") c06mem::g_lib = 0;        // a move is not an allocating call
                if (cat == "lv") new (slot(k)) xtl::any(A(j));
                else if (cat == "clv") new (slot(k)) xtl::any(static_cast<const xtl::any&>(A(j)));
                else if (cat == "rv") new (slot(k)) xtl::any(static_cast<xtl::any&&>(A(j)));
                else if (cat == "crv") new (slot(k)) xtl::any(static_cast<const xtl::any&&>(A(j)));
                else script_error("cat");
            }
            C[k] = true;
        }
        else if (op == "AssignFrom")
        {
            need(C[k] && C[j], "constructed");
            const std::string& cat = a.str("cat");
            c06mem::lib_scope in_library;
            if (cat == "rv") c06mem::g_lib = 0;
            if (cat == "lv") A(k) = A(j);
            else if (cat == "clv") A(k) = static_cast<const xtl::any&>(A(j));
            else if (cat == "rv") A(k) = static_cast<xtl::any&&>(A(j));
            else if (cat == "crv") A(k) = static_cast<const xtl::any&&>(A(j));
            else script_error("cat");
        }
        else if (op == "CopyAssign")
        {
            need(C[k] && C[j], "constructed");
            c06mem::lib_scope in_library;
            if (nc) A(k) = A(j);
            else if (ncv == 2) A(k) = static_cast<const xtl::any&&>(A(j));
            else A(k) = static_cast<const xtl::any&>(A(j));
        }
        else if (op == "MoveAssign") { need(C[k] && C[j], "constructed"); A(k) = std::move(A(j)); }
        else if (op == "AssignValue")
        {
            need(C[k], "constructed");
            const std::string& t = a.str("t");
            int v = int(a.num("v"));
            const std::string& f = a.str("form");
#define CALL(U) do_assign_value<U>(k, v, f)
            BY_TYPE(t, CALL)
            else script_error("type");
#undef CALL
        }
        else if (op == "Swap") { need(C[k] && C[j], "constructed"); A(k).swap(A(j)); }
        else if (op == "StdSwap") { need(C[k] && C[j], "constructed"); std::swap(A(k), A(j)); }
        else if (op == "AReset") { need(C[k], "constructed"); A(k).reset(); }
        else if (op == "AClear") { need(C[k], "constructed"); A(k).clear(); }
        else if (op == "Destroy") { need(C[k], "constructed"); C[k] = false; A(k).~any(); }
        else if (op == "DestroyIf") { if (C[k]) { C[k] = false; A(k).~any(); } }
        else if (op == "HasValue") { need(C[k], "constructed"); r.v = static_cast<const xtl::any&>(A(k)).has_value() ? 1 : 0; }
        else if (op == "Empty") { need(C[k], "constructed"); r.v = static_cast<const xtl::any&>(A(k)).empty() ? 1 : 0; }
        else if (op == "Type") { need(C[k], "constructed"); r.ty = type_name(static_cast<const xtl::any&>(A(k)).type()); }
        else if (op == "Cast")
        {
            const std::string& f = a.str("form");
            need(C[k] || f == "p_n" || f == "p_nc", "constructed");
            const std::string& t = a.str("t");
#define CALL(U) do_cast<U>(k, f, r)
            BY_TYPE(t, CALL)
            else if (t == "CharP") { CALL(char*); }
            else if (t == "AnyT") { CALL(xtl::any); }
            else if (t == "Arr") do_cast_arr(k, f, r);
            else script_error("type");
#undef CALL
        }
        else if (op == "SetVia")
        {
            need(C[k], "constructed");
            const std::string& t = a.str("t");
            int v = int(a.num("v"));
#define CALL(U) do_set_via<U>(k, v, r)
            BY_TYPE(t, CALL)
            else script_error("type");
#undef CALL
        }
        else script_error("unknown op " + op);
    }

    void put(const std::string& s)
    {
        if (::write(1, s.c_str(), s.size()) < 0) {}
    }
    void partial_line()
    {
        // a crash inside a call: show what had happened so far (diagnostics only), then the Crash event
        put("\n{\"op\":\"CrashIn\",\"call\":" + (g_call.empty() ? std::string("{\"op\":\"(end of script: remaining objects destroyed)\",\"k\":0,\"a\":{}}") : g_call) + ",\"ev\":[" + g_ev + "]}");
    }
    void my_terminate()
    {
        std::fflush(stdout);
#if C06_NOEXC
        // XTL_NO_EXCEPTIONS: a failing any_cast ends the program through std::terminate; that IS the call's outcome
        if (g_incall && g_op == "Cast")
        {
            g_incall = false;
            result r;
            r.exc = "terminate";
            std::string evs = g_ev;
            g_ev.clear();
            std::string st = state();
            put("{\"op\":\"Cast\",\"k\":" + std::to_string(g_k + 1) + ",\"a\":" + g_args + ",\"ev\":[" + evs + "],\"res\":" + r.json() + ",\"st\":" + st
                + ",\"spc\":" + spc() + ",\"heap\":" + std::to_string(c06mem::overflow ? -1 : c06mem::nlib) + "}\n");
            _exit(0);
        }
#endif
        partial_line();
        vj::on_terminate();
    }
    void my_signal(int sig)
    {
        std::fflush(stdout);
        partial_line();
        vj::on_signal(sig);
    }
    // CPU-time watchdog: the timer fires every 2 s of CPU time (C06_CALL_CPU_S); two ticks inside the same call = the call hangs
    void my_alarm(int)
    {
        if (g_incall && g_seen == g_callno)
        {
            std::fflush(stdout);
            partial_line();
            vj::crash_line("hang: the call did not return within the CPU limit");
            _exit(0);
        }
        g_seen = g_callno;
    }
}

int main()
{
    vj::install_crash_handlers();
    std::set_terminate(my_terminate);
    {
        // on an alternate stack: a call that recurses without end must still be able to close the trace
        static char altstack[1 << 16];
        stack_t ss;
        ss.ss_sp = altstack;
        ss.ss_size = sizeof altstack;
        ss.ss_flags = 0;
        sigaltstack(&ss, nullptr);
        struct sigaction sa;
        std::memset(&sa, 0, sizeof sa);
        sa.sa_handler = my_signal;
        sa.sa_flags = SA_ONSTACK;
        sigemptyset(&sa.sa_mask);
        const int sigs[] = {SIGABRT, SIGSEGV, SIGBUS, SIGFPE, SIGILL};
        for (int sg : sigs) sigaction(sg, &sa, nullptr);
    }
    {
        std::signal(SIGVTALRM, my_alarm);
        struct itimerval tv;
        const char* lim = std::getenv("C06_CALL_CPU_S");
        int s = lim ? std::atoi(lim) : 2;
        tv.it_interval.tv_sec = s > 0 ? s : 2;
        tv.it_interval.tv_usec = 0;
        tv.it_value = tv.it_interval;
        setitimer(ITIMER_VIRTUAL, &tv, nullptr);
    }

    std::string line;
    bool skipping = false;      // after a Desync line: ignore calls up to the next Reset
    while (std::getline(std::cin, line))
    {
        if (line.empty()) continue;
        vj::value e = vj::parse(line);
        if (e.find("_meta")) continue;
        const std::string& op = e.str("op");
        int k = int(e.num("k")) - 1;
        const vj::value& a = e.at("a");
        g_args = dump(a);
        g_call = "{\"op\":\"" + op + "\",\"k\":" + std::to_string(k + 1) + ",\"a\":" + g_args + "}";
        g_op = op;
        g_k = k;
        if (k < 0 || k >= NA) script_error("k");
        if (a.has("j") && (a.num("j") < 1 || a.num("j") > NA)) script_error("j");
        result r;
        g_ev.clear();
        if (op == "Reset")
        {
            cleanup();
            skipping = false;
            // the build this trace comes from; ids of payload objects never restart within one process
            std::string o = "{\"op\":\"Reset\",\"k\":1,\"a\":{\"z\":0,\"fl\":\"" C06_FLAVOUR "\",\"noexc\":" + std::string(C06_NOEXC ? "true" : "false") + ",\"mov\":" + std::string(C06_MOV ? "true" : "false")
                            + ",\"hi\":" + std::to_string(R.next - 1) + "}}\n";
            std::fputs(o.c_str(), stdout);
            continue;
        }
        else if (skipping)
        {
            continue;
        }
        else
        {
            g_fuse = int(a.num("fuse", 0));
            c06mem::g_afuse = int(a.num("afuse", 0));
            c06mem::g_lib = 0;
            ++g_callno;
            g_incall = true;
            try
            {
                perform(op, k, a, r);
            }
            catch (const fuse_error&)
            {
                r = result();
                r.exc = "fuse";
            }
            catch (const xtl::bad_any_cast&)
            {
                r = result();
                r.exc = "bad_any_cast";
            }
            catch (const desync& d)
            {
                g_incall = false;
                g_fuse = 0;
                c06mem::g_afuse = 0;
                c06mem::g_lib = 0;
                g_ev.clear();
                skipping = true;
                std::string o = "{\"op\":\"Desync\",\"call\":" + g_call + ",\"why\":\"" + d.what + "\"}\n";
                std::fputs(o.c_str(), stdout);
                continue;
            }
            catch (const std::bad_cast&)
            {
                r = result();
                r.exc = "bad_cast";
            }
            catch (const std::bad_alloc&)
            {
                r = result();
                r.exc = "bad_alloc";
            }
            catch (const std::exception&)
            {
                r = result();
                r.exc = "other";
            }
            catch (...)
            {
                r = result();
                r.exc = "other";
            }
            g_fuse = 0;
            c06mem::g_afuse = 0;
            c06mem::g_lib = 0;
        }
        std::string evs = g_ev;
        g_ev.clear();
        std::string st = state();       // still "inside the call" for the watchdog and the crash handlers
        g_ev.clear();
        g_incall = false;
        std::string o = "{\"op\":\"" + op + "\",\"k\":" + std::to_string(k + 1) + ",\"a\":" + g_args + ",\"ev\":[" + evs + "],\"res\":" + r.json()
                        + ",\"st\":" + st + ",\"spc\":" + spc() + ",\"heap\":" + std::to_string(c06mem::overflow ? -1 : c06mem::nlib) + "}\n";
        std::fputs(o.c_str(), stdout);
    }
    g_call.clear();
    cleanup();
    std::fflush(stdout);
    return 0;
}

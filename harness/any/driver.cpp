// C06 conformance driver for xtl::any (include/xtl/xany.hpp).
//
// Reads a script (ndjson, one public call per line: {"op":..,"k":..,"a":{..}}) on stdin, performs
// the call on real xtl::any objects and prints the same line extended with
//   "ev"  : the element events (payload constructor / destructor / assignment / injected throw)
//           that happened during the call, in order, each with the payload object's id,
//   "res" : what the call returned or threw,
//   "st"  : what the observers say about each of the three any objects after the call.
// There is no oracle in here: the driver executes and prints.  Specs/Any.tla decides.
//
// * Three any objects live in raw aligned storage; construction and destruction are explicit calls.
// * Payload types: Small (16 bytes, nothrow move: in place), Big (24 bytes: heap),
//   STM (16 bytes, move constructor may throw: heap).  Objects are numbered in construction order
//   by a registry keyed on address; an id is never reused.
// * A global countdown fuse makes the n-th throwing-capable payload constructor of a call throw
//   (copy constructors of all types, move constructor of STM).
#include "xtl/xany.hpp"
#include "vjson.hpp"

#include <iostream>
#include <map>
#include <new>
#include <set>
#include <string>
#include <typeinfo>
#include <utility>

namespace
{
    const long long MOVED = -1;    // value a payload object has after being moved from
    const long long UNREAD = -9;   // the driver refused to read a destroyed object

    struct fuse_error
    {
    };

    // The script asked for a call whose C++ precondition does not hold in this process (e.g. an operation on a
    // slot that holds no any object because an earlier constructor call ended differently from what the
    // script's author assumed).  The call is not performed; the rest of the execution is skipped.
    struct desync
    {
        std::string what;
    };

    struct registry
    {
        std::map<const void*, int> at;   // address -> id of the object most recently constructed there
        std::set<int> live;
        int next = 1;

        int id_at(const void* p) const
        {
            auto it = at.find(p);
            return it == at.end() ? 0 : it->second;
        }
        bool live_at(const void* p) const
        {
            int id = id_at(p);
            return id != 0 && live.count(id) != 0;
        }
        int born(const void* p)
        {
            int id = next++;
            at[p] = id;
            live.insert(id);
            return id;
        }
    };

    registry R;
    int g_fuse = 0;             // 0 = disarmed; n > 0: the n-th throwing-capable constructor throws
    std::string g_ev;           // element events of the current call (JSON array body)
    std::string g_call;         // the call being executed (for the crash line)

    void ev(const char* e, int id, const char* t, const char* kind, int src, long long v)
    {
        if (!g_ev.empty()) g_ev += ',';
        g_ev += "{\"e\":\"";
        g_ev += e;
        g_ev += "\",\"id\":" + std::to_string(id) + ",\"t\":\"" + t + "\",\"kind\":\"" + kind + "\",\"src\":" + std::to_string(src)
                + ",\"v\":" + std::to_string(v) + "}";
    }

    struct mk
    {
    };

    template <int TAG>
    struct tname;
    template <>
    struct tname<0>
    {
        static const char* get() { return "Small"; }
    };
    template <>
    struct tname<1>
    {
        static const char* get() { return "Big"; }
    };
    template <>
    struct tname<2>
    {
        static const char* get() { return "STM"; }
    };

    template <int TAG, int WORDS, bool NX>
    struct payload
    {
        long long val;
        long long pad[WORDS - 1];

        static const char* name() { return tname<TAG>::get(); }

        static void trip(const char* kind, int src)
        {
            if (g_fuse > 0 && --g_fuse == 0)
            {
                ev("throw", 0, name(), kind, src, 0);
                throw fuse_error();
            }
        }

        payload(int v, mk)
            : val(v)
        {
            for (int i = 0; i < WORDS - 1; ++i) pad[i] = 0x5a5a5a5a;
            int id = R.born(this);
            ev("ctor", id, name(), "value", 0, val);
        }

        payload(const payload& o)
        {
            int sid = R.id_at(&o);
            bool sl = R.live_at(&o);
            trip("copy", sid);
            val = sl ? o.val : UNREAD;
            for (int i = 0; i < WORDS - 1; ++i) pad[i] = 0x5a5a5a5a;
            int id = R.born(this);
            ev("ctor", id, name(), "copy", sid, val);
        }

        payload(payload&& o) noexcept(NX)
        {
            int sid = R.id_at(&o);
            bool sl = R.live_at(&o);
            if (!NX) trip("move", sid);
            val = sl ? o.val : UNREAD;
            if (sl) o.val = MOVED;
            for (int i = 0; i < WORDS - 1; ++i) pad[i] = 0x5a5a5a5a;
            int id = R.born(this);
            ev("ctor", id, name(), "move", sid, val);
        }

        payload& operator=(const payload& o)
        {
            int did = R.id_at(this), sid = R.id_at(&o);
            if (R.live_at(this) && R.live_at(&o)) val = o.val;
            ev("assign", did, name(), "copy", sid, val);
            return *this;
        }

        payload& operator=(payload&& o) noexcept
        {
            int did = R.id_at(this), sid = R.id_at(&o);
            if (R.live_at(this) && R.live_at(&o))
            {
                long long v = o.val;
                if (this != &o) o.val = MOVED;
                val = v;
            }
            ev("assign", did, name(), "move", sid, val);
            return *this;
        }

        ~payload()
        {
            int id = R.id_at(this);
            // a destructor call on something that is not a live object is logged with the id last
            // seen at this address (0 if none); the spec rejects it
            ev("dtor", id, name(), "", 0, 0);
            R.live.erase(id);
        }

        void set(long long v)
        {
            int id = R.id_at(this);
            val = v;
            ev("set", id, name(), "", 0, v);
        }
    };

    using Small = payload<0, 2, true>;
    using Big = payload<1, 3, true>;
    using STM = payload<2, 2, false>;

    static_assert(sizeof(Small) == 2 * sizeof(void*), "Small sits exactly on the in-place threshold");
    static_assert(sizeof(Big) == 3 * sizeof(void*), "Big is the smallest size above the threshold");
    static_assert(sizeof(STM) == sizeof(Small), "STM differs from Small only by its throwing move");
    static_assert(std::is_nothrow_move_constructible<Small>::value && std::is_nothrow_move_constructible<Big>::value, "");
    static_assert(!std::is_nothrow_move_constructible<STM>::value, "");

    // ------------------------------------------------------------------ the objects under test
    const int NA = 3;
    struct slots_t
    {
        alignas(16) unsigned char mem[NA][sizeof(xtl::any) + 16];
    } S;
    bool C[NA] = {false, false, false};   // constructed (driver's own bookkeeping of what it called)

    void* slot(int k) { return static_cast<void*>(S.mem[k]); }
    xtl::any& A(int k) { return *reinterpret_cast<xtl::any*>(S.mem[k]); }

    const char* type_name(const std::type_info& ti)
    {
        if (ti == typeid(void)) return "void";
        if (ti == typeid(Small)) return "Small";
        if (ti == typeid(Big)) return "Big";
        if (ti == typeid(STM)) return "STM";
        if (ti == typeid(int)) return "Int";
        return "?";
    }

    long long read_val(const void* p, long long raw)
    {
        return R.live_at(p) ? raw : UNREAD;
    }

    std::string proj(int k)
    {
        vj::out o;
        if (!C[k])
        {
            o.kv("c", 0).kb("has", false).kb("emp", false).ks("ty", "").kv("id", 0).kv("v", 0).kv("inp", 0);
            return o.obj();
        }
        const xtl::any& a = A(k);
        const void* p = nullptr;
        long long v = 0;
        if (const Small* q = xtl::any_cast<Small>(&a)) { p = q; v = read_val(q, R.live_at(q) ? q->val : 0); }
        else if (const Big* q2 = xtl::any_cast<Big>(&a)) { p = q2; v = read_val(q2, R.live_at(q2) ? q2->val : 0); }
        else if (const STM* q3 = xtl::any_cast<STM>(&a)) { p = q3; v = read_val(q3, R.live_at(q3) ? q3->val : 0); }
        const unsigned char* b = S.mem[k];
        bool inp = p != nullptr && static_cast<const unsigned char*>(p) >= b && static_cast<const unsigned char*>(p) < b + sizeof(xtl::any);
        o.kv("c", 1).kb("has", a.has_value()).kb("emp", a.empty()).ks("ty", type_name(a.type()))
            .kv("id", p ? R.id_at(p) : 0).kv("v", v).kv("inp", inp ? 1 : 0);
        return o.obj();
    }

    // ------------------------------------------------------------------ results
    struct result
    {
        std::string exc = "none";
        bool null = false;
        int id = 0;
        long long v = 0;
        std::string ty = "";
        std::string json() const
        {
            vj::out o;
            o.ks("exc", exc).kb("null", null).kv("id", id).kv("v", v).ks("ty", ty);
            return o.obj();
        }
    };

    template <class U>
    long long valof(const U& u) { return read_val(&u, R.live_at(&u) ? u.val : 0); }
    long long valof(const int& u) { return u; }

    template <class U>
    void setp(result& r, const U* p)
    {
        r.null = (p == nullptr);
        if (p)
        {
            r.id = R.id_at(p);
            r.v = valof(*p);
        }
    }

    [[noreturn]] void script_error(const std::string& m)
    {
        std::fprintf(stderr, "script error: %s in %s\n", m.c_str(), g_call.c_str());
        std::exit(3);
    }

    // any_cast in all its forms; U is the target's decayed type
    template <class U>
    void do_cast(int k, const std::string& f, result& r)
    {
        xtl::any& m = A(k);
        const xtl::any& c = m;
        if (f == "p_m") setp(r, xtl::any_cast<U>(&m));
        else if (f == "p_mc") setp<U>(r, xtl::any_cast<const U>(&m));
        else if (f == "p_c") setp<U>(r, xtl::any_cast<U>(&c));
        else if (f == "p_cc") setp<U>(r, xtl::any_cast<const U>(&c));
        else if (f == "p_n") setp<U>(r, xtl::any_cast<U>(static_cast<xtl::any*>(nullptr)));
        else if (f == "p_nc") setp<U>(r, xtl::any_cast<U>(static_cast<const xtl::any*>(nullptr)));
        else if (f == "v_m") { U x = xtl::any_cast<U>(m); setp(r, &x); }
        else if (f == "v_mc") { const U x = xtl::any_cast<const U>(m); setp(r, &x); }
        else if (f == "v_c") { U x = xtl::any_cast<U>(c); setp(r, &x); }
        else if (f == "v_cc") { const U x = xtl::any_cast<const U>(c); setp(r, &x); }
        else if (f == "v_r") { U x = xtl::any_cast<U>(std::move(m)); setp(r, &x); }
        else if (f == "r_m") { U& x = xtl::any_cast<U&>(m); setp(r, &x); }
        else if (f == "r_mc") { const U& x = xtl::any_cast<const U&>(m); setp(r, &x); }
        else if (f == "r_c") { const U& x = xtl::any_cast<const U&>(c); setp(r, &x); }
        else if (f == "r_r") { const U& x = xtl::any_cast<const U&>(std::move(m)); setp(r, &x); }
        else script_error("unknown cast form " + f);
    }

    template <class T>
    void do_construct(int k, int v, const std::string& f)
    {
        T x(v, mk());     // the caller's value; its construction and destruction are part of the call
        if (f == "lv") new (slot(k)) xtl::any(x);
        else if (f == "clv") new (slot(k)) xtl::any(static_cast<const T&>(x));
        else if (f == "rv") new (slot(k)) xtl::any(std::move(x));
        else if (f == "crv") new (slot(k)) xtl::any(static_cast<const T&&>(x));
        else script_error("unknown form " + f);
        C[k] = true;
    }

    template <class T>
    void do_assign_value(int k, int v, const std::string& f)
    {
        T x(v, mk());
        if (f == "lv") A(k) = x;
        else if (f == "clv") A(k) = static_cast<const T&>(x);
        else if (f == "rv") A(k) = std::move(x);
        else if (f == "crv") A(k) = static_cast<const T&&>(x);
        else script_error("unknown form " + f);
    }

    template <class T>
    void do_set_via(int k, int v, result& r)
    {
        T* p = xtl::any_cast<T>(&A(k));
        r.null = (p == nullptr);
        if (p)
        {
            r.id = R.id_at(p);
            p->set(v);
            r.v = v;
        }
    }

    std::string dump(const vj::value& v)
    {
        switch (v.kind)
        {
        case vj::value::NUL: return "null";
        case vj::value::BOOL: return v.b ? "true" : "false";
        case vj::value::INT: return std::to_string(v.i);
        case vj::value::STR: return "\"" + v.s + "\"";
        case vj::value::ARR:
        {
            std::string s = "[";
            for (size_t i = 0; i < v.a.size(); ++i) s += (i ? "," : "") + dump(v.a[i]);
            return s + "]";
        }
        default:
        {
            std::string s = "{";
            for (size_t i = 0; i < v.o.size(); ++i) s += (i ? ",\"" : "\"") + v.o[i].first + "\":" + dump(v.o[i].second);
            return s + "}";
        }
        }
    }

    void cleanup()
    {
        // end of an execution: whatever is still constructed is destroyed (outside any call)
        for (int k = 0; k < NA; ++k)
            if (C[k])
            {
                A(k).~any();
                C[k] = false;
            }
        g_ev.clear();
    }

    void need(bool c, const char* what)
    {
        if (!c) throw desync{std::string("driver precondition: ") + what};
    }

    void perform(const std::string& op, int k, const vj::value& a, result& r)
    {
        int j = int(a.num("j", 1)) - 1;
        if (op == "DefaultConstruct") { need(!C[k], "raw"); new (slot(k)) xtl::any(); C[k] = true; }
        else if (op == "Construct")
        {
            need(!C[k], "raw");
            const std::string& t = a.str("t");
            int v = int(a.num("v"));
            if (t == "Small") do_construct<Small>(k, v, a.str("form"));
            else if (t == "Big") do_construct<Big>(k, v, a.str("form"));
            else if (t == "STM") do_construct<STM>(k, v, a.str("form"));
            else script_error("type");
        }
        else if (op == "CopyConstruct") { need(!C[k] && C[j] && j != k, "raw<-constructed"); new (slot(k)) xtl::any(static_cast<const xtl::any&>(A(j))); C[k] = true; }
        else if (op == "MoveConstruct") { need(!C[k] && C[j] && j != k, "raw<-constructed"); new (slot(k)) xtl::any(std::move(A(j))); C[k] = true; }
        else if (op == "CopyAssign") { need(C[k] && C[j], "constructed"); A(k) = static_cast<const xtl::any&>(A(j)); }
        else if (op == "MoveAssign") { need(C[k] && C[j], "constructed"); A(k) = std::move(A(j)); }
        else if (op == "AssignValue")
        {
            need(C[k], "constructed");
            const std::string& t = a.str("t");
            int v = int(a.num("v"));
            if (t == "Small") do_assign_value<Small>(k, v, a.str("form"));
            else if (t == "Big") do_assign_value<Big>(k, v, a.str("form"));
            else if (t == "STM") do_assign_value<STM>(k, v, a.str("form"));
            else script_error("type");
        }
        else if (op == "Swap") { need(C[k] && C[j], "constructed"); A(k).swap(A(j)); }
        else if (op == "StdSwap") { need(C[k] && C[j], "constructed"); std::swap(A(k), A(j)); }
        else if (op == "AReset") { need(C[k], "constructed"); A(k).reset(); }
        else if (op == "AClear") { need(C[k], "constructed"); A(k).clear(); }
        else if (op == "Destroy") { need(C[k], "constructed"); C[k] = false; A(k).~any(); }
        else if (op == "DestroyIf") { if (C[k]) { C[k] = false; A(k).~any(); } }
        else if (op == "HasValue") { need(C[k], "constructed"); r.v = static_cast<const xtl::any&>(A(k)).has_value() ? 1 : 0; }
        else if (op == "Empty") { need(C[k], "constructed"); r.v = static_cast<const xtl::any&>(A(k)).empty() ? 1 : 0; }
        else if (op == "Type") { need(C[k], "constructed"); r.ty = type_name(static_cast<const xtl::any&>(A(k)).type()); }
        else if (op == "Cast")
        {
            const std::string& f = a.str("form");
            need(C[k] || f == "p_n" || f == "p_nc", "constructed");
            const std::string& t = a.str("t");
            if (t == "Small") do_cast<Small>(k, f, r);
            else if (t == "Big") do_cast<Big>(k, f, r);
            else if (t == "STM") do_cast<STM>(k, f, r);
            else if (t == "Int") do_cast<int>(k, f, r);
            else script_error("type");
        }
        else if (op == "SetVia")
        {
            need(C[k], "constructed");
            const std::string& t = a.str("t");
            int v = int(a.num("v"));
            if (t == "Small") do_set_via<Small>(k, v, r);
            else if (t == "Big") do_set_via<Big>(k, v, r);
            else if (t == "STM") do_set_via<STM>(k, v, r);
            else script_error("type");
        }
        else script_error("unknown op " + op);
    }

    void partial_line()
    {
        // a crash inside a call: show what had happened so far (diagnostics only), then the Crash event
        std::string s = "\n{\"op\":\"CrashIn\",\"call\":" + (g_call.empty() ? std::string("null") : g_call) + ",\"ev\":[" + g_ev + "]}";
        if (::write(1, s.c_str(), s.size()) < 0) {}
    }
    void my_terminate()
    {
        std::fflush(stdout);
        partial_line();
        vj::on_terminate();
    }
    void my_signal(int sig)
    {
        std::fflush(stdout);
        partial_line();
        vj::on_signal(sig);
    }
}

int main()
{
    vj::install_crash_handlers();
    std::set_terminate(my_terminate);
    std::signal(SIGABRT, my_signal);
    std::signal(SIGSEGV, my_signal);
    std::signal(SIGBUS, my_signal);

    std::string line;
    bool skipping = false;      // after a Desync line: ignore calls up to the next Reset
    while (std::getline(std::cin, line))
    {
        if (line.empty()) continue;
        vj::value e = vj::parse(line);
        if (e.find("_meta")) continue;
        const std::string& op = e.str("op");
        int k = int(e.num("k")) - 1;
        const vj::value& a = e.at("a");
        g_call = "{\"op\":\"" + op + "\",\"k\":" + std::to_string(k + 1) + ",\"a\":" + dump(a) + "}";
        if (k < 0 || k >= NA) script_error("k");
        if (a.has("j") && (a.num("j") < 1 || a.num("j") > NA)) script_error("j");
        result r;
        g_ev.clear();
        if (op == "Reset")
        {
            cleanup();
            skipping = false;
        }
        else if (skipping)
        {
            continue;
        }
        else
        {
            g_fuse = int(a.num("fuse", 0));
            try
            {
                perform(op, k, a, r);
            }
            catch (const fuse_error&)
            {
                r = result();
                r.exc = "fuse";
            }
            catch (const xtl::bad_any_cast&)
            {
                r = result();
                r.exc = "bad_any_cast";
            }
            catch (const desync& d)
            {
                g_fuse = 0;
                g_ev.clear();
                skipping = true;
                std::string o = "{\"op\":\"Desync\",\"call\":" + g_call + ",\"why\":\"" + d.what + "\"}\n";
                std::fputs(o.c_str(), stdout);
                continue;
            }
            catch (const std::exception&)
            {
                r = result();
                r.exc = "other";
            }
            g_fuse = 0;
        }
        std::string evs = g_ev;
        g_ev.clear();
        std::string st = "[" + proj(0) + "," + proj(1) + "," + proj(2) + "]";
        g_ev.clear();
        std::string o = "{\"op\":\"" + op + "\",\"k\":" + std::to_string(k + 1) + ",\"a\":" + dump(a) + ",\"ev\":[" + evs + "],\"res\":" + r.json()
                        + ",\"st\":" + st + "}\n";
        std::fputs(o.c_str(), stdout);
    }
    g_call.clear();
    cleanup();
    std::fflush(stdout);
    return 0;
}

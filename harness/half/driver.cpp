// Conformance driver for half_float::half (properties C08, C09).
//
// Reads requests (ndjson) on stdin, evaluates the real xtl operators/functions on the requested
// operands and prints each request line extended with the observed results ("r", "r2", ...).
// No oracle in here: execute + print.  Results are bit patterns (integers 0..65535), booleans as
// 0/1, integers clipped to +-2^30 (TLC integers are 32-bit), wider words as 16-bit limbs.
//
//   {"k":"hdr","S":[..],"E":[..]}     column operands for "bin"/"nt" rows (S) and "ld" rows (E)
//   {"k":"un","f":F,"base":b,"n":n}   unary F on the halves b, b+1, .., b+n-1
//   {"k":"ux","f":F,"x":[..]}          unary F on the listed halves
//   (an integer field "cr":1 is echoed like every other integer field: it tells HalfCheck.tla to judge the row against the
//    enclosure of the real function, specs/HalfTrans.tla)
//   {"k":"bin","f":F,"a":a}           binary F(a, S[j]) for every j
//   {"k":"ld","f":F,"a":a}            F(a, E[j]) for ldexp/scalbn/scalbln
//   {"k":"nt","f":"nexttoward","a":a} nexttoward(a, (long double)S[j] moved by -1/0/+1 long-double ulps)
//   {"k":"f2h","hi":[..],"lo":[..]}   float (two 16-bit limbs of its bits) -> half
//   {"k":"d2h","w3":..,"w0":[..]}     double (four 16-bit limbs) -> half
//   {"k":"i2h","x":[..]}              integer -> half
//   {"k":"imin","t":[..]}             most negative value of signed char/short/int/long/long long (t = 0..4) -> half
//   {"k":"fma","x":[..],"y":[..],"z":[..]}
//   {"k":"tri","f":"hypot3","x":[..],"y":[..],"z":[..]}   hypot(x, y, z)
//   {"k":"pair","f":F,"x":[..],"y":[..]}   binary F on explicit operand pairs (x[j], y[j])
//   {"k":"sf2h","hi":[..],"lo":[..]}   operator>> applied to the exact decimal expansion of a finite float
//   {"k":"lim","t":[..]}               item t of the numeric_limits<half> / macro / nanh table below
//   {"k":"lit","t":[..]}               item t of the table of _h literals below
// Any row may carry "rm": 1 upward, 2 downward, 3 toward zero - the thread's rounding direction while it is evaluated.
// A row that uses more than VERIF_HALF_ROW_LIMIT (default 20) seconds of CPU ends the table with a Crash line
// ("why":"timeout"): a call that does not return is an observation, not a reason to lose the run.
//
// Built twice by the checks: -mf16c (HALF_ENABLE_F16C_INTRINSICS on) and -mno-f16c.
#include <cstdint>
#include <cstring>
#include <cmath>
#include <climits>
#include <cfloat>
#include <cfenv>
#include <string>
#include <vector>
#include <iostream>
#include <functional>
#include <sstream>
#include <iomanip>
#include <limits>
#include <sys/time.h>
#include "vjson.hpp"
#include "xtl/xhalf_float.hpp"

using half_float::half;
using half_float::half_cast;
typedef std::vector<long long> ivec;

static_assert(sizeof(half) == 2, "half is expected to be its 16-bit pattern");

static inline half mk(unsigned b)
{
    std::uint16_t u = (std::uint16_t)b;
    half h;
    std::memcpy(&h, &u, 2);
    return h;
}
static inline long long bits(half h)
{
    std::uint16_t u;
    std::memcpy(&u, &h, 2);
    return u;
}
static inline long long clip(long long v)
{
    const long long L = 1LL << 30;
    return v > L ? L : v < -L ? -L : v;
}
static inline float mkfloat(unsigned hi, unsigned lo)
{
    std::uint32_t u = ((std::uint32_t)hi << 16) | (std::uint32_t)lo;
    float f;
    std::memcpy(&f, &u, 4);
    return f;
}
static inline std::uint32_t fbits(float f)
{
    std::uint32_t u;
    std::memcpy(&u, &f, 4);
    return u;
}
static inline double mkdouble(unsigned w3, unsigned w2, unsigned w1, unsigned w0)
{
    std::uint64_t u = ((std::uint64_t)w3 << 48) | ((std::uint64_t)w2 << 32) | ((std::uint64_t)w1 << 16) | (std::uint64_t)w0;
    double d;
    std::memcpy(&d, &u, 8);
    return d;
}
static inline std::uint64_t dbits(double d)
{
    std::uint64_t u;
    std::memcpy(&u, &d, 8);
    return u;
}

struct Out
{
    ivec r[8];
    void limbs64(int at, std::uint64_t v)
    {
        r[at].push_back((v >> 48) & 0xFFFF); r[at + 1].push_back((v >> 32) & 0xFFFF);
        r[at + 2].push_back((v >> 16) & 0xFFFF); r[at + 3].push_back(v & 0xFFFF);
    }
};

static const char* RN[8] = {"r", "r2", "r3", "r4", "r5", "r6", "r7", "r8"};

static int fpclass_code(int c)
{
    return c == FP_ZERO ? 0 : c == FP_SUBNORMAL ? 1 : c == FP_NORMAL ? 2 : c == FP_INFINITE ? 3 : c == FP_NAN ? 4 : 5;
}

// ------------------------------------------------------------------ tables of constants
static bool limits_item(long long t, long long& out)
{
    typedef std::numeric_limits<half> L;
    switch (t)
    {
    case 0: out = L::is_specialized; return true;
    case 1: out = L::is_signed; return true;
    case 2: out = L::is_integer; return true;
    case 3: out = L::is_exact; return true;
    case 4: out = L::is_bounded; return true;
    case 5: out = L::is_iec559; return true;
    case 6: out = L::has_infinity; return true;
    case 7: out = L::has_quiet_NaN; return true;
    case 8: out = L::has_signaling_NaN; return true;
    case 9: out = L::has_denorm == std::denorm_present; return true;
    case 10: out = L::round_style == std::round_to_nearest; return true;
    case 11: out = L::digits; return true;
    case 12: out = L::digits10; return true;
    case 13: out = L::max_digits10; return true;
    case 14: out = L::radix; return true;
    case 15: out = L::min_exponent; return true;
    case 16: out = L::min_exponent10; return true;
    case 17: out = L::max_exponent; return true;
    case 18: out = L::max_exponent10; return true;
    case 19: out = bits(L::min()); return true;
    case 20: out = bits(L::lowest()); return true;
    case 21: out = bits(L::max()); return true;
    case 22: out = bits(L::epsilon()); return true;
    case 23: out = bits(L::round_error()); return true;
    case 24: out = bits(L::infinity()); return true;
    case 25: out = bits(L::quiet_NaN()); return true;
    case 26: out = bits(L::signaling_NaN()); return true;
    case 27: out = bits(L::denorm_min()); return true;
    case 28: out = bits(HUGE_VALH); return true;
    case 29: out = HLF_ROUNDS; return true;
    case 30: out = bits(half_float::nanh("")); return true;
    case 31: out = bits(half_float::nanh("1")); return true;
    case 32: out = bits(half_float::nanh("abc")); return true;
    case 33: out = bits(half_float::nanh("0x7fffffffffffffff\xff\x80")); return true;
    case 34: out = sizeof(half) == 2; return true;
    case 35: { half z; half v = half(); out = bits(z) | bits(v); return true; }
    case 36: out = L::traps; return true;
    case 37: out = L::tinyness_before; return true;
    case 38: out = L::is_modulo; return true;
    case 39: out = L::has_denorm_loss; return true;
    }
    return false;
}

// _h literals: every literal below is exactly representable as a double, so the double names the literal's value
struct Lit { double value; long long bits16; };
static const std::vector<Lit>& literals()
{
    using namespace half_float::literal;
#define LIT(x) { (double)x##L, (long double)(double)x##L == x##L ? bits(x##_h) : -1 }      // -1: not exact as a double, the table is wrong
    static const std::vector<Lit> T = {
        LIT(0.0), LIT(1.0), LIT(0.5), LIT(1.5), LIT(2.0), LIT(3.0), LIT(1000.0), LIT(65504.0), LIT(65519.0), LIT(65519.9990234375), LIT(65520.0),
        LIT(65520.00000095367431640625), LIT(65536.0), LIT(100000.0), LIT(1267650600228229401496703205376.0),
        LIT(0.0000000000000000000000000000007888609052210118054117285652827862296732064351090230047702789306640625), LIT(0.00006103515625),
        LIT(0.000030517578125), LIT(0.000060975551605224609375), LIT(0.000000059604644775390625), LIT(0.0000000298023223876953125),
        LIT(0.0000000298023223876961595329472543003390683225006796419620513916015625),
        LIT(0.0000000298023223876944654670527456996609316774993203580379486083984375), LIT(0.0000000894069671630859375),
        LIT(0.000000089406967162218575762011596452794037759304046630859375), LIT(0.00000001490116119384765625), LIT(1.00048828125), LIT(1.00146484375),
        LIT(1.0004882812500002220446049250313080847263336181640625), LIT(1.0004882812499997779553950749686919152736663818359375),
        LIT(1.0014648437499997779553950749686919152736663818359375), LIT(2049.0), LIT(2051.0), LIT(2050.0), LIT(4098.0), LIT(1023.5), LIT(1024.5),
        LIT(1025.5), LIT(0.99951171875), LIT(0.999755859375), LIT(0.9998779296875), LIT(32752.0), LIT(32760.0), LIT(0.0000610053539276123046875),
        LIT(0.00006102025508880615234375), LIT(0.333251953125), LIT(4.00390625)
    };
#undef LIT
    return T;
}

// the exact decimal expansion of a finite float (glibc prints all digits that are asked for)
static std::string exact_text(float f)
{
    char buf[400];
    std::snprintf(buf, sizeof buf, "%.200g", (double)f);
    return buf;
}

// ------------------------------------------------------------------ unary
static bool unary(const std::string& f, half h, Out& o)
{
    using namespace half_float;
#define U1(name, expr) if (f == name) { o.r[0].push_back(bits(expr)); return true; }
#define UB(name, expr) if (f == name) { o.r[0].push_back((expr) ? 1 : 0); return true; }
    U1("neg", -h) U1("pos", +h) U1("fabs", fabs(h)) U1("abs", abs(h)) U1("sqrt", sqrt(h))
    UB("isnan", isnan(h)) UB("isinf", isinf(h)) UB("isfinite", isfinite(h)) UB("isnormal", isnormal(h)) UB("signbit", signbit(h))
    if (f == "fpclassify") { o.r[0].push_back(fpclass_code(fpclassify(h))); return true; }
    if (f == "h2f")
    {
        float a = h;                       // operator float()
        float b = half_cast<float>(h);
        o.r[0].push_back(fbits(a) >> 16); o.r[1].push_back(fbits(a) & 0xFFFF);
        o.r[2].push_back(fbits(b) >> 16); o.r[3].push_back(fbits(b) & 0xFFFF);
        return true;
    }
    if (f == "h2d") { o.limbs64(0, dbits(half_cast<double>(h))); return true; }
    if (f == "h2ld")
    {
        long double v = half_cast<long double>(h);
        double d = (double)v;
        o.limbs64(0, dbits(d));
        o.r[4].push_back(((long double)d == v || (v != v && d != d)) ? 1 : 0);   // nothing lost in the print
        return true;
    }
    if (f == "h2i")
    {
        o.r[0].push_back(clip(half_cast<int>(h)));
        o.r[1].push_back(clip(half_cast<long long>(h)));
        o.r[2].push_back(isfinite(h) ? clip(static_cast<int>(static_cast<float>(h))) : 0);   // conversion of inf/NaN is undefined in C++
        o.r[3].push_back(clip(half_cast<long>(h)));
        return true;
    }
    if (f == "hash")
    {
        std::hash<half> H;
        half eq = (bits(h) & 0x7FFF) == 0 ? mk((unsigned)bits(h) ^ 0x8000u) : half(static_cast<float>(h));  // an equal value by another route
        o.limbs64(0, (std::uint64_t)H(h));
        o.limbs64(4, (std::uint64_t)H(eq));
        return true;
    }
    if (f == "roundtrip")
    {
        half a(static_cast<float>(h));                 // converting constructor
        half b; b = static_cast<float>(h);             // assignment from float
        half c = half_cast<half>(half_cast<double>(h));
        o.r[0].push_back(bits(a)); o.r[1].push_back(bits(b)); o.r[2].push_back(bits(c));
        o.r[3].push_back(bits(half_cast<half>(h)));
        return true;
    }
    if (f == "incdec")
    {
        half a = h; half ra = ++a;
        half b = h; half rb = b++;
        half c = h; half rc = --c;
        half d = h; half rd = d--;
        o.r[0].push_back(bits(a)); o.r[1].push_back(bits(ra)); o.r[2].push_back(bits(b)); o.r[3].push_back(bits(rb));
        o.r[4].push_back(bits(c)); o.r[5].push_back(bits(rc)); o.r[6].push_back(bits(d)); o.r[7].push_back(bits(rd));
        return true;
    }
    // ---- C09
    U1("ceil", ceil(h)) U1("floor", floor(h)) U1("trunc", trunc(h)) U1("round", round(h)) U1("rint", rint(h)) U1("nearbyint", nearbyint(h))
    if (f == "lround") { o.r[0].push_back(clip(lround(h))); return true; }
    if (f == "lrint") { o.r[0].push_back(clip(lrint(h))); return true; }
    if (f == "llround") { o.r[0].push_back(clip(llround(h))); return true; }
    if (f == "llrint") { o.r[0].push_back(clip(llrint(h))); return true; }
    if (f == "frexp") { int e = 12345; half m = frexp(h, &e); o.r[0].push_back(bits(m)); o.r[1].push_back(clip(e)); return true; }
    if (f == "modf") { half ip = mk(0x1234); half fr = modf(h, &ip); o.r[0].push_back(bits(fr)); o.r[1].push_back(bits(ip)); return true; }
    if (f == "ilogb")
    {
        int v = ilogb(h);
        o.r[0].push_back(clip(v)); o.r[1].push_back(v == FP_ILOGB0); o.r[2].push_back(v == INT_MAX); o.r[3].push_back(v == FP_ILOGBNAN);
        return true;
    }
    U1("logb", logb(h))
    U1("cbrt_full", cbrt(h))
    if (f == "stream")
    {
        std::ostringstream os;
        os << std::setprecision(9) << h;                 // operator<<
        const std::string text = os.str();
        float back = std::strtof(text.c_str(), nullptr);
        std::istringstream is(text);
        half again = mk(0x1234);
        bool ok = static_cast<bool>(is >> again);        // operator>>
        o.r[0].push_back(fbits(back) >> 16); o.r[1].push_back(fbits(back) & 0xFFFF);
        o.r[2].push_back(bits(again)); o.r[3].push_back(ok ? 1 : 0);
        return true;
    }
    U1("exp", exp(h)) U1("exp2", exp2(h)) U1("expm1", expm1(h)) U1("log", log(h)) U1("log10", log10(h)) U1("log2", log2(h)) U1("log1p", log1p(h))
    U1("cbrt", cbrt(h)) U1("sin", sin(h)) U1("cos", cos(h)) U1("tan", tan(h)) U1("asin", asin(h)) U1("acos", acos(h)) U1("atan", atan(h))
    U1("sinh", sinh(h)) U1("cosh", cosh(h)) U1("tanh", tanh(h)) U1("asinh", asinh(h)) U1("acosh", acosh(h)) U1("atanh", atanh(h))
    U1("erf", erf(h)) U1("erfc", erfc(h)) U1("lgamma", lgamma(h)) U1("tgamma", tgamma(h))
    if (f == "sincos_routes")       // both outputs of the combined entry point, and the stand-alone functions at the same argument
    {
        half s = mk(0x1234), c = mk(0x1234); sincos(h, &s, &c);
        o.r[0].push_back(bits(s)); o.r[1].push_back(bits(c)); o.r[2].push_back(bits(sin(h))); o.r[3].push_back(bits(cos(h)));
        return true;
    }
    if (f == "sincos") { half s = mk(0x1234), c = mk(0x1234); sincos(h, &s, &c); o.r[0].push_back(bits(s)); o.r[1].push_back(bits(c)); return true; }
#undef U1
#undef UB
    return false;
}

// ------------------------------------------------------------------ binary
static bool binary(const std::string& f, half a, half b, Out& o)
{
    using namespace half_float;
#define B1(name, expr) if (f == name) { o.r[0].push_back(bits(expr)); return true; }
    B1("add", a + b) B1("sub", a - b) B1("mul", a * b) B1("div", a / b)
    if (f == "add_eq") { half t = a; t += b; o.r[0].push_back(bits(t)); return true; }
    if (f == "sub_eq") { half t = a; t -= b; o.r[0].push_back(bits(t)); return true; }
    if (f == "mul_eq") { half t = a; t *= b; o.r[0].push_back(bits(t)); return true; }
    if (f == "div_eq") { half t = a; t /= b; o.r[0].push_back(bits(t)); return true; }
    // mixed operands: the other operand is converted to half first (exactly representable here)
    if (f == "add_f") { o.r[0].push_back(bits(a + static_cast<float>(b))); o.r[1].push_back(bits(static_cast<float>(a) + b)); return true; }
    if (f == "sub_f") { o.r[0].push_back(bits(a - static_cast<float>(b))); o.r[1].push_back(bits(static_cast<float>(a) - b)); return true; }
    if (f == "mul_f") { o.r[0].push_back(bits(a * static_cast<float>(b))); o.r[1].push_back(bits(static_cast<float>(a) * b)); return true; }
    if (f == "div_f") { o.r[0].push_back(bits(a / static_cast<float>(b))); o.r[1].push_back(bits(static_cast<float>(a) / b)); return true; }
    if (f == "cmp")
    {
        int m = (a == b) | ((a != b) << 1) | ((a < b) << 2) | ((a > b) << 3) | ((a <= b) << 4) | ((a >= b) << 5)
              | (isgreater(a, b) << 6) | (isgreaterequal(a, b) << 7) | (isless(a, b) << 8) | (islessequal(a, b) << 9)
              | (islessgreater(a, b) << 10) | (isunordered(a, b) << 11);
        float fb = static_cast<float>(b);
        int m2 = (a == fb) | ((a != fb) << 1) | ((a < fb) << 2) | ((a > fb) << 3) | ((a <= fb) << 4) | ((a >= fb) << 5);
        std::hash<half> H;
        o.r[0].push_back(m); o.r[1].push_back(bits(copysign(a, b))); o.r[2].push_back(H(a) == H(b) ? 1 : 0); o.r[3].push_back(m2);
        return true;
    }
    // ---- C09
    B1("fmod", fmod(a, b)) B1("remainder", remainder(a, b)) B1("fdim", fdim(a, b)) B1("fmax", fmax(a, b)) B1("fmin", fmin(a, b))
    B1("nextafter", nextafter(a, b)) B1("atan2", atan2(a, b)) B1("pow", pow(a, b)) B1("hypot", hypot(a, b)) B1("hypot_full", hypot(a, b))
    if (f == "remquo") { int q = 12345; half r = remquo(a, b, &q); o.r[0].push_back(bits(r)); o.r[1].push_back(clip(q)); return true; }
#undef B1
    return false;
}

// a row that does not return: close the table with a Crash line (no row kind of HalfCheck.tla matches it)
static void on_row_timeout(int)
{
    std::fflush(stdout);
    vj::crash_line("timeout");
    _exit(0);
}
static void arm_row_limit(long seconds)
{
    struct itimerval it;
    std::memset(&it, 0, sizeof it);
    it.it_value.tv_sec = seconds;
    setitimer(ITIMER_VIRTUAL, &it, nullptr);
}

static long double moved(half h, int d)
{
    long double y = half_cast<long double>(h);
    if (d > 0) y = nextafterl(y, HUGE_VALL);
    if (d < 0) y = nextafterl(y, -HUGE_VALL);
    return y;
}

static void emit(const vj::value& req, const Out& o)
{
    std::string s = "{";
    bool first = true;
    for (auto& kv : req.o)
    {
        if (kv.first == "hi" || kv.first == "lo" || kv.first == "w3" || kv.first == "w2" || kv.first == "w1" || kv.first == "w0" ||
            kv.first == "x" || kv.first == "y" || kv.first == "z" || kv.first == "S" || kv.first == "E" || kv.first == "t")
        {
            if (!first) s += ',';
            first = false;
            s += '"'; s += kv.first; s += "\":";
            ivec v; for (auto& e : kv.second.a) v.push_back(e.i);
            s += vj::ints(v);
        }
        else if (kv.second.kind == vj::value::STR) { if (!first) s += ','; first = false; s += '"' + kv.first + "\":\"" + kv.second.s + '"'; }
        else if (kv.second.kind == vj::value::INT) { if (!first) s += ','; first = false; s += '"' + kv.first + "\":" + std::to_string(kv.second.i); }
    }
    for (int i = 0; i < 8; ++i)
        if (!o.r[i].empty()) { s += ",\""; s += RN[i]; s += "\":"; s += vj::ints(o.r[i]); }
    s += "}\n";
    std::fputs(s.c_str(), stdout);
}

int main()
{
    vj::install_crash_handlers();
    std::signal(SIGVTALRM, on_row_timeout);
    const char* lim = std::getenv("VERIF_HALF_ROW_LIMIT");
    const long row_limit = lim && std::atol(lim) > 0 ? std::atol(lim) : 20;
    std::ios::sync_with_stdio(false);
    std::string line;
    ivec S, E;
    long long nline = 0;
    while (std::getline(std::cin, line))
    {
        ++nline;
        if (line.empty()) continue;
        arm_row_limit(row_limit);
        vj::value req = vj::parse(line);
        const std::string& k = req.str("k");
        Out o;
        bool ok = true;
        // optional "rm": the calling thread's floating-point rounding direction while this row is evaluated
        // (0 nearest, 1 upward, 2 downward, 3 toward zero).  half's own operations and float->half conversion
        // are defined as round-to-nearest-even whatever the environment says.
        static const int RM[4] = { FE_TONEAREST, FE_UPWARD, FE_DOWNWARD, FE_TOWARDZERO };
        const bool setrm = req.has("rm");
        if (setrm) std::fesetround(RM[(int)req.num("rm") & 3]);
        if (k == "hdr")
        {
            if (req.has("S")) S = req.ints("S");
            if (req.has("E")) E = req.ints("E");
        }
        else if (k == "un")
        {
            const std::string& f = req.str("f");
            long long base = req.num("base"), n = req.num("n");
            for (long long i = 0; i < n && ok; ++i) ok = unary(f, mk((unsigned)(base + i)), o);
        }
        else if (k == "bin")
        {
            const std::string& f = req.str("f");
            half a = mk((unsigned)req.num("a"));
            for (size_t j = 0; j < S.size() && ok; ++j) ok = binary(f, a, mk((unsigned)S[j]), o);
        }
        else if (k == "ux")        // unary F on the listed halves x[0], x[1], ..
        {
            const std::string& f = req.str("f");
            ivec x = req.ints("x");
            for (size_t j = 0; j < x.size() && ok; ++j) ok = unary(f, mk((unsigned)x[j]), o);
        }
        else if (k == "ld")
        {
            const std::string& f = req.str("f");
            half a = mk((unsigned)req.num("a"));
            for (size_t j = 0; j < E.size(); ++j)
            {
                half r = f == "ldexp" ? half_float::ldexp(a, (int)E[j]) : f == "scalbn" ? half_float::scalbn(a, (int)E[j]) : half_float::scalbln(a, (long)E[j]);
                o.r[0].push_back(bits(r));
            }
            ok = (f == "ldexp" || f == "scalbn" || f == "scalbln");
        }
        else if (k == "nt")
        {
            half a = mk((unsigned)req.num("a"));
            for (size_t j = 0; j < S.size(); ++j)
                for (int d = -1; d <= 1; ++d)
                    o.r[d + 1].push_back(bits(half_float::nexttoward(a, moved(mk((unsigned)S[j]), d))));
        }
        else if (k == "f2h")
        {
            ivec hi = req.ints("hi"), lo = req.ints("lo");
            for (size_t j = 0; j < hi.size(); ++j)
            {
                float v = mkfloat((unsigned)hi[j], (unsigned)lo[j]);
                half a(v);                       // converting constructor
                half b = half_cast<half>(v);     // half_cast
                half c; c = v;                   // assignment
                o.r[0].push_back(bits(a)); o.r[1].push_back(bits(b)); o.r[2].push_back(bits(c));
            }
        }
        else if (k == "d2h")
        {
            ivec w3 = req.ints("w3"), w2 = req.ints("w2"), w1 = req.ints("w1"), w0 = req.ints("w0");
            for (size_t j = 0; j < w3.size(); ++j)
            {
                double v = mkdouble((unsigned)w3[j], (unsigned)w2[j], (unsigned)w1[j], (unsigned)w0[j]);
                o.r[0].push_back(bits(half_cast<half>(v)));
                o.r[1].push_back(bits(half_cast<half>(static_cast<long double>(v))));
                o.r[2].push_back(bits(half(v)));                   // converting constructor: documented to go through float
                o.r[3].push_back(fbits(static_cast<float>(v)) >> 16);   // that float, for the record
                o.r[4].push_back(fbits(static_cast<float>(v)) & 0xFFFF);
            }
        }
        else if (k == "i2h")
        {
            ivec x = req.ints("x");
            for (size_t j = 0; j < x.size(); ++j)
            {
                long long v = x[j];
                o.r[0].push_back(bits(half_cast<half>(static_cast<int>(v))));
                o.r[1].push_back(bits(half_cast<half>(v)));
                o.r[2].push_back(bits(half(static_cast<int>(v))));
                o.r[3].push_back(v >= SHRT_MIN && v <= SHRT_MAX ? bits(half_cast<half>(static_cast<short>(v))) : -1);
                o.r[4].push_back(v >= 0 ? bits(half_cast<half>(static_cast<unsigned>(v))) : -1);
                o.r[5].push_back(bits(half_cast<half>(static_cast<long>(v))));
            }
        }
        else if (k == "imin")
        {
            // the most negative value of each signed integer type (wider than TLC's integers: named by a type code)
            ivec t = req.ints("t");
            for (size_t j = 0; j < t.size(); ++j)
            {
                half r = t[j] == 0 ? half_cast<half>(static_cast<signed char>(SCHAR_MIN)) : t[j] == 1 ? half_cast<half>(static_cast<short>(SHRT_MIN))
                       : t[j] == 2 ? half_cast<half>(INT_MIN) : t[j] == 3 ? half_cast<half>(LONG_MIN) : half_cast<half>(LLONG_MIN);
                o.r[0].push_back(bits(r));
            }
        }
        else if (k == "fma")
        {
            ivec x = req.ints("x"), y = req.ints("y"), z = req.ints("z");
            for (size_t j = 0; j < x.size(); ++j)
                o.r[0].push_back(bits(half_float::fma(mk((unsigned)x[j]), mk((unsigned)y[j]), mk((unsigned)z[j]))));
        }
        else if (k == "tri")
        {
            ivec x = req.ints("x"), y = req.ints("y"), z = req.ints("z");
            ok = req.str("f") == "hypot3";
            for (size_t j = 0; j < x.size() && ok; ++j)
                o.r[0].push_back(bits(half_float::hypot(mk((unsigned)x[j]), mk((unsigned)y[j]), mk((unsigned)z[j]))));
        }
        else if (k == "pair")
        {
            const std::string& f = req.str("f");
            ivec x = req.ints("x"), y = req.ints("y");
            for (size_t j = 0; j < x.size() && ok; ++j) ok = binary(f, mk((unsigned)x[j]), mk((unsigned)y[j]), o);
        }
        else if (k == "sf2h")
        {
            ivec hi = req.ints("hi"), lo = req.ints("lo");
            for (size_t j = 0; j < hi.size(); ++j)
            {
                std::istringstream is(exact_text(mkfloat((unsigned)hi[j], (unsigned)lo[j])));
                half a = mk(0x1234);
                bool good = static_cast<bool>(is >> a);      // operator>>
                o.r[0].push_back(bits(a)); o.r[1].push_back(good ? 1 : 0);
            }
        }
        else if (k == "lim")
        {
            ivec t = req.ints("t");
            for (size_t j = 0; j < t.size() && ok; ++j) { long long v = 0; ok = limits_item(t[j], v); o.r[0].push_back(clip(v)); }
        }
        else if (k == "lit")
        {
            ivec t = req.ints("t");
            const std::vector<Lit>& T = literals();
            for (size_t j = 0; j < t.size() && ok; ++j)
            {
                ok = t[j] >= 0 && (size_t)t[j] < T.size() && T[(size_t)t[j]].bits16 >= 0;
                if (!ok) break;
                o.r[0].push_back(T[(size_t)t[j]].bits16);
                o.limbs64(1, dbits(T[(size_t)t[j]].value));
            }
        }
        else ok = false;
        if (!ok)
        {
            std::fprintf(stderr, "request line %lld: unknown kind/function: %.200s\n", nline, line.c_str());
            return 3;
        }
        if (setrm) std::fesetround(FE_TONEAREST);
        emit(req, o);
        arm_row_limit(0);
    }
    std::fflush(stdout);
    return 0;
}

// Minimal JSON reader/writer for the conformance harnesses (script in, ndjson trace out).
// No oracle logic lives here.
#ifndef VERIF_VJSON_HPP
#define VERIF_VJSON_HPP
#include <cstdint>
#include <cstdio>
#include <cstdlib>
#include <cstring>
#include <map>
#include <memory>
#include <string>
#include <vector>
#include <stdexcept>
#include <exception>
#include <csignal>
#include <unistd.h>

namespace vj
{
    struct value;
    using vptr = std::shared_ptr<value>;
    struct value
    {
        enum kind_t { NUL, BOOL, INT, STR, ARR, OBJ } kind = NUL;
        bool b = false;
        long long i = 0;
        std::string s;
        std::vector<value> a;
        std::vector<std::pair<std::string, value>> o;

        const value* find(const char* k) const
        {
            for (auto& p : o) if (p.first == k) return &p.second;
            return nullptr;
        }
        const value& at(const char* k) const
        {
            const value* v = find(k);
            if (!v) { std::fprintf(stderr, "script: missing key %s\n", k); std::exit(3); }
            return *v;
        }
        long long num(const char* k) const { return at(k).i; }
        long long num(const char* k, long long d) const { auto v = find(k); return v ? v->i : d; }
        const std::string& str(const char* k) const { return at(k).s; }
        bool has(const char* k) const { return find(k) != nullptr; }
        std::vector<long long> ints(const char* k) const
        {
            std::vector<long long> r;
            for (auto& e : at(k).a) r.push_back(e.i);
            return r;
        }
    };

    struct parser
    {
        const char* p;
        explicit parser(const char* s) : p(s) {}
        void ws() { while (*p == ' ' || *p == '\t' || *p == '\n' || *p == '\r') ++p; }
        [[noreturn]] void fail(const char* m) { std::fprintf(stderr, "json parse error: %s at '%.30s'\n", m, p); std::exit(3); }
        value parse()
        {
            ws();
            value v;
            if (*p == '{')
            {
                v.kind = value::OBJ; ++p; ws();
                if (*p == '}') { ++p; return v; }
                for (;;)
                {
                    ws();
                    value k = parse();
                    if (k.kind != value::STR) fail("key");
                    ws(); if (*p != ':') fail(":"); ++p;
                    value e = parse();
                    v.o.emplace_back(k.s, std::move(e));
                    ws();
                    if (*p == ',') { ++p; continue; }
                    if (*p == '}') { ++p; break; }
                    fail(", or }");
                }
            }
            else if (*p == '[')
            {
                v.kind = value::ARR; ++p; ws();
                if (*p == ']') { ++p; return v; }
                for (;;)
                {
                    v.a.push_back(parse());
                    ws();
                    if (*p == ',') { ++p; continue; }
                    if (*p == ']') { ++p; break; }
                    fail(", or ]");
                }
            }
            else if (*p == '"')
            {
                v.kind = value::STR; ++p;
                while (*p && *p != '"')
                {
                    if (*p == '\\') { ++p; if (*p == 'n') v.s += '\n'; else v.s += *p; ++p; }
                    else v.s += *p++;
                }
                if (*p != '"') fail("string");
                ++p;
            }
            else if (*p == 't') { v.kind = value::BOOL; v.b = true; p += 4; }
            else if (*p == 'f') { v.kind = value::BOOL; v.b = false; p += 5; }
            else if (*p == 'n') { p += 4; }
            else
            {
                v.kind = value::INT;
                char* e; v.i = std::strtoll(p, &e, 10);
                if (e == p) fail("value");
                p = e;
            }
            return v;
        }
    };

    inline value parse(const std::string& s) { parser P(s.c_str()); return P.parse(); }

    // ---------------------------------------------------------------- writer
    struct out
    {
        std::string buf;
        bool first = true;
        void raw(const std::string& s) { buf += s; }
        void key(const char* k) { if (!first) buf += ','; first = false; buf += '"'; buf += k; buf += "\":"; }
        out& kv(const char* k, long long v) { key(k); buf += std::to_string(v); return *this; }
        out& kb(const char* k, bool v) { key(k); buf += v ? "true" : "false"; return *this; }
        out& ks(const char* k, const std::string& v) { key(k); buf += '"'; buf += v; buf += '"'; return *this; }
        out& kraw(const char* k, const std::string& v) { key(k); buf += v; return *this; }
        template <class C> out& kints(const char* k, const C& c)
        {
            key(k); buf += '[';
            bool f = true;
            for (auto x : c) { if (!f) buf += ','; f = false; buf += std::to_string((long long)x); }
            buf += ']';
            return *this;
        }
        std::string obj() const { return "{" + buf + "}"; }
    };

    template <class C> inline std::string ints(const C& c)
    {
        std::string b = "[";
        bool f = true;
        for (auto x : c) { if (!f) b += ','; f = false; b += std::to_string((long long)x); }
        return b + "]";
    }

    // A crash (sanitizer report, abort, terminate) truncates the trace at a well-defined
    // event: no spec action is called "Crash", so the trace is rejected there.
    inline void crash_line(const char* why)
    {
        char b[160];
        int n = std::snprintf(b, sizeof b, "\n{\"op\":\"Crash\",\"why\":\"%s\"}\n", why);
        if (::write(1, b, (size_t)n) < 0) {}
    }
    inline void on_signal(int sig)
    {
        std::fflush(stdout);
        crash_line(sig == SIGSEGV ? "SIGSEGV" : sig == SIGABRT ? "SIGABRT" : sig == SIGFPE ? "SIGFPE" : "signal");
        _exit(0);
    }
    inline void on_terminate()
    {
        std::fflush(stdout);
        crash_line("terminate");
        _exit(0);
    }
    inline void install_crash_handlers()
    {
        std::set_terminate(on_terminate);
        std::signal(SIGABRT, on_signal);
        std::signal(SIGFPE, on_signal);
        std::signal(SIGSEGV, on_signal);
        std::signal(SIGBUS, on_signal);
    }
}

// AddressSanitizer calls this before it dies: make the trace end with a Crash event.
extern "C" void __asan_on_error()
{
    std::fflush(stdout);
    vj::crash_line("asan");
}
#endif

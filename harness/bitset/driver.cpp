// C03 conformance harness: interprets a script of bitset operations (ndjson on stdin) on real
// xtl::xdynamic_bitset / xdynamic_bitset_view objects and writes, after every call, the call's
// result and the full observable projection of both objects.  It contains no oracle.
//
// Only the public interface of xdynamic_bitset.hpp is used.  A call that does not return within
// the per-call CPU limit, crashes or is reported by a sanitizer ends the trace with a Crash event
// (no spec action is called Crash); a script line the driver cannot follow because an earlier
// call left an object of another kind than the script assumes is answered with the result
// {"exc":"desync"}, which no spec action yields either.  The runner restarts the driver at the
// next Reset event.
#include <xtl/xdynamic_bitset.hpp>
#include "vjson.hpp"
#include <iostream>
#include <algorithm>
#include <utility>
#include <sys/time.h>

#ifndef C03_CALL_CPU_LIMIT_S
#define C03_CALL_CPU_LIMIT_S 3
#endif

static void on_cpu_limit(int)
{
    std::fflush(stdout);
    vj::crash_line("cpu-limit");
    _exit(0);
}
static void arm_cpu_limit()
{
    struct itimerval t;
    t.it_interval.tv_sec = 0; t.it_interval.tv_usec = 0;
    t.it_value.tv_sec = C03_CALL_CPU_LIMIT_S; t.it_value.tv_usec = 0;
    setitimer(ITIMER_PROF, &t, nullptr);
}

struct desync {};

template <class B>
struct machine
{
    using own_t = xtl::xdynamic_bitset<B>;
    using view_t = xtl::xdynamic_bitset_view<B>;
    static constexpr int W = int(sizeof(B) * 8);
    static constexpr int NG = 2;     // guard blocks on each side of a view's memory
    static constexpr B GPAT = B(0xA5A5A5A5A5A5A5A5ull);

    struct slot
    {
        std::unique_ptr<own_t> own;
        std::unique_ptr<view_t> view;
        std::unique_ptr<B[]> mem;   // exact-size heap block: guards | blocks | guards
        size_t nmem = 0;
        bool is_view() const { return bool(view); }
    };
    slot s[2];

    static B block_of(const vj::value& limbs)
    {
        unsigned long long v = 0;
        int sh = 0;
        for (auto& l : limbs.a) { v |= (unsigned long long)(l.i) << sh; sh += (W < 16 ? W : 16); }
        return B(v);
    }
    static std::vector<B> blocks_of(const vj::value& arr)
    {
        std::vector<B> r;
        for (auto& e : arr.a) r.push_back(block_of(e));
        return r;
    }
    static std::string limbs_of(B b)
    {
        std::string r = "[";
        unsigned long long v = (unsigned long long)b;
        int lw = W < 16 ? W : 16;
        for (int i = 0; i < W / lw; ++i)
        {
            if (i) r += ',';
            r += std::to_string((v >> (i * lw)) & ((1ull << lw) - 1));
        }
        return r + "]";
    }

    own_t& own(int k) { if (!s[k].own) throw desync(); return *s[k].own; }
    view_t& view(int k) { if (!s[k].view) throw desync(); return *s[k].view; }

    template <class F> auto with(int k, F&& f) { return s[k].is_view() ? f(*s[k].view) : f(*s[k].own); }
    // x = object k, y = object src (src may be k itself: self-application)
    template <class F> void with2(int k, int o, F&& f)
    {
        if (s[k].is_view()) { if (s[o].is_view()) f(*s[k].view, *s[o].view); else f(*s[k].view, *s[o].own); }
        else { if (s[o].is_view()) f(*s[k].own, *s[o].view); else f(*s[k].own, *s[o].own); }
    }

    // ---- two element references at once (RefPair): the call is made on the proxies in the value category the script names
    template <class C> static typename C::reference ref_of(C& c, const std::string& p, size_t t)
    {
        if (p == "index") return c[t];
        if (p == "at") return c.at(t);
        if (p == "front") return c.front();
        if (p == "back") return c.back();
        if (p == "iter") return *(c.begin() + std::ptrdiff_t(t));
        if (p == "riter") return *(c.rbegin() + std::ptrdiff_t(c.size() - 1 - t));
        std::fprintf(stderr, "script: bad reference path %s\n", p.c_str()); std::exit(3);
    }
    template <class R1, class R2> static void swap_refs(R1&& r1, R2&& r2, std::true_type) { swap(std::forward<R1>(r1), std::forward<R2>(r2)); }   // ADL
    template <class R1, class R2> static void swap_refs(R1&&, R2&&, std::false_type) { throw desync(); }      // no swap between reference types
    template <class X, class Y> static void iter_swap_refs(X& x, const std::string& p1, size_t i, Y& y, const std::string& p2, size_t j, std::true_type)
    {
        std::ptrdiff_t ri = std::ptrdiff_t(x.size() - 1 - i), rj = std::ptrdiff_t(y.size() - 1 - j);
        if (p1 == "iter" && p2 == "iter") std::iter_swap(x.begin() + std::ptrdiff_t(i), y.begin() + std::ptrdiff_t(j));
        else if (p1 == "iter" && p2 == "riter") std::iter_swap(x.begin() + std::ptrdiff_t(i), y.rbegin() + rj);
        else if (p1 == "riter" && p2 == "iter") std::iter_swap(x.rbegin() + ri, y.begin() + std::ptrdiff_t(j));
        else if (p1 == "riter" && p2 == "riter") std::iter_swap(x.rbegin() + ri, y.rbegin() + rj);
        else { std::fprintf(stderr, "script: iter_swap needs iterator paths\n"); std::exit(3); }
    }
    template <class X, class Y> static void iter_swap_refs(X&, const std::string&, size_t, Y&, const std::string&, size_t, std::false_type) { throw desync(); }
    template <class R1, class R2> static void pair_apply(const std::string& pk, R1&& r1, R2&& r2)
    {
        using same = std::is_same<typename std::decay<R1>::type, typename std::decay<R2>::type>;
        if (pk == "swap") swap_refs(std::forward<R1>(r1), std::forward<R2>(r2), same());
        else if (pk == "assign") r1 = std::forward<R2>(r2);
        else if (pk == "and") r1 &= r2;
        else if (pk == "or") r1 |= r2;
        else if (pk == "xor") r1 ^= r2;
        else { std::fprintf(stderr, "script: bad pair kind %s\n", pk.c_str()); std::exit(3); }
    }

    template <class BS> static std::string bitsval(const BS& r)
    {
        vj::out o;
        std::vector<int> bits;
        for (size_t i = 0; i < r.size(); ++i) bits.push_back(r[i] ? 1 : 0);
        o.kints("bits", bits);
        std::string blk = "[";
        for (size_t i = 0; i < r.block_count(); ++i) { if (i) blk += ','; blk += limbs_of(r.data()[i]); }
        o.kraw("blk", blk + "]");
        o.kv("size", (long long)r.size());
        return o.obj();
    }

    std::string proj(int k)
    {
        return with(k, [&](auto& x) {
            const auto& cx = x;
            vj::out o;
            o.ks("kind", s[k].is_view() ? "view" : "own");
            o.kv("size", (long long)cx.size());
            o.kb("empty", cx.empty());
            std::vector<int> bits, fwd, rev;
            for (size_t i = 0; i < cx.size(); ++i) bits.push_back(cx[i] ? 1 : 0);
            for (auto it = cx.begin(); it != cx.end(); ++it) { fwd.push_back(*it ? 1 : 0); if (fwd.size() > cx.size() + 8) break; }
            for (auto it = cx.rbegin(); it != cx.rend(); ++it) { rev.push_back(*it ? 1 : 0); if (rev.size() > cx.size() + 8) break; }
            o.kints("bits", bits).kints("fwd", fwd).kints("rev", rev);
            o.kv("nblk", (long long)cx.block_count());
            std::string blk = "[";
            for (size_t i = 0; i < cx.block_count(); ++i) { if (i) blk += ','; blk += limbs_of(cx.data()[i]); }
            o.kraw("blk", blk + "]");
            // the same blocks through the block iterators
            std::string bit = "[";
            size_t nb = 0;
            for (auto it = cx.block_begin(); it != cx.block_end(); ++it, ++nb)
            {
                if (nb > cx.block_count() + 4) break;
                if (nb) bit += ',';
                bit += limbs_of(*it);
            }
            o.kraw("bit", bit + "]");
            o.kv("count", (long long)cx.count());
            // second, independent routes to size() and count(): iterator distances and std::count over the const iterators
            o.kv("dist", (long long)(x.end() - x.begin()));
            o.kv("rdist", (long long)(cx.rend() - cx.rbegin()));
            o.kv("itcnt", (long long)std::count(cx.cbegin(), cx.cend(), true));
            o.kb("any", cx.any()).kb("all", cx.all()).kb("none", cx.none());
            bool g = true;
            for (int j = 0; j < 2; ++j)          // the caller memory of both slots (views may have been swapped)
                if (s[j].mem)
                    for (int i = 0; i < NG; ++i)
                        g = g && s[j].mem[i] == GPAT && s[j].mem[s[j].nmem - 1 - i] == GPAT;
            o.kb("guard", g);
            return o.obj();
        });
    }

    void make_own(int k, own_t* p) { s[k].view.reset(); s[k].own.reset(p); s[k].mem.reset(); s[k].nmem = 0; }

    static long long clip(size_t v) { return v > (size_t(1) << 30) ? (1ll << 30) : (long long)v; }

    // returns the "res" json
    std::string step(const vj::value& e)
    {
        const std::string& op = e.str("op");
        int k = int(e.num("k", 1)) - 1, o = 1 - k;
        const vj::value& a = e.at("a");
        int src = a.num("self", 0) ? k : o;          // right-hand operand of binary calls
        std::string val = "[]";
        const char* exc = "none";
        try
        {
            if (op == "Reset") { make_own(0, new own_t()); make_own(1, new own_t()); }
            else if (op == "CtorDefault") make_own(k, new own_t());
            else if (op == "CtorAlloc") make_own(k, new own_t(typename own_t::allocator_type()));
            else if (op == "CtorN") make_own(k, new own_t(size_t(a.num("n"))));
            else if (op == "CtorNV") make_own(k, new own_t(size_t(a.num("n")), a.num("v") != 0));
            else if (op == "CtorIL" || op == "AssignIL")
            {
                // std::initializer_list cannot be built at run time: use the fixed-arity forms
                auto b = a.ints("bits");
                auto B_ = [&](size_t i) { return b[i] != 0; };
                #define IL_CASE(n, ...) case n: { std::initializer_list<bool> l = {__VA_ARGS__}; if (op == "CtorIL") make_own(k, new own_t(l)); else own(k).assign(l); break; }
                switch (b.size())
                {
                    IL_CASE(0, )
                    IL_CASE(1, B_(0))
                    IL_CASE(2, B_(0), B_(1))
                    IL_CASE(3, B_(0), B_(1), B_(2))
                    IL_CASE(4, B_(0), B_(1), B_(2), B_(3))
                    IL_CASE(5, B_(0), B_(1), B_(2), B_(3), B_(4))
                    IL_CASE(6, B_(0), B_(1), B_(2), B_(3), B_(4), B_(5))
                    IL_CASE(7, B_(0), B_(1), B_(2), B_(3), B_(4), B_(5), B_(6))
                    IL_CASE(8, B_(0), B_(1), B_(2), B_(3), B_(4), B_(5), B_(6), B_(7))
                    IL_CASE(9, B_(0), B_(1), B_(2), B_(3), B_(4), B_(5), B_(6), B_(7), B_(8))
                    IL_CASE(10, B_(0), B_(1), B_(2), B_(3), B_(4), B_(5), B_(6), B_(7), B_(8), B_(9))
                    IL_CASE(11, B_(0), B_(1), B_(2), B_(3), B_(4), B_(5), B_(6), B_(7), B_(8), B_(9), B_(10))
                    IL_CASE(12, B_(0), B_(1), B_(2), B_(3), B_(4), B_(5), B_(6), B_(7), B_(8), B_(9), B_(10), B_(11))
                    IL_CASE(17, B_(0), B_(1), B_(2), B_(3), B_(4), B_(5), B_(6), B_(7), B_(8), B_(9), B_(10), B_(11), B_(12), B_(13), B_(14), B_(15), B_(16))
                    IL_CASE(33, B_(0), B_(1), B_(2), B_(3), B_(4), B_(5), B_(6), B_(7), B_(8), B_(9), B_(10), B_(11), B_(12), B_(13), B_(14), B_(15), B_(16), B_(17), B_(18), B_(19), B_(20), B_(21), B_(22), B_(23), B_(24), B_(25), B_(26), B_(27), B_(28), B_(29), B_(30), B_(31), B_(32))
                    IL_CASE(65, B_(0), B_(1), B_(2), B_(3), B_(4), B_(5), B_(6), B_(7), B_(8), B_(9), B_(10), B_(11), B_(12), B_(13), B_(14), B_(15), B_(16), B_(17), B_(18), B_(19), B_(20), B_(21), B_(22), B_(23), B_(24), B_(25), B_(26), B_(27), B_(28), B_(29), B_(30), B_(31), B_(32), B_(33), B_(34), B_(35), B_(36), B_(37), B_(38), B_(39), B_(40), B_(41), B_(42), B_(43), B_(44), B_(45), B_(46), B_(47), B_(48), B_(49), B_(50), B_(51), B_(52), B_(53), B_(54), B_(55), B_(56), B_(57), B_(58), B_(59), B_(60), B_(61), B_(62), B_(63), B_(64))
                    default: std::fprintf(stderr, "script: unsupported initializer_list length %zu\n", b.size()); std::exit(3);
                }
                #undef IL_CASE
            }
            else if (op == "CtorBlocks") { auto b = blocks_of(a.at("blocks")); make_own(k, new own_t(b.begin(), b.end())); }
            else if (op == "CtorCopy")
            {
                own_t* n = s[o].is_view() ? new own_t(*s[o].view) : new own_t(*s[o].own);
                make_own(k, n);
            }
            else if (op == "CtorMove")
            {
                // re = 1: the moved-from object is destroyed and default-constructed again at once
                // re = 0: it is kept and observed like any other object
                own_t* n = new own_t(std::move(own(o)));
                make_own(k, n);
                if (a.num("re")) make_own(o, new own_t());
            }
            else if (op == "MoveAssign")
            {
                own_t& src_o = own(o);
                own(k) = std::move(src_o);
                if (a.num("re")) make_own(o, new own_t());
            }
            else if (op == "CtorView")
            {
                auto b = blocks_of(a.at("blocks"));
                size_t nmem = b.size() + 2 * NG;
                std::unique_ptr<B[]> mem(new B[nmem]);
                for (size_t i = 0; i < nmem; ++i) mem[i] = GPAT;
                std::copy(b.begin(), b.end(), mem.get() + NG);
                std::unique_ptr<view_t> v(new view_t(mem.get() + NG, size_t(a.num("n"))));
                // the old object is only replaced when the constructor returned
                s[k].own.reset(); s[k].view = std::move(v); s[k].mem = std::move(mem); s[k].nmem = nmem;
            }
            else if (op == "AssignNV") own(k).assign(size_t(a.num("n")), a.num("v") != 0);
            else if (op == "AssignBlocks") { auto b = blocks_of(a.at("blocks")); own(k).assign(b.begin(), b.end()); }
            else if (op == "CopyAssign")
            {
                own_t& x = own(k);
                if (s[src].is_view()) x = *s[src].view; else x = *s[src].own;
            }
            else if (op == "Resize") own(k).resize(size_t(a.num("n")), a.num("v") != 0);
            else if (op == "Resize1") own(k).resize(size_t(a.num("n")));
            else if (op == "ResizeView") view(k).resize(size_t(a.num("n")));
            else if (op == "Clear") own(k).clear();
            else if (op == "PushBack") own(k).push_back(a.num("v") != 0);
            else if (op == "PopBack") own(k).pop_back();
            else if (op == "Reserve")
            {
                own_t& x = own(k);
                x.reserve(size_t(a.num("n")));
                const own_t& cx = x;
                val = "[" + std::to_string(clip(cx.capacity())) + "]";
            }
            else if (op == "MaxSize") { const own_t& cx = own(k); val = "[" + std::to_string(clip(cx.max_size())) + "]"; }
            else if (op == "SetAll") with(k, [&](auto& x) { x.set(); return 0; });
            else if (op == "ResetAll") with(k, [&](auto& x) { x.reset(); return 0; });
            else if (op == "FlipAll") with(k, [&](auto& x) { x.flip(); return 0; });
            else if (op == "Set") with(k, [&](auto& x) { x.set(size_t(a.num("i")), a.num("v") != 0); return 0; });
            else if (op == "Set1") with(k, [&](auto& x) { x.set(size_t(a.num("i"))); return 0; });
            else if (op == "ResetBit") with(k, [&](auto& x) { x.reset(size_t(a.num("i"))); return 0; });
            else if (op == "Flip") with(k, [&](auto& x) { x.flip(size_t(a.num("i"))); return 0; });
            else if (op == "ShlEq") with(k, [&](auto& x) { x <<= size_t(a.num("p")); return 0; });
            else if (op == "ShrEq") with(k, [&](auto& x) { x >>= size_t(a.num("p")); return 0; });
            else if (op == "AndEq") with2(k, src, [&](auto& x, auto& y) { x &= y; });
            else if (op == "OrEq") with2(k, src, [&](auto& x, auto& y) { x |= y; });
            else if (op == "XorEq") with2(k, src, [&](auto& x, auto& y) { x ^= y; });
            else if (op == "Not") with(k, [&](auto& x) { val = bitsval(~x); return 0; });
            else if (op == "And") with2(k, src, [&](auto& x, auto& y) { val = bitsval(x & y); });
            else if (op == "Or") with2(k, src, [&](auto& x, auto& y) { val = bitsval(x | y); });
            else if (op == "Xor") with2(k, src, [&](auto& x, auto& y) { val = bitsval(x ^ y); });
            else if (op == "Shl") with(k, [&](auto& x) { val = bitsval(x << size_t(a.num("p"))); return 0; });
            else if (op == "Shr") with(k, [&](auto& x) { val = bitsval(x >> size_t(a.num("p"))); return 0; });
            else if (op == "Swap")
            {
                const vj::value* hv = a.find("how");
                std::string how = hv ? hv->s : "member";
                if (s[k].is_view() != s[src].is_view()) throw desync();
                if (s[k].is_view())
                {
                    // two views exchange the memory they refer to (member swap only)
                    if (how != "member") throw desync();
                    view(k).swap(view(src));
                    // the caller memory each view now refers to goes with it
                    if (k != src) { std::swap(s[k].mem, s[src].mem); std::swap(s[k].nmem, s[src].nmem); }
                }
                else if (how == "member") own(k).swap(own(src));
                else if (how == "std") std::swap(own(k), own(src));
                else if (how == "adl") { using std::swap; swap(own(k), own(src)); }
                else { std::fprintf(stderr, "script: bad swap kind %s\n", how.c_str()); std::exit(3); }
            }
            else if (op == "At")
            {
                // c = "c": the const overload; "m": the non-const one
                const vj::value* cv = a.find("c");
                bool nonconst = cv && cv->s == "m";
                with(k, [&](auto& x) { const auto& cx = x; bool b = nonconst ? bool(x.at(size_t(a.num("i")))) : bool(cx.at(size_t(a.num("i")))); val = b ? "[1]" : "[0]"; return 0; });
            }
            else if (op == "Read")
            {
                const std::string& path = a.str("path");
                size_t i = size_t(a.num("i"));
                with(k, [&](auto& x) {
                    const auto& cx = x;
                    bool b;
                    if (path == "cindex") b = cx[i];
                    else if (path == "index") b = x[i];
                    else if (path == "at") b = x.at(i);
                    else if (path == "cat") b = cx.at(i);
                    else if (path == "front") b = x.front();
                    else if (path == "cfront") b = cx.front();
                    else if (path == "back") b = x.back();
                    else if (path == "cback") b = cx.back();
                    else if (path == "iter") b = *(x.begin() + std::ptrdiff_t(i));
                    else if (path == "citer") b = *(x.cbegin() + std::ptrdiff_t(i));
                    else if (path == "riter") b = *(x.rbegin() + std::ptrdiff_t(x.size() - 1 - i));
                    else if (path == "criter") b = *(x.crbegin() + std::ptrdiff_t(x.size() - 1 - i));
                    else if (path == "neg") b = ~x[i];
                    else if (path == "data") b = ((x.data()[i / W] >> (i % W)) & 1) != 0;          // non-const data()
                    else if (path == "cdata") b = ((cx.data()[i / W] >> (i % W)) & 1) != 0;        // const data()
                    else if (path == "blockit") b = ((*(cx.block_begin() + std::ptrdiff_t(i / W)) >> (i % W)) & 1) != 0;
                    else { std::fprintf(stderr, "script: bad read path %s\n", path.c_str()); std::exit(3); }
                    val = b ? "[1]" : "[0]";
                    return 0;
                });
            }
            else if (op == "RefWrite")
            {
                const std::string& path = a.str("path");
                const std::string& wk = a.str("wk");
                size_t i = size_t(a.num("i")), j = size_t(a.num("j"));
                bool v = a.num("v") != 0;
                with(k, [&](auto& x) {
                    auto apply = [&](auto&& r) {
                        if (wk == "assign") r = v;
                        else if (wk == "and") r &= v;
                        else if (wk == "or") r |= v;
                        else if (wk == "xor") r ^= v;
                        else if (wk == "flip") r.flip();
                        else if (wk == "aref") { auto src_r = x[j]; r = src_r; }
                        else if (wk == "ptr") { auto p = &r; *p = v; }          // through the reference's address-of closure
                        else { std::fprintf(stderr, "script: bad write kind %s\n", wk.c_str()); std::exit(3); }
                    };
                    if (path == "index") apply(x[i]);
                    else if (path == "at") apply(x.at(i));
                    else if (path == "front") apply(x.front());
                    else if (path == "back") apply(x.back());
                    else if (path == "iter") apply(*(x.begin() + std::ptrdiff_t(i)));
                    else if (path == "riter") apply(*(x.rbegin() + std::ptrdiff_t(x.size() - 1 - i)));
                    else { std::fprintf(stderr, "script: bad write path %s\n", path.c_str()); std::exit(3); }
                    return 0;
                });
            }
            else if (op == "RefPair")
            {
                // two element references: bit i of object k through path p1, bit j of object src through path p2
                const std::string& p1 = a.str("p1"); const std::string& p2 = a.str("p2");
                const std::string& pk = a.str("pk"); const std::string& vc = a.str("vc");
                size_t i = size_t(a.num("i")), j = size_t(a.num("j"));
                with2(k, src, [&](auto& x, auto& y) {
                    using X = typename std::decay<decltype(x)>::type; using Y = typename std::decay<decltype(y)>::type;
                    if (pk == "iterswap") iter_swap_refs(x, p1, i, y, p2, j, std::is_same<X, Y>());
                    else if (vc == "tmp") pair_apply(pk, ref_of(x, p1, i), ref_of(y, p2, j));
                    else if (vc == "named") { auto r1 = ref_of(x, p1, i); auto r2 = ref_of(y, p2, j); pair_apply(pk, r1, r2); }
                    else if (vc == "copy") { auto r1 = ref_of(x, p1, i); auto r2 = ref_of(y, p2, j); auto c1 = r1; auto c2(r2); pair_apply(pk, c1, c2); }
                    else { std::fprintf(stderr, "script: bad value category %s\n", vc.c_str()); std::exit(3); }
                });
            }
            else if (op == "Fill")
            {
                // std::fill over the iterator range [i, j) of the container
                size_t i = size_t(a.num("i")), j = size_t(a.num("j"));
                bool v = a.num("v") != 0;
                with(k, [&](auto& x) { std::fill(x.begin() + std::ptrdiff_t(i), x.begin() + std::ptrdiff_t(j), v); return 0; });
            }
            else if (op == "Algo")
            {
                // standard algorithms over the bit iterators; y = the other object (source of copyfrom / equal)
                const std::string& alg = a.str("alg");
                std::ptrdiff_t i = std::ptrdiff_t(a.num("i")), m = std::ptrdiff_t(a.num("m")), j = std::ptrdiff_t(a.num("j"));
                with2(k, o, [&](auto& x, auto& y) {
                    const auto& cx = x; const auto& cy = y;
                    if (alg == "reverse") std::reverse(x.begin() + i, x.begin() + j);
                    else if (alg == "rotate") std::rotate(x.begin() + i, x.begin() + m, x.begin() + j);
                    else if (alg == "iterswap") std::iter_swap(x.begin() + i, x.begin() + j);
                    else if (alg == "copyfrom") std::copy(cy.cbegin() + i, cy.cbegin() + j, x.begin() + m);
                    else if (alg == "copybwd") std::copy_backward(x.begin() + i, x.begin() + j, x.begin() + j + m);
                    else if (alg == "count") val = "[" + std::to_string((long long)std::count(cx.cbegin() + i, cx.cbegin() + j, true)) + "]";
                    else if (alg == "find") val = "[" + std::to_string((long long)(std::find(x.begin() + i, x.begin() + j, true) - x.begin())) + "]";
                    else if (alg == "equal") val = std::equal(cx.cbegin() + i, cx.cbegin() + j, cy.cbegin() + i) ? "[1]" : "[0]";
                    else { std::fprintf(stderr, "script: bad algorithm %s\n", alg.c_str()); std::exit(3); }
                });
            }
            else { std::fprintf(stderr, "script: unknown op %s\n", op.c_str()); std::exit(3); }
        }
        catch (const desync&) { exc = "desync"; }
        catch (const std::out_of_range&) { exc = "out_of_range"; }
        catch (const std::runtime_error&) { exc = "runtime_error"; }
        catch (const std::exception&) { exc = "other"; }
        catch (...) { exc = "nonstd"; }
        return std::string("{\"exc\":\"") + exc + "\",\"val\":" + (std::strcmp(exc, "none") ? "[]" : val) + "}";
    }

    int run()
    {
        std::string line;
        make_own(0, new own_t()); make_own(1, new own_t());
        while (std::getline(std::cin, line))
        {
            if (line.empty()) continue;
            arm_cpu_limit();
            vj::value e = vj::parse(line);
            std::string res = step(e);
            bool eq, ne, eq21, eqel;
            with2(0, 1, [&](auto& x, auto& y) {
                const auto& cx = x; const auto& cy = y;
                eq = (cx == cy); ne = (cx != cy); eq21 = (cy == cx);
                eqel = cx.size() == cy.size() && std::equal(cx.cbegin(), cx.cend(), cy.cbegin());
            });
            // echo the call (op, k, a) and append what was observed
            std::string head = line.substr(0, line.rfind('}'));
            std::string st = "{\"o\":[" + proj(0) + "," + proj(1) + "],\"eq\":" + (eq ? "true" : "false") + ",\"ne\":" + (ne ? "true" : "false")
                             + ",\"eq21\":" + (eq21 ? "true" : "false") + ",\"eqel\":" + (eqel ? "true" : "false") + "}";
            std::fputs((head + ",\"res\":" + res + ",\"st\":" + st + "}\n").c_str(), stdout);
        }
        return 0;
    }
};

int main(int argc, char** argv)
{
    vj::install_crash_handlers();
    std::signal(SIGPROF, on_cpu_limit);
    int W = argc > 1 ? std::atoi(argv[1]) : 8;
    switch (W)
    {
        case 8: return machine<std::uint8_t>().run();
        case 16: return machine<std::uint16_t>().run();
        case 32: return machine<std::uint32_t>().run();
        case 64: return machine<std::uint64_t>().run();
    }
    std::fprintf(stderr, "usage: driver {8|16|32|64} < script\n");
    return 3;
}

// C03 call probes: one small function per family of public calls the conformance driver makes.
// Only compiled (-fsyntax-only -DC03_PROBE=n) when the driver itself does not build against the tree under
// test, to tell "a call the property names no longer compiles" (a violation, reported with the
// probe as its replay) from "the harness needs maintenance" (machinery error).
// The table of (n, named-by-the-property?, description) is in checks/c03.py (CALL_PROBES).
#include <xtl/xdynamic_bitset.hpp>
#include <algorithm>
#include <cstdint>
#include <utility>
#include <vector>

using B = std::uint16_t;
using own_t = xtl::xdynamic_bitset<B>;
using view_t = xtl::xdynamic_bitset_view<B>;

#if C03_PROBE == 1      // constructors: default, (n), (n, v)
int probe() { own_t a; own_t b(std::size_t(5)); own_t c(std::size_t(5), true); return int(a.size() + b.size() + c.size()); }
#elif C03_PROBE == 2    // initializer-list constructor and assign
int probe() { own_t a = {true, false, true}; a.assign({false, true}); return int(a.size()); }
#elif C03_PROBE == 3    // block-range constructor and assign
int probe() { std::vector<B> v(2, B(0xAAAA)); own_t a(v.begin(), v.end()); a.assign(v.begin(), v.end()); return int(a.size()); }
#elif C03_PROBE == 4    // copy construction / assignment from an owning bitset and from a view
int probe() { B m[2] = {1, 2}; view_t v(m, 20); own_t a(std::size_t(3), true); own_t b(a); own_t c(v); b = a; c = v; return int(b.size() + c.size()); }
#elif C03_PROBE == 5    // view constructor, view resize
int probe() { B m[2] = {1, 2}; view_t v(m, 20); v.resize(20); return int(v.size()); }
#elif C03_PROBE == 6    // assign(n, v), resize(n), resize(n, v), clear, push_back, pop_back
int probe() { own_t a; a.assign(std::size_t(7), true); a.resize(9); a.resize(12, true); a.push_back(false); a.pop_back(); a.clear(); return int(a.size()); }
#elif C03_PROBE == 7    // set / reset / flip, all bits and one bit
int probe() { B m[1] = {0}; view_t v(m, 9); own_t a(std::size_t(9)); a.set(); a.reset(); a.flip(); a.set(1); a.set(2, false); a.reset(3); a.flip(4); v.set(); v.reset(); v.flip(); v.set(1, true); v.reset(2); v.flip(3); return int(a.count() + v.count()); }
#elif C03_PROBE == 8    // shifts
int probe() { B m[1] = {5}; view_t v(m, 9); own_t a(std::size_t(9), true); a <<= 3; a >>= 2; v <<= 1; v >>= 1; auto x = a << 2; auto y = v >> 1; return int(x.size() + y.size()); }
#elif C03_PROBE == 9    // &= |= ^= between owning bitsets and views
int probe() { B m[1] = {5}; view_t v(m, 9); own_t a(std::size_t(9), true), b(std::size_t(9)); a &= b; a |= v; a ^= a; v &= a; v |= v; v ^= b; return int(a.count()); }
#elif C03_PROBE == 10   // ~ & | ^
int probe() { B m[1] = {5}; view_t v(m, 9); own_t a(std::size_t(9), true); auto x = ~a; auto y = ~v; auto z = a & v; auto u = v | a; auto w = a ^ a; return int(x.size() + y.size() + z.size() + u.size() + w.size()); }
#elif C03_PROBE == 11   // swap: member (owning, views), std::swap, ADL swap
int probe() { B m[1] = {5}, n[1] = {6}; view_t v(m, 9), q(n, 3); own_t a(std::size_t(9), true), b; a.swap(b); v.swap(q); std::swap(a, b); { using std::swap; swap(a, b); } return int(a.size() + v.size()); }
#elif C03_PROBE == 12   // at
int probe() { B m[1] = {5}; view_t v(m, 9); own_t a(std::size_t(9), true); const own_t& ca = a; const view_t& cv = v; bool r = ca.at(1); r = r && cv.at(2); a.at(3) = false; v.at(4) = true; return r; }
#elif C03_PROBE == 13   // operator[], front, back
int probe() { B m[1] = {5}; view_t v(m, 9); own_t a(std::size_t(9), true); const own_t& ca = a; const view_t& cv = v; bool r = ca[1] && cv[2] && ca.front() && cv.back() && a.front() && v.back(); a[3] = false; v[4] = true; a.front() = true; v.back() = false; return r; }
#elif C03_PROBE == 14   // iterators
int probe()
{
    B m[1] = {5}; view_t v(m, 9); own_t a(std::size_t(9), true); const own_t& ca = a; const view_t& cv = v;
    bool r = *(a.begin() + 1) && *(ca.cbegin() + 1) && *(a.rbegin() + 1) && *(ca.crbegin() + 1) && *(v.begin() + 1) && *(cv.cbegin() + 1) && *(v.rbegin() + 1) && *(cv.crbegin() + 1);
    for (auto it = ca.begin(); it != ca.end(); ++it) r = r && *it;
    for (auto it = cv.rbegin(); it != cv.rend(); ++it) r = r && *it;
    *(a.begin() + 2) = false; *(v.rbegin() + 2) = true;
    return r;
}
#elif C03_PROBE == 15   // element reference: = bool, = reference, &=, |=, ^=, flip, ~, address-of
int probe() { own_t a(std::size_t(9), true); auto r = a[1]; r = false; r &= true; r |= false; r ^= true; r.flip(); bool n = ~a[2]; auto s = a[3]; r = s; auto p = &r; *p = true; return n; }
#elif C03_PROBE == 16   // size, empty, count, any, all, none, block_count, data
int probe() { B m[1] = {5}; view_t v(m, 9); own_t a(std::size_t(9), true); const own_t& ca = a; const view_t& cv = v; return int(ca.size() + cv.size() + ca.count() + cv.count() + ca.block_count() + cv.block_count() + ca.data()[0] + cv.data()[0] + a.data()[0]) + ca.empty() + cv.empty() + ca.any() + cv.any() + ca.all() + cv.all() + ca.none() + cv.none(); }
#elif C03_PROBE == 17   // == and != between owning bitsets and views
int probe() { B m[1] = {5}; view_t v(m, 9); own_t a(std::size_t(9), true); const own_t& ca = a; const view_t& cv = v; return (ca == cv) + (cv == ca) + (ca != ca) + (cv != cv) + (ca == ca) + (cv != ca); }
#elif C03_PROBE == 18   // (not named by the property) move construction / assignment
int probe() { own_t a(std::size_t(9), true); own_t b(std::move(a)); a = std::move(b); return int(a.size()); }
#elif C03_PROBE == 19   // (not named) reserve, capacity, max_size, allocator constructor
int probe() { own_t a{own_t::allocator_type()}; a.reserve(100); const own_t& ca = a; return int(ca.capacity() + (ca.max_size() > 0)); }
#elif C03_PROBE == 20   // (not named) block iterators
int probe() { B m[1] = {5}; view_t v(m, 9); own_t a(std::size_t(9), true); const own_t& ca = a; const view_t& cv = v; int n = 0; for (auto it = ca.block_begin(); it != ca.block_end(); ++it) n += int(*it); n += int(*(cv.block_begin() + 0)); return n; }
#elif C03_PROBE == 21   // (not named) std::fill over the iterators
int probe() { own_t a(std::size_t(9), true); std::fill(a.begin() + 1, a.begin() + 4, false); return int(a.count()); }
#elif C03_PROBE == 22   // (not named as such: users of the iterators) std::reverse/rotate/iter_swap/copy/copy_backward/count/find/equal
int probe() { own_t a(std::size_t(9), true); B m[2] = {5, 0}; view_t v(m, 9); const view_t& cv = v; std::reverse(a.begin() + 1, a.begin() + 4); std::rotate(a.begin(), a.begin() + 2, a.end());
              std::iter_swap(a.begin(), a.begin() + 8); std::copy(cv.cbegin(), cv.cbegin() + 3, a.begin() + 1); std::copy_backward(a.begin(), a.begin() + 3, a.begin() + 5);
              return int(std::count(a.cbegin(), a.cend(), true)) + int(std::find(a.begin(), a.end(), true) - a.begin()) + int(std::equal(a.cbegin(), a.cend(), cv.cbegin())); }
#else
#error "unknown probe"
#endif

int main() { return probe(); }

// C03 signature table: the types and signatures the property's wording depends on ("holds the bit
// sequence a std::vector<bool> would hold; size, empty, count, any, all, none, ==, operator[],
// iteration and block_count report that sequence; at(i) ...; data()/block_count()").  Compiled
// with -fsyntax-only before the conformance driver is built.  -DSEL=0 checks every row, -DSEL=n
// only row n (used to enumerate the failing rows).  Rows only demand what the property needs
// (convertibility, constructibility), never an exact spelling that a refactoring may change.
#include <xtl/xdynamic_bitset.hpp>
#include <cstdint>
#include <initializer_list>
#include <iterator>
#include <type_traits>
#include <utility>

#ifndef C03_SEL
#define C03_SEL 0
#endif
#define ROW(n, ...) static_assert(!(C03_SEL == 0 || C03_SEL == n) || (__VA_ARGS__), "C03-SIG row " #n)

template <class T> using cat_of = typename std::iterator_traits<T>::iterator_category;
template <class T> using noref = std::remove_cv_t<std::remove_reference_t<T>>;

template <class B>
struct rows
{
    using own = xtl::xdynamic_bitset<B>;
    using view = xtl::xdynamic_bitset_view<B>;
    using cown = const own;
    using cview = const view;

    // 1-4: element type and proxies
    ROW(1, std::is_same<typename own::value_type, bool>::value && std::is_same<typename view::value_type, bool>::value);
    ROW(2, std::is_convertible<decltype(std::declval<own&>()[0]), bool>::value && std::is_convertible<decltype(std::declval<view&>()[0]), bool>::value);
    ROW(3, std::is_convertible<decltype(std::declval<cown&>()[0]), bool>::value && std::is_convertible<decltype(std::declval<cview&>()[0]), bool>::value);
    ROW(4, std::is_assignable<decltype(std::declval<own&>()[0]), bool>::value && std::is_assignable<decltype(std::declval<view&>()[0]), bool>::value);
    // 5-8: at / front / back give the same kind of proxy as operator[]
    ROW(5, std::is_same<decltype(std::declval<own&>().at(0)), decltype(std::declval<own&>()[0])>::value);
    ROW(6, std::is_same<decltype(std::declval<cown&>().at(0)), decltype(std::declval<cown&>()[0])>::value);
    ROW(7, std::is_same<decltype(std::declval<own&>().front()), decltype(std::declval<own&>()[0])>::value && std::is_same<decltype(std::declval<own&>().back()), decltype(std::declval<own&>()[0])>::value);
    ROW(8, std::is_same<decltype(std::declval<cview&>().front()), decltype(std::declval<cview&>()[0])>::value && std::is_same<decltype(std::declval<cview&>().back()), decltype(std::declval<cview&>()[0])>::value);
    // 9-12: observers report numbers / truth values
    ROW(9, std::is_unsigned<decltype(std::declval<cown&>().size())>::value && std::is_unsigned<decltype(std::declval<cview&>().size())>::value);
    ROW(10, std::is_unsigned<decltype(std::declval<cown&>().count())>::value && std::is_unsigned<decltype(std::declval<cown&>().block_count())>::value);
    ROW(11, std::is_same<decltype(std::declval<cown&>().empty()), bool>::value && std::is_same<decltype(std::declval<cown&>().any()), bool>::value
            && std::is_same<decltype(std::declval<cown&>().all()), bool>::value && std::is_same<decltype(std::declval<cown&>().none()), bool>::value);
    ROW(12, std::is_same<decltype(std::declval<cview&>().empty()), bool>::value && std::is_same<decltype(std::declval<cview&>().any()), bool>::value
            && std::is_same<decltype(std::declval<cview&>().all()), bool>::value && std::is_same<decltype(std::declval<cview&>().none()), bool>::value);
    // 13-14: == and != between owning bitsets and views, in every combination
    ROW(13, std::is_convertible<decltype(std::declval<cown&>() == std::declval<cview&>()), bool>::value && std::is_convertible<decltype(std::declval<cview&>() == std::declval<cown&>()), bool>::value);
    ROW(14, std::is_convertible<decltype(std::declval<cown&>() != std::declval<cown&>()), bool>::value && std::is_convertible<decltype(std::declval<cview&>() != std::declval<cview&>()), bool>::value);
    // 15-16: data() gives the blocks, of the declared block type
    ROW(15, std::is_same<noref<decltype(*std::declval<cown&>().data())>, B>::value && std::is_same<noref<decltype(*std::declval<cview&>().data())>, B>::value);
    ROW(16, std::is_same<typename own::block_type, B>::value && std::is_same<typename view::block_type, B>::value);
    // 17-20: iteration in both directions, const and non-const, over bools
    ROW(17, std::is_base_of<std::input_iterator_tag, cat_of<decltype(std::declval<own&>().begin())>>::value && std::is_base_of<std::input_iterator_tag, cat_of<decltype(std::declval<cview&>().begin())>>::value);
    ROW(18, std::is_convertible<decltype(*std::declval<cown&>().cbegin()), bool>::value && std::is_convertible<decltype(*std::declval<cown&>().crbegin()), bool>::value);
    ROW(19, std::is_assignable<decltype(*std::declval<own&>().begin()), bool>::value && std::is_assignable<decltype(*std::declval<view&>().rbegin()), bool>::value);
    ROW(20, std::is_same<decltype(std::declval<own&>().begin()), decltype(std::declval<own&>().end())>::value && std::is_same<decltype(std::declval<cview&>().rbegin()), decltype(std::declval<cview&>().rend())>::value);
    // 21-26: construction, assign, copy, swap as the property lists them
    ROW(21, std::is_default_constructible<own>::value && std::is_constructible<own, std::size_t>::value && std::is_constructible<own, std::size_t, bool>::value);
    ROW(22, std::is_constructible<own, std::initializer_list<bool>>::value && std::is_constructible<own, const B*, const B*>::value);
    ROW(23, std::is_copy_constructible<own>::value && std::is_copy_assignable<own>::value && std::is_constructible<own, cview&>::value && std::is_assignable<own&, cview&>::value);
    ROW(24, std::is_constructible<view, B*, std::size_t>::value && std::is_copy_constructible<view>::value);
    ROW(25, std::is_move_constructible<own>::value && std::is_move_assignable<own>::value);
    ROW(26, std::is_same<decltype(std::declval<own&>().swap(std::declval<own&>())), void>::value && std::is_same<decltype(std::declval<view&>().swap(std::declval<view&>())), void>::value);
    // 27-29: the operators that return a new bitset return an owning bitset of the same block type
    ROW(27, std::is_same<typename noref<decltype(~std::declval<cown&>())>::block_type, B>::value && std::is_same<typename noref<decltype(~std::declval<cview&>())>::block_type, B>::value);
    ROW(28, std::is_same<typename noref<decltype(std::declval<cown&>() & std::declval<cview&>())>::block_type, B>::value && std::is_same<typename noref<decltype(std::declval<cview&>() ^ std::declval<cown&>())>::block_type, B>::value);
    ROW(29, std::is_same<typename noref<decltype(std::declval<own&>() << std::size_t(1))>::block_type, B>::value && std::is_same<typename noref<decltype(std::declval<view&>() >> std::size_t(1))>::block_type, B>::value);
    // 30: compound operators accept an owning bitset and a view on either side
    ROW(30, std::is_convertible<decltype(std::declval<own&>() &= std::declval<cview&>())&, const xtl::xdynamic_bitset_base<own>&>::value
            && std::is_convertible<decltype(std::declval<view&>() |= std::declval<cown&>())&, const xtl::xdynamic_bitset_base<view>&>::value);
};

static constexpr int C03_SIG_ROWS = 30;

template struct rows<std::uint8_t>;
template struct rows<std::uint16_t>;
template struct rows<std::uint32_t>;
template struct rows<std::uint64_t>;

int main() { return 0; }

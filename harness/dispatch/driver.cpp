// C17 conformance harness: interprets a script (ndjson on stdin) of registrations, erasures and
// dispatches on real xtl dispatchers / visitors and writes, after every call, the call's outcome
// (which handler ran, with which static signature, which dynamic types / objects it saw in which
// order, the undispatched arguments it received, the value that came back, or how the error was
// reported) and the full observable projection of the dispatcher: the outcome of dispatching
// every tuple of classes.  It contains no oracle: it executes and prints.
//
// Class ids (fixed, shared with specs/Dispatch.tla): 1=A 2=B 3=C 4=Base 5=D.
//   A, B, C derive from Base; C has a second polymorphic base in front of Base (the Base
//   sub-object is at a non-zero offset); D derives from A.  Object ids are 10*class + n, n in {0,1}.
//
// -DC17_KIND=<n> (1..4) compiles only one functor-dispatcher kind (parallel builds); 0 = all.
// -DC17_AR=12|3 compiles only arities {1,2} or {3}.
#include <xtl/xmultimethods.hpp>
#include <xtl/xvisitor.hpp>
#include "vjson.hpp"
#include <iostream>
#include <typeinfo>
#include <utility>
#include <tuple>

#ifndef C17_KIND
#define C17_KIND 0
#endif
#ifndef C17_AR
#define C17_AR 0      // 0 = arities 1..3; 12 = arities 1 and 2 only; 3 = arity 3 only (parallel builds)
#endif

namespace mpl = xtl::mpl;

// ------------------------------------------------------------------ what a handler records
struct record_t
{
    int calls = 0;      // handler invocations during the call
    int rep = 0;        // invocations of the error hook (on_error / recording catch-all policy)
    int h = 0;          // id of the handler that ran
    std::vector<int> sig, dyn, tg;        // static types, dynamic types, tags read through the typed references
    std::vector<const void*> addr;         // addresses (of the complete objects) of the arguments, in the order received
    std::vector<long> xv;
    bool xid = true;
    int psig = 0, pobj = 0;   // what the recording catch-all policy was given
};
static record_t g;
static const void* g_xaddr[2] = {nullptr, nullptr};
// maps the address of a complete object back to the id of the caller's object (0 = not one of them)
static std::function<int(const void*)> g_lookup;

// ------------------------------------------------------------------ dispatcher hierarchy
namespace hz
{
    struct Pad
    {
        virtual ~Pad() = default;
        long pad[3] = {7, 7, 7};
    };
    struct Base
    {
        XTL_IMPLEMENT_INDEXABLE_CLASS()
        explicit Base(int t = 0) : tag(t) {}
        virtual ~Base() = default;
        Base(const Base&) = delete;
        Base& operator=(const Base&) = delete;
        int tag;
    };
    struct A : Base
    {
        XTL_IMPLEMENT_INDEXABLE_CLASS()
        explicit A(int t = 0) : Base(0), tag(t) {}
        int tag;
    };
    struct B : Base
    {
        XTL_IMPLEMENT_INDEXABLE_CLASS()
        explicit B(int t = 0) : Base(0), tag(t) {}
        double fill = 1.5;
        int tag;
    };
    struct C : Pad, Base
    {
        XTL_IMPLEMENT_INDEXABLE_CLASS()
        explicit C(int t = 0) : Base(0), tag(t) {}
        int tag;
    };
    struct D : A
    {
        XTL_IMPLEMENT_INDEXABLE_CLASS()
        explicit D(int t = 0) : A(0), tag(t) {}
        long fill[2] = {3, 3};
        int tag;
    };

    template <class T> struct cid_of;
    template <> struct cid_of<A> : std::integral_constant<int, 1> {};
    template <> struct cid_of<B> : std::integral_constant<int, 2> {};
    template <> struct cid_of<C> : std::integral_constant<int, 3> {};
    template <> struct cid_of<Base> : std::integral_constant<int, 4> {};
    template <> struct cid_of<D> : std::integral_constant<int, 5> {};
    template <class T> struct cid_of<const T> : cid_of<T> {};

    inline int dyn_cid(const Base& b)
    {
        const std::type_info& ti = typeid(b);
        if (ti == typeid(A)) return 1;
        if (ti == typeid(B)) return 2;
        if (ti == typeid(C)) return 3;
        if (ti == typeid(Base)) return 4;
        if (ti == typeid(D)) return 5;
        return 0;
    }

    template <class T> struct tc { using type = T; };
    template <class F> void with_class(int id, F&& f)
    {
        switch (id)
        {
            case 1: f(tc<A>()); break;
            case 2: f(tc<B>()); break;
            case 3: f(tc<C>()); break;
            case 4: f(tc<Base>()); break;
            case 5: f(tc<D>()); break;
            default: std::fprintf(stderr, "script: bad class id %d\n", id); std::exit(3);
        }
    }

    inline void reset_indices()
    {
        A::get_class_static_index() = SIZE_MAX;
        B::get_class_static_index() = SIZE_MAX;
        C::get_class_static_index() = SIZE_MAX;
        Base::get_class_static_index() = SIZE_MAX;
        D::get_class_static_index() = SIZE_MAX;
    }
    inline std::vector<long long> indices()
    {
        auto f = [](std::size_t v) { return v == SIZE_MAX ? 255ll : (long long)v; };
        return {f(A::get_class_static_index()), f(B::get_class_static_index()), f(C::get_class_static_index()),
                f(Base::get_class_static_index()), f(D::get_class_static_index())};
    }

    struct pool_t
    {
        Base* o[6][2];
        pool_t()
        {
            for (int n = 0; n < 2; ++n)
            {
                o[0][n] = nullptr;
                o[1][n] = new A(10 + n);
                o[2][n] = new B(20 + n);
                o[3][n] = new C(30 + n);
                o[4][n] = new Base(40 + n);
                o[5][n] = new D(50 + n);
            }
        }
        ~pool_t() { for (int c = 1; c < 6; ++c) for (int n = 0; n < 2; ++n) delete o[c][n]; }
        int find(const void* p) const
        {
            for (int c = 1; c < 6; ++c)
                for (int n = 0; n < 2; ++n)
                    if (dynamic_cast<const void*>(o[c][n]) == p) return 10 * c + n;
            return 0;
        }
        Base* get(long long id) const
        {
            long long c = id / 10, n = id % 10;
            if (c < 1 || c > 5 || n < 0 || n > 1) { std::fprintf(stderr, "script: bad object id %lld\n", id); std::exit(3); }
            return o[c][n];
        }
    };
}

// ------------------------------------------------------------------ undispatched arguments
struct xarg { int v; };
inline void xrec(std::size_t) {}
template <class... R> void xrec(std::size_t i, const xarg& x, R&... r);
template <class... R> void xrec(std::size_t i, long& x, R&... r)
{
    g.xv.push_back(x);
    if (i < 2 && g_xaddr[i] != static_cast<const void*>(&x)) g.xid = false;
    xrec(i + 1, r...);
}
template <class... R> void xrec(std::size_t i, const xarg& x, R&... r)
{
    g.xv.push_back(x.v);
    if (i < 2 && g_xaddr[i] != static_cast<const void*>(&x)) g.xid = false;
    xrec(i + 1, r...);
}

template <std::size_t NX> struct xlist;
template <> struct xlist<0> { using type = mpl::vector<>; };
template <> struct xlist<1> { using type = mpl::vector<xarg>; };
template <> struct xlist<2> { using type = mpl::vector<const xarg, long>; };

// handler registered by Insert<Ds...>(h): records what it was given
template <class... Ds>
struct handler_t
{
    int h;
    template <class... X>
    long operator()(Ds&... ds, X&... xs) const
    {
        ++g.calls;
        g.h = h;
        g.sig = {hz::cid_of<Ds>::value...};
        g.dyn = {hz::dyn_cid(ds)...};
        g.tg = {ds.tag...};
        g.addr = {dynamic_cast<const void*>(&ds)...};
        g.xv.clear();
        g.xid = true;
        xrec(0, xs...);
        long r = long(h) * 100;
        for (long v : g.xv) r += v;
        return r;
    }
};

// ------------------------------------------------------------------ outcome of one call
struct outcome
{
    const char* exc = "none";
    std::string what;      // advisory: exception type (not compared by the property spec)
    long ret = 0;
    record_t r;
};

static std::vector<int> ids_of(const std::vector<const void*>& addr)
{
    std::vector<int> r;
    for (const void* p : addr) r.push_back(g_lookup ? g_lookup(p) : 0);
    return r;
}

static std::string outcome_json(const outcome& o)
{
    vj::out v;
    v.kv("calls", o.r.calls);
    v.kv("ret", o.ret);
    v.kv("rep", o.r.rep);
    if (std::string(o.exc) == "none")
    {
        v.kv("h", o.r.h);
        v.kints("sig", o.r.sig).kints("dyn", o.r.dyn).kints("objs", ids_of(o.r.addr)).kints("tg", o.r.tg).kints("xv", o.r.xv);
        v.kb("xid", o.r.xid);
    }
    else if (o.r.psig != 0)
    {
        v.kv("psig", o.r.psig).kv("pobj", o.r.pobj);
    }
    vj::out res;
    res.ks("exc", o.exc);
    res.kraw("val", v.obj());
    return res.obj();
}

template <class F>
static outcome guarded(F&& f, const char* quiet_error = nullptr)
{
    outcome o;
    g = record_t();
    try
    {
        o.ret = f();
        // the call returned: either a handler ran, or the error was reported in-band
        if (g.calls == 0 && quiet_error) o.exc = quiet_error;
    }
    catch (const std::bad_function_call&) { o.exc = "exception"; o.what = "bad_function_call"; }
    catch (const std::bad_cast&) { o.exc = "exception"; o.what = "bad_cast"; }
    catch (const std::out_of_range&) { o.exc = "exception"; o.what = "out_of_range"; }
    catch (const std::runtime_error&) { o.exc = "exception"; o.what = "runtime_error"; }
    catch (const std::exception&) { o.exc = "exception"; o.what = "std_exception"; }
    o.r = g;
    return o;
}

// ------------------------------------------------------------------ functor dispatchers
struct imachine
{
    virtual ~imachine() = default;
    virtual void insert(const std::vector<long long>& t, int h) = 0;
    virtual bool can_erase() const = 0;
    virtual void erase(const std::vector<long long>& t) = 0;
    virtual outcome dispatch(const std::vector<hz::Base*>& os, const std::vector<long long>& xs) = 0;
    virtual std::size_t arity() const = 0;
    virtual std::size_t nextra() const = 0;
};

template <class T, std::size_t N, class... Acc> struct rep_vec : rep_vec<T, N - 1, T, Acc...> {};
template <class T, class... Acc> struct rep_vec<T, 0, Acc...> { using type = mpl::vector<Acc...>; };

template <class Bk, class... Ds>
auto has_erase_impl(int) -> decltype(std::declval<Bk&>().template erase<Ds...>(), std::true_type());
template <class Bk, class... Ds>
std::false_type has_erase_impl(long);

template <class BT, std::size_t N, std::size_t NX,
          template <class, class> class Caster,
          template <class, class, class, class> class Backend>
struct machine : imachine
{
    using tlist = typename rep_vec<BT, N>::type;
    using xl = typename xlist<NX>::type;
    using disp_t = xtl::functor_dispatcher<tlist, long, xl, Caster, Backend>;
    using backend_probe = Backend<tlist, long, xl, std::function<long()>>;
    template <class T> using q = std::conditional_t<std::is_const<BT>::value, const T, T>;

    disp_t d;

    std::size_t arity() const override { return N; }
    std::size_t nextra() const override { return NX; }

    // ---- insert<D...>(handler)
    template <std::size_t Rem, class... Ds>
    struct inserter
    {
        static void go(machine& m, const long long* t, int h)
        {
            hz::with_class(int(*t), [&](auto c) {
                using T = q<typename decltype(c)::type>;
                inserter<Rem - 1, Ds..., T>::go(m, t + 1, h);
            });
        }
    };
    template <class... Ds>
    struct inserter<0, Ds...>
    {
        static void go(machine& m, const long long*, int h)
        {
            m.d.template insert<Ds...>(handler_t<Ds...>{h});
        }
    };
    void insert(const std::vector<long long>& t, int h) override
    {
        if (t.size() != N) { std::fprintf(stderr, "script: tuple length\n"); std::exit(3); }
        inserter<N>::go(*this, t.data(), h);
    }

    // ---- erase<D...>()  (only where the backend has one)
    template <class... Ds> using has_erase = decltype(has_erase_impl<backend_probe, Ds...>(0));
    template <class... Ds> static void do_erase(machine& m, std::true_type) { m.d.template erase<Ds...>(); }
    template <class... Ds> static void do_erase(machine&, std::false_type)
    {
        std::fprintf(stderr, "script: erase is not available for this dispatcher\n");
        std::exit(3);
    }
    template <std::size_t Rem, class... Ds>
    struct eraser
    {
        static void go(machine& m, const long long* t)
        {
            hz::with_class(int(*t), [&](auto c) {
                using T = q<typename decltype(c)::type>;
                eraser<Rem - 1, Ds..., T>::go(m, t + 1);
            });
        }
    };
    template <class... Ds>
    struct eraser<0, Ds...>
    {
        static void go(machine& m, const long long*) { do_erase<Ds...>(m, has_erase<Ds...>()); }
    };
    template <std::size_t, class T> struct always_t { using type = T; };
    template <std::size_t... I> static bool erase_probe(std::index_sequence<I...>)
    {
        return has_erase<typename always_t<I, q<hz::A>>::type...>::value;
    }
    bool can_erase() const override { return erase_probe(std::make_index_sequence<N>()); }
    void erase(const std::vector<long long>& t) override
    {
        if (t.size() != N) { std::fprintf(stderr, "script: tuple length\n"); std::exit(3); }
        eraser<N>::go(*this, t.data());
    }

    // ---- dispatch(args..., extras...)
    template <std::size_t... I>
    long call(std::index_sequence<I...>, BT* const* o, xarg&, long&, std::integral_constant<std::size_t, 0>)
    {
        return d.dispatch(*o[I]...);
    }
    template <std::size_t... I>
    long call(std::index_sequence<I...>, BT* const* o, xarg& x1, long&, std::integral_constant<std::size_t, 1>)
    {
        return d.dispatch(*o[I]..., x1);
    }
    template <std::size_t... I>
    long call(std::index_sequence<I...>, BT* const* o, xarg& x1, long& x2, std::integral_constant<std::size_t, 2>)
    {
        return d.dispatch(*o[I]..., x1, x2);
    }
    outcome dispatch(const std::vector<hz::Base*>& os, const std::vector<long long>& xs) override
    {
        if (os.size() != N || xs.size() != NX) { std::fprintf(stderr, "script: dispatch arity\n"); std::exit(3); }
        BT* o[N];
        for (std::size_t i = 0; i < N; ++i) o[i] = os[i];
        xarg x1{NX > 0 ? int(xs[0]) : 0};
        long x2 = NX > 1 ? long(xs[1]) : 0;
        g_xaddr[0] = &x1;
        g_xaddr[1] = &x2;
        return guarded([&]() { return call(std::make_index_sequence<N>(), o, x1, x2, std::integral_constant<std::size_t, NX>()); });
    }
};

template <template <class, class> class Caster, template <class, class, class, class> class Backend>
static imachine* make_kind(int ar, int nx)
{
    // nx = 0: const base (as the upstream tests do); nx > 0: non-const base
#if C17_AR == 0 || C17_AR == 12
    if (ar == 1 && nx == 0) return new machine<const hz::Base, 1, 0, Caster, Backend>();
    if (ar == 1 && nx == 1) return new machine<hz::Base, 1, 1, Caster, Backend>();
    if (ar == 2 && nx == 0) return new machine<const hz::Base, 2, 0, Caster, Backend>();
    if (ar == 2 && nx == 1) return new machine<hz::Base, 2, 1, Caster, Backend>();
    if (ar == 2 && nx == 2) return new machine<hz::Base, 2, 2, Caster, Backend>();
#endif
#if C17_AR == 0 || C17_AR == 3
    if (ar == 3 && nx == 0) return new machine<const hz::Base, 3, 0, Caster, Backend>();
    if (ar == 3 && nx == 1) return new machine<hz::Base, 3, 1, Caster, Backend>();
#endif
    std::fprintf(stderr, "script: unsupported arity/extras %d/%d\n", ar, nx);
    std::exit(3);
}

static imachine* make_machine(const std::string& kind, int ar, int nx)
{
#if C17_KIND == 0 || C17_KIND == 1
    if (kind == "map_dyn") return make_kind<xtl::dynamic_caster, xtl::basic_dispatcher>(ar, nx);
#endif
#if C17_KIND == 0 || C17_KIND == 2
    if (kind == "map_static") return make_kind<xtl::static_caster, xtl::basic_dispatcher>(ar, nx);
#endif
#if C17_KIND == 0 || C17_KIND == 3
    if (kind == "fast_dyn") return make_kind<xtl::dynamic_caster, xtl::basic_fast_dispatcher>(ar, nx);
#endif
#if C17_KIND == 0 || C17_KIND == 4
    if (kind == "fast_static") return make_kind<xtl::static_caster, xtl::basic_fast_dispatcher>(ar, nx);
#endif
    if (kind == "none") return nullptr;
    std::fprintf(stderr, "script: dispatcher kind %s not compiled into this driver\n", kind.c_str());
    std::exit(3);
}

// ------------------------------------------------------------------ static dispatcher
struct exec_t
{
    template <class T1, class T2>
    long run(T1& a, T2& b)
    {
        ++g.calls;
        g.h = 0;
        g.sig = {hz::cid_of<T1>::value, hz::cid_of<T2>::value};
        g.dyn = {hz::dyn_cid(a), hz::dyn_cid(b)};
        g.tg = {a.tag, b.tag};
        g.addr = {dynamic_cast<const void*>(&a), dynamic_cast<const void*>(&b)};
        g.xv.clear();
        g.xid = true;
        return 1000 + 10 * hz::cid_of<T1>::value + hz::cid_of<T2>::value;
    }
    long on_error(const hz::Base&, const hz::Base&)
    {
        ++g.rep;
        return 7;
    }
};

template <class... T> struct tl {};

struct sd_entry
{
    std::vector<int> lhs, rhs;
    bool sym, cst;
    long (*fn)(hz::Base&, hz::Base&, exec_t&);
};

template <bool Cst, bool Sym, class L, class R> struct sd_cfg;
template <bool Cst, bool Sym, class... L, class... R>
struct sd_cfg<Cst, Sym, tl<L...>, tl<R...>>
{
    using BT = std::conditional_t<Cst, const hz::Base, hz::Base>;
    template <class T> using q = std::conditional_t<Cst, const T, T>;
    using disp = xtl::static_dispatcher<exec_t, BT, mpl::vector<q<L>...>, long,
                                        std::conditional_t<Sym, xtl::symmetric_dispatch, xtl::antisymmetric_dispatch>,
                                        BT, mpl::vector<q<R>...>>;
    static long run(hz::Base& a, hz::Base& b, exec_t& e)
    {
        BT& x = a;
        BT& y = b;
        return disp::dispatch(x, y, e);
    }
    static sd_entry entry() { return sd_entry{{hz::cid_of<L>::value...}, {hz::cid_of<R>::value...}, Sym, Cst, &run}; }
};

static std::vector<sd_entry> static_menu()
{
    using namespace hz;
    std::vector<sd_entry> m;
    m.push_back(sd_cfg<true, false, tl<A, B, C>, tl<A, B, C>>::entry());
    m.push_back(sd_cfg<true, true, tl<A, B, C>, tl<A, B, C>>::entry());
    m.push_back(sd_cfg<false, true, tl<C, A, B>, tl<C, A, B>>::entry());
    m.push_back(sd_cfg<false, false, tl<B, A>, tl<C, B>>::entry());
    m.push_back(sd_cfg<true, false, tl<D, A, B, C, Base>, tl<D, A, B, C, Base>>::entry());
    m.push_back(sd_cfg<false, true, tl<D, A, B, C, Base>, tl<D, A, B, C, Base>>::entry());
    m.push_back(sd_cfg<false, false, tl<D, B>, tl<C>>::entry());
    m.push_back(sd_cfg<true, true, tl<B, D, A>, tl<B, D, A>>::entry());
    m.push_back(sd_cfg<false, false, tl<C, B, A>, tl<A, B, C>>::entry());
    return m;
}

// ------------------------------------------------------------------ acyclic visitors
template <class R> struct retv { static R make(long v) { return R(v); } };
template <> struct retv<void> { static void make(long) {} };

template <class R, class T>
R on_visit(int sig, T& x)
{
    ++g.calls;
    g.h = 0;
    g.sig = {sig};
    g.dyn = {x.dynid()};
    g.tg = {x.tag};
    g.addr = {dynamic_cast<const void*>(&x)};
    g.xv.clear();
    g.xid = true;
    return retv<R>::make(100 + sig);
}

template <class R, class T>
struct recording_catch_all
{
    static R on_unknown_visitor(T& t, xtl::base_visitor&)
    {
        ++g.rep;
        g.psig = std::remove_const_t<T>::id;
        g.pobj = t.tag;
        return retv<R>::make(999);
    }
};

struct vis_entry
{
    std::vector<int> set;
    xtl::base_visitor* v;
};

// One complete hierarchy + visitor menu per variant of base_visitable (the root type differs).
#define C17_VCLASS(NAME, PARENT, ID, DEFV)                                             \
    struct NAME : PARENT                                                               \
    {                                                                                  \
        DEFV()                                                                         \
        static constexpr int id = ID;                                                  \
        explicit NAME(int t = 0) : PARENT(0), tag(t) {}                                \
        int dynid() const override { return ID; }                                      \
        int tag;                                                                       \
    };

#define C17_VHIER(NS, RT, CONSTFLAG, CQ, POLICY, DEFV)                                  \
    namespace NS                                                                        \
    {                                                                                   \
        using root_t = xtl::base_visitable<RT, CONSTFLAG, POLICY>;                       \
        struct VBase : root_t                                                           \
        {                                                                               \
            DEFV()                                                                      \
            static constexpr int id = 4;                                                \
            explicit VBase(int t = 0) : tag(t) {}                                       \
            virtual int dynid() const { return 4; }                                     \
            int tag;                                                                    \
        };                                                                              \
        C17_VCLASS(VA, VBase, 1, DEFV)                                                  \
        C17_VCLASS(VB, VBase, 2, DEFV)                                                  \
        C17_VCLASS(VC, VBase, 3, DEFV)                                                  \
        C17_VCLASS(VD, VA, 5, DEFV)                                                     \
        struct Vis_AB : xtl::base_visitor, xtl::visitor<mpl::vector<VA, VB>, RT, CONSTFLAG> \
        {                                                                               \
            RT visit(CQ VA& x) override { return on_visit<RT>(1, x); }                  \
            RT visit(CQ VB& x) override { return on_visit<RT>(2, x); }                  \
        };                                                                              \
        struct Vis_All : xtl::base_visitor, xtl::visitor<mpl::vector<VA, VB, VC, VBase, VD>, RT, CONSTFLAG> \
        {                                                                               \
            RT visit(CQ VA& x) override { return on_visit<RT>(1, x); }                  \
            RT visit(CQ VB& x) override { return on_visit<RT>(2, x); }                  \
            RT visit(CQ VC& x) override { return on_visit<RT>(3, x); }                  \
            RT visit(CQ VBase& x) override { return on_visit<RT>(4, x); }               \
            RT visit(CQ VD& x) override { return on_visit<RT>(5, x); }                  \
        };                                                                              \
        struct Vis_C : xtl::base_visitor, xtl::visitor<VC, RT, CONSTFLAG>                \
        {                                                                               \
            RT visit(CQ VC& x) override { return on_visit<RT>(3, x); }                  \
        };                                                                              \
        struct Vis_None : xtl::base_visitor, xtl::visitor<mpl::vector<>, RT, CONSTFLAG>  \
        {                                                                               \
        };                                                                              \
        struct Vis_BaseD : xtl::base_visitor, xtl::visitor<mpl::vector<VBase, VD>, RT, CONSTFLAG> \
        {                                                                               \
            RT visit(CQ VBase& x) override { return on_visit<RT>(4, x); }               \
            RT visit(CQ VD& x) override { return on_visit<RT>(5, x); }                  \
        };                                                                              \
        struct world                                                                    \
        {                                                                               \
            VBase* o[6][2];                                                             \
            Vis_AB v1; Vis_All v2; Vis_C v3; Vis_None v4; Vis_BaseD v5;                 \
            std::vector<vis_entry> menu;                                                \
            world()                                                                     \
            {                                                                           \
                for (int n = 0; n < 2; ++n)                                             \
                {                                                                       \
                    o[0][n] = nullptr;                                                  \
                    o[1][n] = new VA(10 + n); o[2][n] = new VB(20 + n); o[3][n] = new VC(30 + n); \
                    o[4][n] = new VBase(40 + n); o[5][n] = new VD(50 + n);              \
                }                                                                       \
                menu = {{{1, 2}, &v1}, {{1, 2, 3, 4, 5}, &v2}, {{3}, &v3}, {{}, &v4}, {{4, 5}, &v5}}; \
            }                                                                           \
            ~world() { for (int c = 1; c < 6; ++c) for (int n = 0; n < 2; ++n) delete o[c][n]; } \
            int find(const void* p) const                                               \
            {                                                                           \
                for (int c = 1; c < 6; ++c) for (int n = 0; n < 2; ++n)                 \
                    if (dynamic_cast<const void*>(o[c][n]) == p) return 10 * c + n;     \
                return 0;                                                               \
            }                                                                           \
            long accept(long long oid, xtl::base_visitor& v)                            \
            {                                                                           \
                CQ VBase& r = *o[oid / 10][oid % 10];                                   \
                call_accept(r, v, std::is_void<RT>());                                  \
                return g_vret_out;                                                      \
            }                                                                           \
            long g_vret_out = 0;                                                        \
            template <class Q> void call_accept(Q& r, xtl::base_visitor& v, std::false_type) { g_vret_out = long(r.accept(v)); } \
            template <class Q> void call_accept(Q& r, xtl::base_visitor& v, std::true_type) { r.accept(v); g_vret_out = 0; } \
        };                                                                              \
    }

#define C17_NOCONST
C17_VHIER(v_default, long, false, C17_NOCONST, xtl::default_catch_all, XTL_DEFINE_VISITABLE)
C17_VHIER(v_throwing, long, false, C17_NOCONST, xtl::throwing_catch_all, XTL_DEFINE_VISITABLE)
C17_VHIER(v_cdefault, long, true, const, xtl::default_catch_all, XTL_DEFINE_CONST_VISITABLE)
C17_VHIER(v_crecording, long, true, const, recording_catch_all, XTL_DEFINE_CONST_VISITABLE)
C17_VHIER(v_recording, long, false, C17_NOCONST, recording_catch_all, XTL_DEFINE_VISITABLE)
C17_VHIER(v_void, void, false, C17_NOCONST, xtl::throwing_catch_all, XTL_DEFINE_VISITABLE)

// ------------------------------------------------------------------ cyclic visitors
#define C17_CYC(NS, CONSTFLAG, CQ, DEFC)                                                \
    namespace NS                                                                        \
    {                                                                                   \
        struct CBase; struct CA; struct CB; struct CC; struct CD;                       \
        struct visitor_t : xtl::cyclic_visitor<mpl::vector<CA, CB, CC, CBase, CD>, long, CONSTFLAG> \
        {                                                                               \
            long visit(CQ CA& x) override;                                              \
            long visit(CQ CB& x) override;                                              \
            long visit(CQ CC& x) override;                                              \
            long visit(CQ CBase& x) override;                                           \
            long visit(CQ CD& x) override;                                              \
        };                                                                              \
        struct CBase                                                                    \
        {                                                                               \
            explicit CBase(int t = 0) : tag(t) {}                                       \
            virtual ~CBase() = default;                                                 \
            DEFC(visitor_t)                                                             \
            virtual int dynid() const { return 4; }                                     \
            int tag;                                                                    \
        };                                                                              \
        struct CA : CBase { explicit CA(int t = 0) : CBase(0), tag(t) {} DEFC(visitor_t) int dynid() const override { return 1; } int tag; }; \
        struct CB : CBase { explicit CB(int t = 0) : CBase(0), tag(t) {} DEFC(visitor_t) int dynid() const override { return 2; } int tag; }; \
        struct CC : CBase { explicit CC(int t = 0) : CBase(0), tag(t) {} DEFC(visitor_t) int dynid() const override { return 3; } int tag; }; \
        struct CD : CA { explicit CD(int t = 0) : CA(0), tag(t) {} DEFC(visitor_t) int dynid() const override { return 5; } int tag; }; \
        long visitor_t::visit(CQ CA& x) { return on_visit<long>(1, x); }                \
        long visitor_t::visit(CQ CB& x) { return on_visit<long>(2, x); }                \
        long visitor_t::visit(CQ CC& x) { return on_visit<long>(3, x); }                \
        long visitor_t::visit(CQ CBase& x) { return on_visit<long>(4, x); }             \
        long visitor_t::visit(CQ CD& x) { return on_visit<long>(5, x); }                \
        struct world                                                                    \
        {                                                                               \
            CBase* o[6][2];                                                             \
            visitor_t v;                                                                \
            world()                                                                     \
            {                                                                           \
                for (int n = 0; n < 2; ++n)                                             \
                {                                                                       \
                    o[0][n] = nullptr;                                                  \
                    o[1][n] = new CA(10 + n); o[2][n] = new CB(20 + n); o[3][n] = new CC(30 + n); \
                    o[4][n] = new CBase(40 + n); o[5][n] = new CD(50 + n);              \
                }                                                                       \
            }                                                                           \
            ~world() { for (int c = 1; c < 6; ++c) for (int n = 0; n < 2; ++n) delete o[c][n]; } \
            int find(const void* p) const                                               \
            {                                                                           \
                for (int c = 1; c < 6; ++c) for (int n = 0; n < 2; ++n)                 \
                    if (dynamic_cast<const void*>(o[c][n]) == p) return 10 * c + n;     \
                return 0;                                                               \
            }                                                                           \
            long accept(long long oid) { CQ CBase& r = *o[oid / 10][oid % 10]; return r.accept(v); } \
        };                                                                              \
    }

C17_CYC(cyc_mut, false, C17_NOCONST, XTL_DEFINE_CYCLIC_VISITABLE)
C17_CYC(cyc_const, true, const, XTL_DEFINE_CONST_CYCLIC_VISITABLE)

// ------------------------------------------------------------------ interpreter
static void check_oid(long long oid)
{
    long long c = oid / 10, n = oid % 10;
    if (c < 1 || c > 5 || n < 0 || n > 1) { std::fprintf(stderr, "script: bad object id %lld\n", oid); std::exit(3); }
}

struct interp
{
    hz::pool_t pool;
    std::unique_ptr<imachine> m;
    int k = 1, ar = 1, nx = 0;
    std::vector<sd_entry> smenu = static_menu();
    v_default::world w_default;
    v_throwing::world w_throwing;
    v_cdefault::world w_cdefault;
    v_crecording::world w_crecording;
    v_recording::world w_recording;
    v_void::world w_void;
    cyc_mut::world w_cyc;
    cyc_const::world w_ccyc;
    std::string what;

    static std::vector<int> toint(const std::vector<long long>& v) { return std::vector<int>(v.begin(), v.end()); }

    template <class W>
    outcome accept_in(W& w, const std::vector<int>& set, long long oid, const char* quiet)
    {
        check_oid(oid);
        g_lookup = [&w](const void* p) { return w.find(p); };
        for (auto& e : w.menu)
            if (e.set == set)
            {
                xtl::base_visitor& v = *e.v;
                return guarded([&]() { return w.accept(oid, v); }, quiet);
            }
        std::fprintf(stderr, "script: no visitor with that set of visited classes\n");
        std::exit(3);
    }

    std::string cell(const std::vector<hz::Base*>& os)
    {
        std::vector<long long> xs;
        for (int i = 0; i < nx; ++i) xs.push_back(i + 1);
        g_lookup = [this](const void* p) { return pool.find(p); };
        outcome o = m->dispatch(os, xs);
        vj::out c;
        bool ok = std::string(o.exc) == "none";
        c.kv("h", ok ? o.r.h : 0);
        c.kints("objs", ok ? ids_of(o.r.addr) : std::vector<int>());
        return c.obj();
    }
    std::string table(std::size_t level, std::vector<hz::Base*>& os)
    {
        if (level == std::size_t(ar)) return cell(os);
        std::string s = "[";
        for (int c = 1; c <= k; ++c)
        {
            if (c > 1) s += ',';
            os.push_back(pool.o[c][0]);
            s += table(level + 1, os);
            os.pop_back();
        }
        return s + "]";
    }
    std::string state()
    {
        if (!m) return "{\"tab\":[]}";
        std::vector<hz::Base*> os;
        return "{\"tab\":" + table(0, os) + "}";
    }

    std::string step(const vj::value& e)
    {
        const std::string& op = e.str("op");
        const vj::value& a = e.at("a");
        what.clear();
        if (op == "Reset")
        {
            m.reset();
            hz::reset_indices();
            k = int(a.num("k"));
            ar = int(a.num("ar"));
            nx = int(a.num("nx"));
            if (k < 1 || k > 5) { std::fprintf(stderr, "script: bad k\n"); std::exit(3); }
            m.reset(make_machine(a.str("kind"), ar, nx));
            return "{\"exc\":\"none\",\"val\":[]}";
        }
        if (op == "Insert")
        {
            if (!m) { std::fprintf(stderr, "script: no dispatcher\n"); std::exit(3); }
            m->insert(a.ints("t"), int(a.num("h")));
            return "{\"exc\":\"none\",\"val\":[]}";
        }
        if (op == "Erase")
        {
            if (!m) { std::fprintf(stderr, "script: no dispatcher\n"); std::exit(3); }
            m->erase(a.ints("t"));
            return "{\"exc\":\"none\",\"val\":[]}";
        }
        if (op == "Dispatch")
        {
            if (!m) { std::fprintf(stderr, "script: no dispatcher\n"); std::exit(3); }
            std::vector<hz::Base*> os;
            for (long long id : a.ints("os")) os.push_back(pool.get(id));
            g_lookup = [this](const void* p) { return pool.find(p); };
            outcome o = m->dispatch(os, a.ints("xs"));
            what = o.what;
            return outcome_json(o);
        }
        if (op == "Static" || op == "StaticSym")
        {
            std::vector<int> lhs = toint(a.ints("lhs")), rhs = toint(a.ints("rhs"));
            bool sym = op == "StaticSym", cst = a.at("cst").b;
            auto os = a.ints("os");
            if (os.size() != 2) { std::fprintf(stderr, "script: static dispatch takes two objects\n"); std::exit(3); }
            for (auto& s : smenu)
                if (s.lhs == lhs && s.rhs == rhs && s.sym == sym && s.cst == cst)
                {
                    exec_t ex;
                    g_lookup = [this](const void* p) { return pool.find(p); };
                    hz::Base& x = *pool.get(os[0]);
                    hz::Base& y = *pool.get(os[1]);
                    outcome ab = guarded([&]() { return s.fn(x, y, ex); }, "on_error");
                    if (!sym) return outcome_json(ab);
                    outcome ba = guarded([&]() { return s.fn(y, x, ex); }, "on_error");
                    return "{\"exc\":\"none\",\"val\":{\"ab\":" + outcome_json(ab) + ",\"ba\":" + outcome_json(ba) + "}}";
                }
            std::fprintf(stderr, "script: no static dispatcher with these type lists is compiled in\n");
            std::exit(3);
        }
        if (op == "Accept")
        {
            const std::string& v = a.str("v");
            std::vector<int> set = toint(a.ints("vis"));
            long long oid = a.num("o");
            outcome o;
            if (v == "default") o = accept_in(w_default, set, oid, "catch_all");
            else if (v == "throwing") o = accept_in(w_throwing, set, oid, "catch_all");
            else if (v == "cdefault") o = accept_in(w_cdefault, set, oid, "catch_all");
            else if (v == "crecording") o = accept_in(w_crecording, set, oid, "catch_all");
            else if (v == "recording") o = accept_in(w_recording, set, oid, "catch_all");
            else if (v == "void") o = accept_in(w_void, set, oid, "catch_all");
            else { std::fprintf(stderr, "script: unknown visitable variant %s\n", v.c_str()); std::exit(3); }
            what = o.what;
            return outcome_json(o);
        }
        if (op == "Cyclic")
        {
            long long oid = a.num("o");
            check_oid(oid);
            bool cst = a.at("cst").b;
            if (cst) g_lookup = [this](const void* p) { return w_ccyc.find(p); };
            else g_lookup = [this](const void* p) { return w_cyc.find(p); };
            outcome o = cst ? guarded([&]() { return w_ccyc.accept(oid); }, "catch_all")
                            : guarded([&]() { return w_cyc.accept(oid); }, "catch_all");
            what = o.what;
            return outcome_json(o);
        }
        std::fprintf(stderr, "script: unknown op %s\n", op.c_str());
        std::exit(3);
    }

    int run()
    {
        std::string line;
        while (std::getline(std::cin, line))
        {
            if (line.empty()) continue;
            vj::value e = vj::parse(line);
            std::string res = step(e);
            std::string head = line.substr(0, line.rfind('}'));
            std::string out = head + ",\"res\":" + res + ",\"st\":" + state();
            // advisory (representation level, never part of a verdict): class indices, exception type
            out += ",\"l2\":{\"idx\":" + vj::ints(hz::indices()) + ",\"what\":\"" + what + "\"}}\n";
            std::fputs(out.c_str(), stdout);
        }
        return 0;
    }
};

int main(int argc, char** argv)
{
    vj::install_crash_handlers();
    if (argc > 1 && std::string(argv[1]) == "--caps")
    {
        // what this build of the library offers (probed at compile time, not assumed)
        bool fe = machine<const hz::Base, 2, 0, xtl::static_caster, xtl::basic_fast_dispatcher>().can_erase();
        bool me = machine<const hz::Base, 2, 0, xtl::static_caster, xtl::basic_dispatcher>().can_erase();
        std::printf("{\"fast_erase\":%s,\"map_erase\":%s,\"kind\":%d}\n", fe ? "true" : "false", me ? "true" : "false", int(C17_KIND));
        return 0;
    }
    interp I;
    return I.run();
}

// C17 conformance harness: interprets a script (ndjson on stdin) of registrations, erasures, copies and
// dispatches on real xtl dispatchers / visitors and writes, after every call, the call's outcome
// (which handler ran, with which static signature, which dynamic types / objects it saw in which
// order, the undispatched arguments it received, the value that came back, or how the error was
// reported) and the full observable projection of the dispatcher objects: the outcome of dispatching
// every tuple of classes.  It contains no oracle: it executes and prints.
//
// Class ids (fixed, shared with specs/Dispatch.tla): 1=A 2=B 3=C 4=Base 5=D.
//   hierarchy hz: A, B, C derive from Base; C has a second polymorphic base in front of Base (the Base
//   sub-object is at a non-zero offset); D derives from A.
//   hierarchy hv (kinds vmap_dyn, vfast_dyn): A and B derive VIRTUALLY from Base, C derives from A and B.
// Object ids are 10*class + n, n in {0,1}.
//
// -DC17_KIND=<n> compiles one part only (parallel builds, and a header change that breaks one part
//    does not take the others with it): 1 map_dyn  2 map_static  3 fast_dyn  4 fast_static
//    5 static_dispatcher  6 visitors (includes xvisitor.hpp only)  7 raw_map + raw_fast (the backends
//    used directly with a user callback type)  8 vmap_dyn + vfast_dyn;  0 = everything.
// -DC17_AR=12|3 compiles only arities {1,2} or {3} (arity 3 over the classes 1..3).
// -DC17_SMALL: arities {1,2} reduced to (arity 1, no extras, const base) and (arity 2, one extra).
// -DC17_FORK: every call that may report an error runs in a forked child; a child that aborts is the
//    outcome "abort" (XTL_NO_EXCEPTIONS builds: XTL_THROW prints and aborts).
#ifndef C17_KIND
#define C17_KIND 0
#endif
#ifndef C17_AR
#define C17_AR 0      // 0 = arities 1..3; 12 = arities 1 and 2 only; 3 = arity 3 only (parallel builds)
#endif
#ifndef C17_FORK
#define C17_FORK 0
#endif
#ifndef C17_SMALL
#define C17_SMALL 0   // 1 = only the combinations (arity 1, no extras, const base) and (arity 2, one extra)
#endif
#define C17_HAS(n) (C17_KIND == 0 || C17_KIND == (n))
#define C17_FUNCTOR (C17_KIND == 0 || (C17_KIND >= 1 && C17_KIND <= 4) || C17_KIND == 7 || C17_KIND == 8)
#define C17_STATIC C17_HAS(5)
#define C17_VISIT C17_HAS(6)
#define C17_MM (C17_FUNCTOR || C17_STATIC)

#if C17_MM
#include <xtl/xmultimethods.hpp>
#endif
#if C17_VISIT
#include <xtl/xvisitor.hpp>
#endif
#include "vjson.hpp"
#include <array>
#include <functional>
#include <iostream>
#include <typeinfo>
#include <utility>
#include <tuple>
#include <fcntl.h>
#include <sys/mman.h>
#include <sys/time.h>
#include <sys/wait.h>

#if C17_MM
namespace mpl = xtl::mpl;
#elif C17_VISIT
namespace mpl = xtl::mpl;
#endif

// ------------------------------------------------------------------ what a handler records
struct record_t
{
    int calls = 0;      // handler invocations during the call
    int rep = 0;        // invocations of the error hook (on_error / recording catch-all policy)
    int h = 0;          // id of the handler that ran
    std::vector<int> sig, dyn, tg;        // static types, dynamic types, tags read through the typed references
    std::vector<const void*> addr;         // addresses (of the complete objects) of the arguments, in the order received
    std::vector<long> xv;
    bool xid = true;
    bool raw = false;         // the handler received base references only (raw backends): no typed tags to read
    int psig = 0, pobj = 0;   // what the recording catch-all policy was given
    int code = 0;             // code carried by the user exception a "throw" handler threw
    bool nested = false;      // a "nest" handler dispatched again: what the inner handler recorded
    int in_h = 0;
    std::vector<int> in_sig;
    std::vector<const void*> in_addr;
};
static record_t g;
// handler behaviours (ids 50..59 throw, 60..69 dispatch again, 70..79 register while running); switched off
// while the tables are probed; "nest" and "reg" only at depth 0
struct user_error { int code; };
static bool g_plain = false;
static int g_depth = 0;
static std::function<long()> g_nested;
static std::function<void(int)> g_rereg;
struct depth_guard { depth_guard() { ++g_depth; } ~depth_guard() { --g_depth; } };
static const void* g_xaddr[3] = {nullptr, nullptr, nullptr};
// maps the address of a complete object back to the id of the caller's object (0 = not one of them)
static std::function<int(const void*)> g_lookup;

// counters that survive the death of a forked child
struct shm_t { volatile int calls; volatile int rep; };
static shm_t* g_shm = nullptr;
static void note_call() { ++g.calls; if (g_shm) ++g_shm->calls; }
static void note_rep() { ++g.rep; if (g_shm) ++g_shm->rep; }

template <class T> struct tc { using type = T; };
template <class T> struct cid_of;
template <class T> struct cid_of<const T> : cid_of<T> {};
[[noreturn]] static void bad_script(const char* m, long long v = 0)
{
    std::fprintf(stderr, "script: %s %lld\n", m, v);
    std::exit(3);
}

// ------------------------------------------------------------------ dispatcher hierarchies
#if C17_MM
namespace hz
{
    struct Pad
    {
        virtual ~Pad() = default;
        long pad[3] = {7, 7, 7};
    };
    struct Base
    {
        XTL_IMPLEMENT_INDEXABLE_CLASS()
        explicit Base(int t = 0) : tag(t) {}
        virtual ~Base() = default;
        Base(const Base&) = delete;
        Base& operator=(const Base&) = delete;
        int tag;
    };
    struct A : Base
    {
        XTL_IMPLEMENT_INDEXABLE_CLASS()
        explicit A(int t = 0) : Base(0), tag(t) {}
        int tag;
    };
    struct B : Base
    {
        XTL_IMPLEMENT_INDEXABLE_CLASS()
        explicit B(int t = 0) : Base(0), tag(t) {}
        double fill = 1.5;
        int tag;
    };
    struct C : Pad, Base
    {
        XTL_IMPLEMENT_INDEXABLE_CLASS()
        explicit C(int t = 0) : Base(0), tag(t) {}
        int tag;
    };
    struct D : A
    {
        XTL_IMPLEMENT_INDEXABLE_CLASS()
        explicit D(int t = 0) : A(0), tag(t) {}
        long fill[2] = {3, 3};
        int tag;
    };
    inline int dyn_cid(const Base& b)
    {
        const std::type_info& ti = typeid(b);
        if (ti == typeid(A)) return 1;
        if (ti == typeid(B)) return 2;
        if (ti == typeid(C)) return 3;
        if (ti == typeid(Base)) return 4;
        if (ti == typeid(D)) return 5;
        return 0;
    }
}
template <> struct cid_of<hz::A> : std::integral_constant<int, 1> {};
template <> struct cid_of<hz::B> : std::integral_constant<int, 2> {};
template <> struct cid_of<hz::C> : std::integral_constant<int, 3> {};
template <> struct cid_of<hz::Base> : std::integral_constant<int, 4> {};
template <> struct cid_of<hz::D> : std::integral_constant<int, 5> {};

struct HZ
{
    using Base = hz::Base;
    template <class F> static void hi(int id, F&& f, std::true_type)
    {
        switch (id)
        {
            case 4: f(tc<hz::Base>()); return;
            case 5: f(tc<hz::D>()); return;
            default: bad_script("bad class id", id);
        }
    }
    template <class F> static void hi(int id, F&&, std::false_type) { bad_script("class id not compiled in at this arity", id); }
    template <int MaxK, class F> static void with_class(int id, F&& f)
    {
        switch (id)
        {
            case 1: f(tc<hz::A>()); return;
            case 2: f(tc<hz::B>()); return;
            case 3: f(tc<hz::C>()); return;
            default: hi(id, f, std::integral_constant<bool, (MaxK > 3)>());
        }
    }
    static void reset_indices()
    {
        hz::A::get_class_static_index() = SIZE_MAX;
        hz::B::get_class_static_index() = SIZE_MAX;
        hz::C::get_class_static_index() = SIZE_MAX;
        hz::Base::get_class_static_index() = SIZE_MAX;
        hz::D::get_class_static_index() = SIZE_MAX;
    }
    static std::vector<long long> indices()
    {
        auto f = [](std::size_t v) { return v == SIZE_MAX ? 255ll : (long long)v; };
        return {f(hz::A::get_class_static_index()), f(hz::B::get_class_static_index()), f(hz::C::get_class_static_index()),
                f(hz::Base::get_class_static_index()), f(hz::D::get_class_static_index())};
    }
    static Base* make(int c, int n)
    {
        switch (c)
        {
            case 1: return new hz::A(10 + n);
            case 2: return new hz::B(20 + n);
            case 3: return new hz::C(30 + n);
            case 4: return new hz::Base(40 + n);
            case 5: return new hz::D(50 + n);
        }
        return nullptr;
    }
};
#endif

#if C17_HAS(8)
namespace hv
{
    struct Base
    {
        XTL_IMPLEMENT_INDEXABLE_CLASS()
        explicit Base(int t = 0) : tag(t) {}
        virtual ~Base() = default;
        Base(const Base&) = delete;
        Base& operator=(const Base&) = delete;
        int tag;
    };
    struct A : virtual Base
    {
        XTL_IMPLEMENT_INDEXABLE_CLASS()
        explicit A(int t = 0) : Base(0), tag(t) {}
        long fa = 4;
        int tag;
    };
    struct B : virtual Base
    {
        XTL_IMPLEMENT_INDEXABLE_CLASS()
        explicit B(int t = 0) : Base(0), tag(t) {}
        double fb = 2.5;
        int tag;
    };
    struct C : A, B
    {
        XTL_IMPLEMENT_INDEXABLE_CLASS()
        explicit C(int t = 0) : Base(0), A(0), B(0), tag(t) {}
        int tag;
    };
    struct D : virtual Base      // a second virtual heir, used as class 5
    {
        XTL_IMPLEMENT_INDEXABLE_CLASS()
        explicit D(int t = 0) : Base(0), tag(t) {}
        int tag;
    };
    inline int dyn_cid(const Base& b)
    {
        const std::type_info& ti = typeid(b);
        if (ti == typeid(A)) return 1;
        if (ti == typeid(B)) return 2;
        if (ti == typeid(C)) return 3;
        if (ti == typeid(Base)) return 4;
        if (ti == typeid(D)) return 5;
        return 0;
    }
}
template <> struct cid_of<hv::A> : std::integral_constant<int, 1> {};
template <> struct cid_of<hv::B> : std::integral_constant<int, 2> {};
template <> struct cid_of<hv::C> : std::integral_constant<int, 3> {};
template <> struct cid_of<hv::Base> : std::integral_constant<int, 4> {};
template <> struct cid_of<hv::D> : std::integral_constant<int, 5> {};

struct HV
{
    using Base = hv::Base;
    template <class F> static void hi(int id, F&& f, std::true_type)
    {
        switch (id)
        {
            case 4: f(tc<hv::Base>()); return;
            case 5: f(tc<hv::D>()); return;
            default: bad_script("bad class id", id);
        }
    }
    template <class F> static void hi(int id, F&&, std::false_type) { bad_script("class id not compiled in at this arity", id); }
    template <int MaxK, class F> static void with_class(int id, F&& f)
    {
        switch (id)
        {
            case 1: f(tc<hv::A>()); return;
            case 2: f(tc<hv::B>()); return;
            case 3: f(tc<hv::C>()); return;
            default: hi(id, f, std::integral_constant<bool, (MaxK > 3)>());
        }
    }
    static void reset_indices()
    {
        hv::A::get_class_static_index() = SIZE_MAX;
        hv::B::get_class_static_index() = SIZE_MAX;
        hv::C::get_class_static_index() = SIZE_MAX;
        hv::Base::get_class_static_index() = SIZE_MAX;
        hv::D::get_class_static_index() = SIZE_MAX;
    }
    static std::vector<long long> indices()
    {
        auto f = [](std::size_t v) { return v == SIZE_MAX ? 255ll : (long long)v; };
        return {f(hv::A::get_class_static_index()), f(hv::B::get_class_static_index()), f(hv::C::get_class_static_index()),
                f(hv::Base::get_class_static_index()), f(hv::D::get_class_static_index())};
    }
    static Base* make(int c, int n)
    {
        switch (c)
        {
            case 1: return new hv::A(10 + n);
            case 2: return new hv::B(20 + n);
            case 3: return new hv::C(30 + n);
            case 4: return new hv::Base(40 + n);
            case 5: return new hv::D(50 + n);
        }
        return nullptr;
    }
};
#endif

#if C17_MM
template <class H>
struct pool_t
{
    typename H::Base* o[6][2];
    pool_t()
    {
        for (int n = 0; n < 2; ++n)
        {
            o[0][n] = nullptr;
            for (int c = 1; c < 6; ++c) o[c][n] = H::make(c, n);
        }
    }
    ~pool_t() { for (int c = 1; c < 6; ++c) for (int n = 0; n < 2; ++n) delete o[c][n]; }
    pool_t(const pool_t&) = delete;
    int find(const void* p) const
    {
        for (int c = 1; c < 6; ++c)
            for (int n = 0; n < 2; ++n)
                if (dynamic_cast<const void*>(o[c][n]) == p) return 10 * c + n;
        return 0;
    }
    typename H::Base* get(long long id) const
    {
        long long c = id / 10, n = id % 10;
        if (c < 1 || c > 5 || n < 0 || n > 1) bad_script("bad object id", id);
        return o[c][n];
    }
};
#endif

// ------------------------------------------------------------------ outcome of one call
struct outcome
{
    std::string exc = "none";
    std::string what;      // advisory: exception type (not compared by the property spec)
    long ret = 0;
    int calls = 0, rep = 0, h = 0;
    std::vector<int> sig, dyn, tg, ids;
    std::vector<long> xv;
    bool xid = true;
    int psig = 0, pobj = 0;
    int code = 0, in_h = 0;
    bool nested = false;
    std::vector<int> in_sig, in_ids;
};

static void fill(outcome& o)
{
    o.calls = g.calls; o.rep = g.rep; o.h = g.h; o.sig = g.sig; o.dyn = g.dyn; o.xv = g.xv; o.xid = g.xid;
    o.psig = g.psig; o.pobj = g.pobj;
    o.ids.clear();
    for (const void* p : g.addr) o.ids.push_back(g_lookup ? g_lookup(p) : 0);
    o.tg = g.raw ? o.ids : g.tg;
    o.code = g.code; o.nested = g.nested; o.in_h = g.in_h; o.in_sig = g.in_sig;
    o.in_ids.clear();
    for (const void* p : g.in_addr) o.in_ids.push_back(g_lookup ? g_lookup(p) : 0);
}

static std::string outcome_json(const outcome& o)
{
    vj::out v;
    v.kv("calls", o.calls);
    v.kv("ret", o.ret);
    v.kv("rep", o.rep);
    if (o.exc == "none")
    {
        v.kv("h", o.h);
        v.kints("sig", o.sig).kints("dyn", o.dyn).kints("objs", o.ids).kints("tg", o.tg).kints("xv", o.xv);
        v.kb("xid", o.xid);
        if (o.nested)
        {
            vj::out in;
            in.kv("h", o.in_h).kints("sig", o.in_sig).kints("objs", o.in_ids);
            v.kraw("in", in.obj());
        }
    }
    else if (o.exc == "user")
    {
        v.kv("h", o.h).kints("sig", o.sig).kints("objs", o.ids).kv("code", o.code);
    }
    else if (o.psig != 0)
    {
        v.kv("psig", o.psig).kv("pobj", o.pobj);
    }
    vj::out res;
    res.ks("exc", o.exc);
    res.kraw("val", v.obj());
    return res.obj();
}

struct empty_callback : std::exception
{
    const char* what() const noexcept override { return "empty user callback"; }
};

template <class F>
static outcome guarded_here(F&& f, const char* quiet_error)
{
    outcome o;
    g = record_t();
    try
    {
        o.ret = f();
        // the call returned: either a handler ran, or the error was reported in-band
        if (g.calls == 0 && quiet_error) o.exc = quiet_error;
    }
    catch (const user_error& e) { o.exc = "user"; o.what = "user_error"; g.code = e.code; }
    catch (const std::bad_function_call&) { o.exc = "exception"; o.what = "bad_function_call"; }
    catch (const std::bad_cast&) { o.exc = "exception"; o.what = "bad_cast"; }
    catch (const std::out_of_range&) { o.exc = "exception"; o.what = "out_of_range"; }
    catch (const std::runtime_error&) { o.exc = "exception"; o.what = "runtime_error"; }
    catch (const empty_callback&) { o.exc = "exception"; o.what = "empty_callback"; }
    catch (const std::exception&) { o.exc = "exception"; o.what = "std_exception"; }
    fill(o);
    return o;
}

#if C17_FORK
// full serialisation of an outcome (child -> parent)
static std::string wire(const outcome& o)
{
    vj::out v;
    v.ks("exc", o.exc).ks("what", o.what).kv("ret", o.ret).kv("calls", o.calls).kv("rep", o.rep).kv("h", o.h);
    v.kints("sig", o.sig).kints("dyn", o.dyn).kints("tg", o.tg).kints("ids", o.ids).kints("xv", o.xv);
    v.kb("xid", o.xid).kv("psig", o.psig).kv("pobj", o.pobj);
    return v.obj();
}
static std::vector<int> toints(const std::vector<long long>& v) { return std::vector<int>(v.begin(), v.end()); }
static outcome unwire(const std::string& s)
{
    vj::value e = vj::parse(s);
    outcome o;
    o.exc = e.str("exc"); o.what = e.str("what"); o.ret = long(e.num("ret"));
    o.calls = int(e.num("calls")); o.rep = int(e.num("rep")); o.h = int(e.num("h"));
    o.sig = toints(e.ints("sig")); o.dyn = toints(e.ints("dyn")); o.tg = toints(e.ints("tg")); o.ids = toints(e.ints("ids"));
    for (long long x : e.ints("xv")) o.xv.push_back(long(x));
    o.xid = e.at("xid").b; o.psig = int(e.num("psig")); o.pobj = int(e.num("pobj"));
    return o;
}

template <class F>
static outcome guarded(F&& f, const char* quiet_error = nullptr)
{
    int fd[2];
    if (::pipe(fd) != 0) { std::perror("pipe"); std::exit(4); }
    std::fflush(stdout);
    g_shm->calls = 0;
    g_shm->rep = 0;
    pid_t pid = ::fork();
    if (pid < 0) { std::perror("fork"); std::exit(4); }
    if (pid == 0)
    {
        ::close(fd[0]);
        std::signal(SIGABRT, SIG_DFL);          // XTL_THROW -> std::abort(): the child dies of SIGABRT
        std::set_terminate([]() { std::signal(SIGABRT, SIG_DFL); std::abort(); });
        struct itimerval tv = {{0, 0}, {8, 0}};
        std::signal(SIGVTALRM, SIG_DFL);
        ::setitimer(ITIMER_VIRTUAL, &tv, nullptr);
        int devnull = ::open("/dev/null", 1);   // the library's message goes to std::cerr
        if (devnull >= 0) ::dup2(devnull, 2);
        outcome o = guarded_here(f, quiet_error);
        std::string s = wire(o);
        ssize_t n = ::write(fd[1], s.data(), s.size());
        (void)n;
        ::_exit(0);
    }
    ::close(fd[1]);
    std::string s;
    char buf[4096];
    for (;;)
    {
        ssize_t n = ::read(fd[0], buf, sizeof buf);
        if (n <= 0) break;
        s.append(buf, size_t(n));
    }
    ::close(fd[0]);
    int st = 0;
    ::waitpid(pid, &st, 0);
    if (WIFEXITED(st) && WEXITSTATUS(st) == 0 && !s.empty()) return unwire(s);
    if (WIFSIGNALED(st) && WTERMSIG(st) == SIGABRT)
    {
        outcome o;
        o.exc = "abort";
        o.what = "abort";
        o.calls = g_shm->calls;
        o.rep = g_shm->rep;
        return o;
    }
    // anything else (sanitizer report, SIGSEGV, CPU limit) ends the trace
    std::fflush(stdout);
    if (!(WIFEXITED(st) && WEXITSTATUS(st) == 86)) vj::crash_line(WIFSIGNALED(st) && WTERMSIG(st) == SIGVTALRM ? "cpu-limit" : "child-died");
    ::_exit(0);
}
#else
template <class F>
static outcome guarded(F&& f, const char* quiet_error = nullptr)
{
    return guarded_here(f, quiet_error);
}
#endif

// ------------------------------------------------------------------ undispatched arguments
struct xarg { int v; };
inline void xrec(std::size_t) {}
template <class... R> void xrec(std::size_t i, const xarg& x, R&... r);
template <class... R> void xrec(std::size_t i, long& x, R&... r)
{
    g.xv.push_back(x);
    if (i < 3 && g_xaddr[i] != static_cast<const void*>(&x)) g.xid = false;
    xrec(i + 1, r...);
}
template <class... R> void xrec(std::size_t i, const xarg& x, R&... r)
{
    g.xv.push_back(x.v);
    if (i < 3 && g_xaddr[i] != static_cast<const void*>(&x)) g.xid = false;
    xrec(i + 1, r...);
}

#if C17_FUNCTOR
template <std::size_t NX> struct xlist;
template <> struct xlist<0> { using type = mpl::vector<>; };
template <> struct xlist<1> { using type = mpl::vector<xarg>; };
template <> struct xlist<2> { using type = mpl::vector<const xarg, long>; };
template <> struct xlist<3> { using type = mpl::vector<xarg, const xarg, long>; };

// handler registered by Insert<Ds...>(h): records what it was given
template <class... Ds>
struct handler_t
{
    int h;
    template <class... X>
    long operator()(Ds&... ds, X&... xs) const
    {
        note_call();
        g.h = h;
        g.raw = false;
        g.sig = {cid_of<Ds>::value...};
        g.dyn = {dyn_cid(ds)...};
        g.tg = {ds.tag...};
        g.addr = {dynamic_cast<const void*>(&ds)...};
        g.xv.clear();
        g.xid = true;
        xrec(0, xs...);
        long r = long(h) * 100;
        for (long v : g.xv) r += v;
        if (g_plain) return r;
        if (h >= 50 && h < 60) throw user_error{h};
        if (g_depth == 0 && h >= 60 && h < 70 && g_nested)
        {
            record_t mine = g;
            depth_guard dg;
            long ir = g_nested();          // an exception (error report, user exception of the inner handler) passes through
            record_t in = g;
            g = mine;
            g.calls = in.calls;
            g.nested = true;
            g.in_h = in.h; g.in_sig = in.sig; g.in_addr = in.addr;
            r += ir;
        }
        else if (g_depth == 0 && h >= 70 && h < 80 && g_rereg)
        {
            depth_guard dg;
            g_rereg(h - 60);
        }
        return r;
    }
};

// user callback type for the backends used directly: receives base references and the extras.
// Default-constructed (what an unregistered cell of the fast backend holds) it reports an error itself,
// as an empty std::function does.
struct raw_cb
{
    int h = 0;
    std::vector<int> sig;

    template <class BT> static auto rec(BT& b, std::size_t&) -> decltype(dyn_cid(b), void())
    {
        g.dyn.push_back(dyn_cid(b));
        g.addr.push_back(dynamic_cast<const void*>(&b));
    }
    static void rec(const xarg& x, std::size_t& xi)
    {
        g.xv.push_back(x.v);
        if (xi < 3 && g_xaddr[xi] != static_cast<const void*>(&x)) g.xid = false;
        ++xi;
    }
    static void rec(long& x, std::size_t& xi)
    {
        g.xv.push_back(x);
        if (xi < 3 && g_xaddr[xi] != static_cast<const void*>(&x)) g.xid = false;
        ++xi;
    }
    template <class... Args>
    long operator()(Args&... a) const
    {
        if (h == 0) throw empty_callback();
        note_call();
        g.h = h;
        g.raw = true;
        g.sig = sig;
        g.dyn.clear(); g.addr.clear(); g.tg.clear(); g.xv.clear();
        g.xid = true;
        std::size_t xi = 0;
        int dummy[] = {0, (rec(a, xi), 0)...};
        (void)dummy;
        long r = long(h) * 100;
        for (long v : g.xv) r += v;
        return r;
    }
};

// ------------------------------------------------------------------ functor dispatchers
struct imachine
{
    virtual ~imachine() = default;
    virtual void insert(int slot, const std::vector<long long>& t, int h) = 0;
    virtual bool can_erase() const = 0;
    virtual bool can_copy() const = 0;
    virtual void erase(int slot, const std::vector<long long>& t) = 0;
    virtual outcome dispatch(int slot, const std::vector<long long>& os, const std::vector<long long>& xs) = 0;
    virtual void clone(const std::string& how) = 0;
    virtual void take(const std::string& how) = 0;
    virtual void drop2() = 0;
    virtual void new2() = 0;
    virtual bool has2() const = 0;
    virtual std::vector<long long> indices() const = 0;
};

template <class T, std::size_t N, class... Acc> struct rep_vec : rep_vec<T, N - 1, T, Acc...> {};
template <class T, class... Acc> struct rep_vec<T, 0, Acc...> { using type = mpl::vector<Acc...>; };

template <class Bk, class... Ds>
auto has_erase_impl(int) -> decltype(std::declval<Bk&>().template erase<Ds...>(), std::true_type());
template <class Bk, class... Ds>
std::false_type has_erase_impl(long);

template <template <class, class> class Caster, template <class, class, class, class> class Backend>
struct functor_flavor
{
    template <class TL, class XL> using disp = xtl::functor_dispatcher<TL, long, XL, Caster, Backend>;
    template <class TL, class XL> using probe = Backend<TL, long, XL, std::function<long()>>;
    template <class... Ds, class D> static void insert(D& d, int h) { d.template insert<Ds...>(handler_t<Ds...>{h}); }
};
template <template <class, class, class, class> class Backend>
struct raw_flavor
{
    template <class TL, class XL> using disp = Backend<TL, long, XL, raw_cb>;
    template <class TL, class XL> using probe = Backend<TL, long, XL, raw_cb>;
    template <class... Ds, class D> static void insert(D& d, int h) { d.template insert<Ds...>(raw_cb{h, {cid_of<Ds>::value...}}); }
};

template <class H, bool CB, std::size_t N, std::size_t NX, class Flavor>
struct machine : imachine
{
    using HB = typename H::Base;
    using BT = std::conditional_t<CB, const HB, HB>;
    static constexpr int MaxK = N >= 3 ? 3 : 5;
    using tlist = typename rep_vec<BT, N>::type;
    using xl = typename xlist<NX>::type;
    using disp_t = typename Flavor::template disp<tlist, xl>;
    using backend_probe = typename Flavor::template probe<tlist, xl>;
    template <class T> using q = std::conditional_t<CB, const T, T>;
    static constexpr bool copyable = std::is_copy_constructible<disp_t>::value && std::is_copy_assignable<disp_t>::value
                                     && std::is_move_constructible<disp_t>::value && std::is_move_assignable<disp_t>::value;

    pool_t<H> pool;
    std::unique_ptr<disp_t> d[2];

    machine() { d[0].reset(new disp_t()); }

    disp_t& at(int slot)
    {
        if (slot < 1 || slot > 2 || !d[slot - 1]) bad_script("no dispatcher object in slot", slot);
        return *d[slot - 1];
    }
    bool has2() const override { return bool(d[1]); }
    std::vector<long long> indices() const override { return H::indices(); }

    // ---- insert<D...>(handler)
    template <std::size_t Rem, class... Ds>
    struct inserter
    {
        static void go(disp_t& dd, const long long* t, int h)
        {
            H::template with_class<MaxK>(int(*t), [&](auto c) {
                using T = q<typename decltype(c)::type>;
                inserter<Rem - 1, Ds..., T>::go(dd, t + 1, h);
            });
        }
    };
    template <class... Ds>
    struct inserter<0, Ds...>
    {
        static void go(disp_t& dd, const long long*, int h) { Flavor::template insert<Ds...>(dd, h); }
    };
    void insert(int slot, const std::vector<long long>& t, int h) override
    {
        if (t.size() != N) bad_script("tuple length", (long long)t.size());
        inserter<N>::go(at(slot), t.data(), h);
    }

    // ---- erase<D...>()  (only where the backend has one)
    template <class... Ds> using has_erase = decltype(has_erase_impl<backend_probe, Ds...>(0));
    template <class... Ds> static void do_erase(disp_t& dd, std::true_type) { dd.template erase<Ds...>(); }
    template <class... Ds> static void do_erase(disp_t&, std::false_type) { bad_script("erase is not available for this dispatcher"); }
    template <std::size_t Rem, class... Ds>
    struct eraser
    {
        static void go(disp_t& dd, const long long* t)
        {
            H::template with_class<MaxK>(int(*t), [&](auto c) {
                using T = q<typename decltype(c)::type>;
                eraser<Rem - 1, Ds..., T>::go(dd, t + 1);
            });
        }
    };
    template <class... Ds>
    struct eraser<0, Ds...>
    {
        static void go(disp_t& dd, const long long*) { do_erase<Ds...>(dd, has_erase<Ds...>()); }
    };
    template <std::size_t, class T> struct always_t { using type = T; };
    template <std::size_t... I> static bool erase_probe(std::index_sequence<I...>)
    {
        return has_erase<typename always_t<I, q<HB>>::type...>::value;
    }
    bool can_erase() const override { return erase_probe(std::make_index_sequence<N>()); }
    bool can_copy() const override { return copyable; }
    void erase(int slot, const std::vector<long long>& t) override
    {
        if (t.size() != N) bad_script("tuple length", (long long)t.size());
        eraser<N>::go(at(slot), t.data());
    }

    // ---- copies (only where the dispatcher type is copyable and movable: not part of the property)
    void clone_impl(const std::string& how, std::true_type)
    {
        if (how == "ctor") d[1].reset(new disp_t(*d[0]));
        else if (how == "assign") at(2) = *d[0];
        else bad_script("unknown kind of Clone");
    }
    void take_impl(const std::string& how, std::true_type)
    {
        if (how == "self") { disp_t& r = *d[0]; *d[0] = r; return; }
        disp_t& src = at(2);
        if (how == "copy") *d[0] = src;
        else if (how == "copyctor") { std::unique_ptr<disp_t> p(new disp_t(src)); d[0] = std::move(p); }
        else if (how == "move") { *d[0] = std::move(src); d[1].reset(); }
        else if (how == "movector") { std::unique_ptr<disp_t> p(new disp_t(std::move(src))); d[0] = std::move(p); d[1].reset(); }
        else if (how == "swap") { using std::swap; swap(*d[0], src); }
        else bad_script("unknown kind of Take");
    }
    void clone_impl(const std::string&, std::false_type) { bad_script("this dispatcher type is not copyable"); }
    void take_impl(const std::string&, std::false_type) { bad_script("this dispatcher type is not copyable"); }
    void clone(const std::string& how) override { clone_impl(how, std::integral_constant<bool, copyable>()); }
    void take(const std::string& how) override { take_impl(how, std::integral_constant<bool, copyable>()); }
    void drop2() override { at(2); d[1].reset(); }
    void new2() override { d[1].reset(); d[1].reset(new disp_t()); }

    // ---- dispatch(args..., extras...)
    template <std::size_t... I>
    static long call(const disp_t& dd, std::index_sequence<I...>, BT* const* o, xarg&, xarg&, long&, std::integral_constant<std::size_t, 0>)
    {
        return dd.dispatch(*o[I]...);
    }
    template <std::size_t... I>
    static long call(const disp_t& dd, std::index_sequence<I...>, BT* const* o, xarg& x1, xarg&, long&, std::integral_constant<std::size_t, 1>)
    {
        return dd.dispatch(*o[I]..., x1);
    }
    template <std::size_t... I>
    static long call(const disp_t& dd, std::index_sequence<I...>, BT* const* o, xarg& x1, xarg&, long& x3, std::integral_constant<std::size_t, 2>)
    {
        return dd.dispatch(*o[I]..., x1, x3);
    }
    template <std::size_t... I>
    static long call(const disp_t& dd, std::index_sequence<I...>, BT* const* o, xarg& x1, xarg& x2, long& x3, std::integral_constant<std::size_t, 3>)
    {
        return dd.dispatch(*o[I]..., x1, x2, x3);
    }
    outcome dispatch(int slot, const std::vector<long long>& os, const std::vector<long long>& xs) override
    {
        if (os.size() != N || xs.size() != NX) bad_script("dispatch arity", (long long)os.size());
        BT* o[N];
        for (std::size_t i = 0; i < N; ++i) o[i] = pool.get(os[i]);
        // nx = 1: (xarg) ; nx = 2: (const xarg, long) ; nx = 3: (xarg, const xarg, long)
        xarg x1{NX > 0 ? int(xs[0]) : 0};
        xarg x2{NX > 2 ? int(xs[1]) : 0};
        long x3 = NX == 2 ? long(xs[1]) : NX == 3 ? long(xs[2]) : 0;
        g_xaddr[0] = &x1;
        g_xaddr[1] = NX == 2 ? static_cast<const void*>(&x3) : static_cast<const void*>(&x2);
        g_xaddr[2] = &x3;
        g_lookup = [this](const void* p) { return pool.find(p); };
        const disp_t& dd = at(slot);
        // what the "nest" / "reg" handlers do: dispatch the reversed arguments with the same extras through the
        // same object; register a plain handler for the reversed class tuple in the same object
        BT* ro[N];
        long long rt[N];
        for (std::size_t i = 0; i < N; ++i) { ro[i] = o[N - 1 - i]; rt[i] = os[N - 1 - i] / 10; }
        g_nested = [&]() { return call(dd, std::make_index_sequence<N>(), ro, x1, x2, x3, std::integral_constant<std::size_t, NX>()); };
        g_rereg = [&, slot](int h2) { inserter<N>::go(at(slot), rt, h2); };
        struct unset { ~unset() { g_nested = nullptr; g_rereg = nullptr; } } un;
        return guarded([&]() { return call(dd, std::make_index_sequence<N>(), o, x1, x2, x3, std::integral_constant<std::size_t, NX>()); });
    }
};

template <class H, class Flavor>
static imachine* make_kind(int ar, int nx)
{
    // nx = 0: const base (as the upstream tests do); nx > 0: non-const base
#if C17_AR == 0 || C17_AR == 12
    if (ar == 1 && nx == 0) return new machine<H, true, 1, 0, Flavor>();
    if (ar == 2 && nx == 1) return new machine<H, false, 2, 1, Flavor>();
#if !C17_SMALL
    if (ar == 1 && nx == 1) return new machine<H, false, 1, 1, Flavor>();
    if (ar == 1 && nx == 3) return new machine<H, false, 1, 3, Flavor>();
    if (ar == 2 && nx == 0) return new machine<H, true, 2, 0, Flavor>();
    if (ar == 2 && nx == 2) return new machine<H, false, 2, 2, Flavor>();
#endif
#endif
#if C17_AR == 0 || C17_AR == 3
    if (ar == 3 && nx == 0) return new machine<H, true, 3, 0, Flavor>();
    if (ar == 3 && nx == 1) return new machine<H, false, 3, 1, Flavor>();
#endif
    bad_script("unsupported arity/extras in this build", ar * 10 + nx);
}

static imachine* make_machine(const std::string& kind, int ar, int nx)
{
#if C17_HAS(1)
    if (kind == "map_dyn") return make_kind<HZ, functor_flavor<xtl::dynamic_caster, xtl::basic_dispatcher>>(ar, nx);
#endif
#if C17_HAS(2)
    if (kind == "map_static") return make_kind<HZ, functor_flavor<xtl::static_caster, xtl::basic_dispatcher>>(ar, nx);
#endif
#if C17_HAS(3)
    if (kind == "fast_dyn") return make_kind<HZ, functor_flavor<xtl::dynamic_caster, xtl::basic_fast_dispatcher>>(ar, nx);
#endif
#if C17_HAS(4)
    if (kind == "fast_static") return make_kind<HZ, functor_flavor<xtl::static_caster, xtl::basic_fast_dispatcher>>(ar, nx);
#endif
#if C17_HAS(7)
    if (kind == "raw_map") return make_kind<HZ, raw_flavor<xtl::basic_dispatcher>>(ar, nx);
    if (kind == "raw_fast") return make_kind<HZ, raw_flavor<xtl::basic_fast_dispatcher>>(ar, nx);
#endif
#if C17_HAS(8)
    if (kind == "vmap_dyn") return make_kind<HV, functor_flavor<xtl::dynamic_caster, xtl::basic_dispatcher>>(ar, nx);
    if (kind == "vfast_dyn") return make_kind<HV, functor_flavor<xtl::dynamic_caster, xtl::basic_fast_dispatcher>>(ar, nx);
#endif
    std::fprintf(stderr, "script: dispatcher kind %s not compiled into this driver\n", kind.c_str());
    std::exit(3);
}
#endif  // C17_FUNCTOR

// ------------------------------------------------------------------ static dispatcher
#if C17_STATIC
struct exec_t
{
    template <class T1, class T2>
    long run(T1& a, T2& b)
    {
        note_call();
        g.h = 0;
        g.raw = false;
        g.sig = {cid_of<T1>::value, cid_of<T2>::value};
        g.dyn = {hz::dyn_cid(a), hz::dyn_cid(b)};
        g.tg = {a.tag, b.tag};
        g.addr = {dynamic_cast<const void*>(&a), dynamic_cast<const void*>(&b)};
        g.xv.clear();
        g.xid = true;
        return 1000 + 10 * cid_of<T1>::value + cid_of<T2>::value;
    }
    long on_error(const hz::Base&, const hz::Base&)
    {
        note_rep();
        return 7;
    }
};

template <class... T> struct tl {};

struct sd_entry
{
    std::vector<int> lhs, rhs;
    bool sym, cst;
    std::string cv;      // "same": both sides const (cst) or both mutable; "mixed": const lhs base and list, mutable rhs base and list
    long (*fn)(hz::Base&, hz::Base&, exec_t&);
};

template <bool CstL, bool CstR, bool Sym, class L, class R> struct sd_cfg;
template <bool CstL, bool CstR, bool Sym, class... L, class... R>
struct sd_cfg<CstL, CstR, Sym, tl<L...>, tl<R...>>
{
    using BL = std::conditional_t<CstL, const hz::Base, hz::Base>;
    using BR = std::conditional_t<CstR, const hz::Base, hz::Base>;
    template <class T> using ql = std::conditional_t<CstL, const T, T>;
    template <class T> using qr = std::conditional_t<CstR, const T, T>;
    using disp = xtl::static_dispatcher<exec_t, BL, mpl::vector<ql<L>...>, long,
                                        std::conditional_t<Sym, xtl::symmetric_dispatch, xtl::antisymmetric_dispatch>,
                                        BR, mpl::vector<qr<R>...>>;
    static long run(hz::Base& a, hz::Base& b, exec_t& e)
    {
        BL& x = a;
        BR& y = b;
        return disp::dispatch(x, y, e);
    }
    static sd_entry entry() { return sd_entry{{cid_of<L>::value...}, {cid_of<R>::value...}, Sym, CstL, CstL == CstR ? "same" : "mixed", &run}; }
};

static std::vector<sd_entry> static_menu()
{
    using namespace hz;
    std::vector<sd_entry> m;
    m.push_back(sd_cfg<true, true, false, tl<A, B, C>, tl<A, B, C>>::entry());
    m.push_back(sd_cfg<true, true, true, tl<A, B, C>, tl<A, B, C>>::entry());
    m.push_back(sd_cfg<false, false, true, tl<C, A, B>, tl<C, A, B>>::entry());
    m.push_back(sd_cfg<false, false, false, tl<B, A>, tl<C, B>>::entry());
    m.push_back(sd_cfg<true, true, false, tl<D, A, B, C, Base>, tl<D, A, B, C, Base>>::entry());
    m.push_back(sd_cfg<false, false, true, tl<D, A, B, C, Base>, tl<D, A, B, C, Base>>::entry());
    m.push_back(sd_cfg<false, false, false, tl<D, B>, tl<C>>::entry());
    m.push_back(sd_cfg<true, true, true, tl<B, D, A>, tl<B, D, A>>::entry());
    m.push_back(sd_cfg<false, false, false, tl<C, B, A>, tl<A, B, C>>::entry());
    m.push_back(sd_cfg<true, true, false, tl<A, Base>, tl<B, Base>>::entry());
    m.push_back(sd_cfg<false, false, true, tl<B, A, Base>, tl<B, A, Base>>::entry());
    // lists parallel but differently cv-qualified: read-only left operand, mutable right operand
    m.push_back(sd_cfg<true, false, true, tl<A, B, C>, tl<A, B, C>>::entry());
    m.push_back(sd_cfg<true, false, false, tl<A, B, C>, tl<A, B, C>>::entry());
    m.push_back(sd_cfg<true, false, true, tl<C, A, B, Base>, tl<C, A, B, Base>>::entry());
    return m;
}
#endif  // C17_STATIC

// ------------------------------------------------------------------ acyclic visitors
#if C17_VISIT
template <class R> struct retv { static R make(long v) { return R(v); } };
template <> struct retv<void> { static void make(long) {} };

template <class R, class T>
R on_visit(int sig, T& x)
{
    note_call();
    g.h = 0;
    g.raw = false;
    g.sig = {sig};
    g.dyn = {x.dynid()};
    g.tg = {x.tag};
    g.addr = {dynamic_cast<const void*>(&x)};
    g.xv.clear();
    g.xid = true;
    return retv<R>::make(100 + sig);
}

template <class R, class T>
struct recording_catch_all
{
    static R on_unknown_visitor(T& t, xtl::base_visitor&)
    {
        note_rep();
        g.psig = std::remove_const_t<T>::id;
        g.pobj = t.tag;
        return retv<R>::make(999);
    }
};

struct vis_entry
{
    const char* name;
    xtl::base_visitor* v;
};

// One complete hierarchy + visitor menu per variant of base_visitable (the root type differs).
// CQ is the constness the hierarchy's visitors take their argument with, NCQ the other one.
#define C17_VCLASS(NAME, PARENT, ID, DEFV)                                             \
    struct NAME : PARENT                                                               \
    {                                                                                  \
        DEFV()                                                                         \
        static constexpr int id = ID;                                                  \
        explicit NAME(int t = 0) : PARENT(0), tag(t) {}                                \
        int dynid() const override { return ID; }                                      \
        int tag;                                                                       \
    };

#define C17_VHIER(NS, RT, CONSTFLAG, CQ, NCQ, POLICY, DEFV)                             \
    namespace NS                                                                        \
    {                                                                                   \
        using root_t = xtl::base_visitable<RT, CONSTFLAG, POLICY>;                       \
        struct VBase : root_t                                                           \
        {                                                                               \
            DEFV()                                                                      \
            static constexpr int id = 4;                                                \
            explicit VBase(int t = 0) : tag(t) {}                                       \
            virtual int dynid() const { return 4; }                                     \
            int tag;                                                                    \
        };                                                                              \
        C17_VCLASS(VA, VBase, 1, DEFV)                                                  \
        C17_VCLASS(VB, VBase, 2, DEFV)                                                  \
        C17_VCLASS(VC, VBase, 3, DEFV)                                                  \
        C17_VCLASS(VD, VA, 5, DEFV)                                                     \
        struct Vis_AB : xtl::base_visitor, xtl::visitor<mpl::vector<VA, VB>, RT, CONSTFLAG> \
        {                                                                               \
            RT visit(CQ VA& x) override { return on_visit<RT>(1, x); }                  \
            RT visit(CQ VB& x) override { return on_visit<RT>(2, x); }                  \
        };                                                                              \
        struct Vis_All : xtl::base_visitor, xtl::visitor<mpl::vector<VA, VB, VC, VBase, VD>, RT, CONSTFLAG> \
        {                                                                               \
            RT visit(CQ VA& x) override { return on_visit<RT>(1, x); }                  \
            RT visit(CQ VB& x) override { return on_visit<RT>(2, x); }                  \
            RT visit(CQ VC& x) override { return on_visit<RT>(3, x); }                  \
            RT visit(CQ VBase& x) override { return on_visit<RT>(4, x); }               \
            RT visit(CQ VD& x) override { return on_visit<RT>(5, x); }                  \
        };                                                                              \
        struct Vis_C : xtl::base_visitor, xtl::visitor<VC, RT, CONSTFLAG>                \
        {                                                                               \
            RT visit(CQ VC& x) override { return on_visit<RT>(3, x); }                  \
        };                                                                              \
        struct Vis_None : xtl::base_visitor, xtl::visitor<mpl::vector<>, RT, CONSTFLAG>  \
        {                                                                               \
        };                                                                              \
        struct Vis_BaseD : xtl::base_visitor, xtl::visitor<mpl::vector<VBase, VD>, RT, CONSTFLAG> \
        {                                                                               \
            RT visit(CQ VBase& x) override { return on_visit<RT>(4, x); }               \
            RT visit(CQ VD& x) override { return on_visit<RT>(5, x); }                  \
        };                                                                              \
        /* several visitor<T> bases named one by one, base_visitor last */              \
        struct Vis_Sep : xtl::visitor<VB, RT, CONSTFLAG>, xtl::visitor<VC, RT, CONSTFLAG>, xtl::base_visitor \
        {                                                                               \
            RT visit(CQ VB& x) override { return on_visit<RT>(2, x); }                  \
            RT visit(CQ VC& x) override { return on_visit<RT>(3, x); }                  \
        };                                                                              \
        /* a visitor hierarchy: derives from another visitor and adds a class */        \
        struct Vis_Derived : Vis_AB, xtl::visitor<VD, RT, CONSTFLAG>                     \
        {                                                                               \
            RT visit(CQ VD& x) override { return on_visit<RT>(5, x); }                  \
        };                                                                              \
        /* visits A and B with the other constness: no visitor of this hierarchy */    \
        struct Vis_WrongConst : xtl::base_visitor, xtl::visitor<mpl::vector<VA, VB>, RT, !CONSTFLAG> \
        {                                                                               \
            RT visit(NCQ VA& x) override { return on_visit<RT>(1, x); }                 \
            RT visit(NCQ VB& x) override { return on_visit<RT>(2, x); }                 \
        };                                                                              \
        struct world                                                                    \
        {                                                                               \
            VBase* o[6][2];                                                             \
            Vis_AB v1; Vis_All v2; Vis_C v3; Vis_None v4; Vis_BaseD v5; Vis_Sep v6; Vis_Derived v7; Vis_WrongConst v8; \
            std::vector<vis_entry> menu;                                                \
            world()                                                                     \
            {                                                                           \
                for (int n = 0; n < 2; ++n)                                             \
                {                                                                       \
                    o[0][n] = nullptr;                                                  \
                    o[1][n] = new VA(10 + n); o[2][n] = new VB(20 + n); o[3][n] = new VC(30 + n); \
                    o[4][n] = new VBase(40 + n); o[5][n] = new VD(50 + n);              \
                }                                                                       \
                menu = {{"AB", &v1}, {"All", &v2}, {"C", &v3}, {"None", &v4}, {"BaseD", &v5}, \
                        {"Sep", &v6}, {"Derived", &v7}, {"WrongConst", &v8}};          \
            }                                                                           \
            ~world() { for (int c = 1; c < 6; ++c) for (int n = 0; n < 2; ++n) delete o[c][n]; } \
            int find(const void* p) const                                               \
            {                                                                           \
                for (int c = 1; c < 6; ++c) for (int n = 0; n < 2; ++n)                 \
                    if (dynamic_cast<const void*>(o[c][n]) == p) return 10 * c + n;     \
                return 0;                                                               \
            }                                                                           \
            long accept(long long oid, xtl::base_visitor& v)                            \
            {                                                                           \
                CQ VBase& r = *o[oid / 10][oid % 10];                                   \
                call_accept(r, v, std::is_void<RT>());                                  \
                return g_vret_out;                                                      \
            }                                                                           \
            long g_vret_out = 0;                                                        \
            template <class Q> void call_accept(Q& r, xtl::base_visitor& v, std::false_type) { g_vret_out = long(r.accept(v)); } \
            template <class Q> void call_accept(Q& r, xtl::base_visitor& v, std::true_type) { r.accept(v); g_vret_out = 0; } \
        };                                                                              \
    }

#define C17_NOCONST
C17_VHIER(v_default, long, false, C17_NOCONST, const, xtl::default_catch_all, XTL_DEFINE_VISITABLE)
C17_VHIER(v_throwing, long, false, C17_NOCONST, const, xtl::throwing_catch_all, XTL_DEFINE_VISITABLE)
C17_VHIER(v_cdefault, long, true, const, C17_NOCONST, xtl::default_catch_all, XTL_DEFINE_CONST_VISITABLE)
C17_VHIER(v_crecording, long, true, const, C17_NOCONST, recording_catch_all, XTL_DEFINE_CONST_VISITABLE)
C17_VHIER(v_recording, long, false, C17_NOCONST, const, recording_catch_all, XTL_DEFINE_VISITABLE)
C17_VHIER(v_void, void, false, C17_NOCONST, const, xtl::throwing_catch_all, XTL_DEFINE_VISITABLE)

// ------------------------------------------------------------------ cyclic visitors
#define C17_CYC(NS, RT, CONSTFLAG, CQ, DEFC)                                            \
    namespace NS                                                                        \
    {                                                                                   \
        struct CBase; struct CA; struct CB; struct CC; struct CD;                       \
        struct visitor_t : xtl::cyclic_visitor<mpl::vector<CA, CB, CC, CBase, CD>, RT, CONSTFLAG> \
        {                                                                               \
            RT visit(CQ CA& x) override;                                                \
            RT visit(CQ CB& x) override;                                                \
            RT visit(CQ CC& x) override;                                                \
            RT visit(CQ CBase& x) override;                                             \
            RT visit(CQ CD& x) override;                                                \
        };                                                                              \
        struct CBase                                                                    \
        {                                                                               \
            explicit CBase(int t = 0) : tag(t) {}                                       \
            virtual ~CBase() = default;                                                 \
            DEFC(visitor_t)                                                             \
            virtual int dynid() const { return 4; }                                     \
            int tag;                                                                    \
        };                                                                              \
        struct CA : CBase { explicit CA(int t = 0) : CBase(0), tag(t) {} DEFC(visitor_t) int dynid() const override { return 1; } int tag; }; \
        struct CB : CBase { explicit CB(int t = 0) : CBase(0), tag(t) {} DEFC(visitor_t) int dynid() const override { return 2; } int tag; }; \
        struct CC : CBase { explicit CC(int t = 0) : CBase(0), tag(t) {} DEFC(visitor_t) int dynid() const override { return 3; } int tag; }; \
        struct CD : CA { explicit CD(int t = 0) : CA(0), tag(t) {} DEFC(visitor_t) int dynid() const override { return 5; } int tag; }; \
        RT visitor_t::visit(CQ CA& x) { return on_visit<RT>(1, x); }                    \
        RT visitor_t::visit(CQ CB& x) { return on_visit<RT>(2, x); }                    \
        RT visitor_t::visit(CQ CC& x) { return on_visit<RT>(3, x); }                    \
        RT visitor_t::visit(CQ CBase& x) { return on_visit<RT>(4, x); }                 \
        RT visitor_t::visit(CQ CD& x) { return on_visit<RT>(5, x); }                    \
        struct world                                                                    \
        {                                                                               \
            CBase* o[6][2];                                                             \
            visitor_t v;                                                                \
            world()                                                                     \
            {                                                                           \
                for (int n = 0; n < 2; ++n)                                             \
                {                                                                       \
                    o[0][n] = nullptr;                                                  \
                    o[1][n] = new CA(10 + n); o[2][n] = new CB(20 + n); o[3][n] = new CC(30 + n); \
                    o[4][n] = new CBase(40 + n); o[5][n] = new CD(50 + n);              \
                }                                                                       \
            }                                                                           \
            ~world() { for (int c = 1; c < 6; ++c) for (int n = 0; n < 2; ++n) delete o[c][n]; } \
            int find(const void* p) const                                               \
            {                                                                           \
                for (int c = 1; c < 6; ++c) for (int n = 0; n < 2; ++n)                 \
                    if (dynamic_cast<const void*>(o[c][n]) == p) return 10 * c + n;     \
                return 0;                                                               \
            }                                                                           \
            long vret = 0;                                                              \
            template <class Q> void call_accept(Q& r, std::false_type) { vret = long(r.accept(v)); } \
            template <class Q> void call_accept(Q& r, std::true_type) { r.accept(v); vret = 0; } \
            long accept(long long oid) { CQ CBase& r = *o[oid / 10][oid % 10]; call_accept(r, std::is_void<RT>()); return vret; } \
        };                                                                              \
    }

C17_CYC(cyc_mut, long, false, C17_NOCONST, XTL_DEFINE_CYCLIC_VISITABLE)
C17_CYC(cyc_const, long, true, const, XTL_DEFINE_CONST_CYCLIC_VISITABLE)
C17_CYC(cyc_vmut, void, false, C17_NOCONST, XTL_DEFINE_CYCLIC_VISITABLE)
C17_CYC(cyc_vconst, void, true, const, XTL_DEFINE_CONST_CYCLIC_VISITABLE)
#endif  // C17_VISIT

// ------------------------------------------------------------------ interpreter
static void check_oid(long long oid)
{
    long long c = oid / 10, n = oid % 10;
    if (c < 1 || c > 5 || n < 0 || n > 1) bad_script("bad object id", oid);
}

static void arm_cpu_limit()
{
    // a call that does not return: the trace ends with a Crash event (no spec action matches it)
    struct itimerval tv = {{0, 0}, {10, 0}};
    ::setitimer(ITIMER_VIRTUAL, &tv, nullptr);
}
static void on_cpu_limit(int)
{
    std::fflush(stdout);
    vj::crash_line("cpu-limit");
    _exit(0);
}

struct interp
{
#if C17_FUNCTOR
    std::unique_ptr<imachine> m;
#endif
    int k = 1, ar = 1, nx = 0;
#if C17_STATIC
    pool_t<HZ> spool;
    std::vector<sd_entry> smenu = static_menu();
#endif
#if C17_VISIT
    v_default::world w_default;
    v_throwing::world w_throwing;
    v_cdefault::world w_cdefault;
    v_crecording::world w_crecording;
    v_recording::world w_recording;
    v_void::world w_void;
    cyc_mut::world w_cyc;
    cyc_const::world w_ccyc;
    cyc_vmut::world w_vcyc;
    cyc_vconst::world w_vccyc;
#endif
    std::string what;
    bool first_reset = true;

    static std::vector<int> toint(const std::vector<long long>& v) { return std::vector<int>(v.begin(), v.end()); }

#if C17_VISIT
    template <class W>
    outcome accept_in(W& w, const std::string& name, long long oid, const char* quiet)
    {
        check_oid(oid);
        g_lookup = [&w](const void* p) { return w.find(p); };
        for (auto& e : w.menu)
            if (name == e.name)
            {
                xtl::base_visitor& v = *e.v;
                return guarded([&]() { return w.accept(oid, v); }, quiet);
            }
        bad_script("no visitor of that name");
    }
    template <class W>
    outcome cyclic_in(W& w, long long oid)
    {
        g_lookup = [&w](const void* p) { return w.find(p); };
        return guarded_here([&]() { return w.accept(oid); }, "catch_all");
    }
#endif

#if C17_FUNCTOR
    std::string cell(int slot, const std::vector<long long>& os)
    {
        std::vector<long long> xs;
        for (int i = 0; i < nx; ++i) xs.push_back(i + 1);
        outcome o = m->dispatch(slot, os, xs);
        vj::out c;
        bool ok = o.exc == "none";
        c.kv("h", ok ? o.h : 0);
        c.kints("objs", ok ? o.ids : std::vector<int>());
        return c.obj();
    }
    std::string table(int slot, std::size_t level, std::vector<long long>& os)
    {
        if (level == std::size_t(ar)) return cell(slot, os);
        std::string s = "[";
        for (int c = 1; c <= k; ++c)
        {
            if (c > 1) s += ',';
            os.push_back(10 * c);
            s += table(slot, level + 1, os);
            os.pop_back();
        }
        return s + "]";
    }
#endif
    std::string state()
    {
#if C17_FUNCTOR
        if (m)
        {
            std::vector<long long> os;
            g_plain = true;          // the probe observes which handler a tuple reaches: behaviours switched off
            std::string s = "{\"tab\":" + table(1, 0, os) + ",\"tab2\":";
            s += m->has2() ? table(2, 0, os) : std::string("[]");
            g_plain = false;
            return s + "}";
        }
#endif
        return "{\"tab\":[],\"tab2\":[]}";
    }
    std::string l2()
    {
        std::vector<long long> idx = {255, 255, 255, 255, 255};
#if C17_FUNCTOR
        if (m) idx = m->indices();
#endif
        return "{\"idx\":" + vj::ints(idx) + ",\"what\":\"" + what + "\"}";
    }

    std::string step(const vj::value& e)
    {
        const std::string& op = e.str("op");
        const vj::value& a = e.at("a");
        what.clear();
        const char* VOID = "{\"exc\":\"none\",\"val\":[]}";
        if (op == "Reset")
        {
            k = int(a.num("k"));
            ar = int(a.num("ar"));
            nx = int(a.num("nx"));
            if (k < 1 || k > 5) bad_script("bad k", k);
            std::string fl = a.has("fl") ? a.str("fl") : std::string("exc");
            if ((fl == "noexc") != bool(C17_FORK)) bad_script("the script's build flavour is not this driver's");
            const std::string& kind = a.str("kind");
#if C17_FUNCTOR
            m.reset();
            // one fast dispatcher per hierarchy at a time: later executions of a process start from fresh class
            // indices (public accessor); the first execution of a process uses the indices as the library
            // initialised them
            if (!first_reset)
            {
                HZ::reset_indices();
#if C17_HAS(8)
                HV::reset_indices();
#endif
            }
            first_reset = false;
            if (kind != "none") m.reset(make_machine(kind, ar, nx));
#else
            if (kind != "none") bad_script("no functor dispatcher is compiled into this driver");
#endif
            return VOID;
        }
#if C17_FUNCTOR
        if (op == "Insert" || op == "Erase" || op == "Dispatch" || op == "Clone" || op == "Take" || op == "Drop2" || op == "New2")
        {
            if (!m) bad_script("no dispatcher");
            int slot = int(a.num("d", 1));
            if (op == "Insert") { m->insert(slot, a.ints("t"), int(a.num("h"))); return VOID; }
            if (op == "Erase") { m->erase(slot, a.ints("t")); return VOID; }
            if (op == "Clone") { m->clone(a.str("how")); return VOID; }
            if (op == "Take") { m->take(a.str("how")); return VOID; }
            if (op == "Drop2") { m->drop2(); return VOID; }
            if (op == "New2") { m->new2(); return VOID; }
            outcome o = m->dispatch(slot, a.ints("os"), a.ints("xs"));
            what = o.what;
            return outcome_json(o);
        }
#endif
#if C17_STATIC
        if (op == "Static" || op == "StaticSym")
        {
            std::vector<int> lhs = toint(a.ints("lhs")), rhs = toint(a.ints("rhs"));
            bool sym = op == "StaticSym", cst = a.at("cst").b;
            std::string cv = a.has("cv") ? a.str("cv") : std::string("same");
            auto os = a.ints("os");
            if (os.size() != 2) bad_script("static dispatch takes two objects");
            for (auto& s : smenu)
                if (s.lhs == lhs && s.rhs == rhs && s.sym == sym && s.cst == cst && s.cv == cv)
                {
                    exec_t ex;
                    g_lookup = [this](const void* p) { return spool.find(p); };
                    hz::Base& x = *spool.get(os[0]);
                    hz::Base& y = *spool.get(os[1]);
                    outcome ab = guarded_here([&]() { return s.fn(x, y, ex); }, "on_error");
                    if (!sym) return outcome_json(ab);
                    outcome ba = guarded_here([&]() { return s.fn(y, x, ex); }, "on_error");
                    return "{\"exc\":\"none\",\"val\":{\"ab\":" + outcome_json(ab) + ",\"ba\":" + outcome_json(ba) + "}}";
                }
            bad_script("no static dispatcher with these type lists is compiled in");
        }
#endif
#if C17_VISIT
        if (op == "Accept")
        {
            const std::string& v = a.str("v");
            const std::string& name = a.str("m");
            long long oid = a.num("o");
            outcome o;
            if (v == "default") o = accept_in(w_default, name, oid, "catch_all");
            else if (v == "throwing") o = accept_in(w_throwing, name, oid, "catch_all");
            else if (v == "cdefault") o = accept_in(w_cdefault, name, oid, "catch_all");
            else if (v == "crecording") o = accept_in(w_crecording, name, oid, "catch_all");
            else if (v == "recording") o = accept_in(w_recording, name, oid, "catch_all");
            else if (v == "void") o = accept_in(w_void, name, oid, "catch_all");
            else bad_script("unknown visitable variant");
            what = o.what;
            return outcome_json(o);
        }
        if (op == "Cyclic")
        {
            long long oid = a.num("o");
            check_oid(oid);
            bool cst = a.at("cst").b;
            const std::string& rv = a.str("rv");
            outcome o;
            if (rv == "long") o = cst ? cyclic_in(w_ccyc, oid) : cyclic_in(w_cyc, oid);
            else if (rv == "void") o = cst ? cyclic_in(w_vccyc, oid) : cyclic_in(w_vcyc, oid);
            else bad_script("unknown cyclic visitor return type");
            what = o.what;
            return outcome_json(o);
        }
#endif
        std::fprintf(stderr, "script: op %s is not compiled into this driver\n", op.c_str());
        std::exit(3);
    }

    int run()
    {
        std::string line;
        while (std::getline(std::cin, line))
        {
            if (line.empty()) continue;
            arm_cpu_limit();
            vj::value e = vj::parse(line);
            std::string res = step(e);
            std::string head = line.substr(0, line.rfind('}'));
            std::string out = head + ",\"res\":" + res + ",\"st\":" + state();
            // advisory (representation level, never part of a verdict): class indices, exception type
            out += ",\"l2\":" + l2() + "}\n";
            std::fputs(out.c_str(), stdout);
        }
        return 0;
    }
};

int main(int argc, char** argv)
{
    vj::install_crash_handlers();
    std::signal(SIGVTALRM, on_cpu_limit);
    g_shm = static_cast<shm_t*>(::mmap(nullptr, sizeof(shm_t), PROT_READ | PROT_WRITE, MAP_SHARED | MAP_ANONYMOUS, -1, 0));
    if (g_shm == MAP_FAILED) g_shm = nullptr;
    if (argc > 1 && std::string(argv[1]) == "--caps")
    {
        // what this build of the library offers (probed at compile time, not assumed)
        bool fe = false, me = false, cp = false;
#if C17_HAS(4)
        {
            machine<HZ, true, 2, 0, functor_flavor<xtl::static_caster, xtl::basic_fast_dispatcher>> mm;
            fe = mm.can_erase();
            cp = mm.can_copy();
        }
#endif
#if C17_HAS(1)
        {
            machine<HZ, true, 2, 0, functor_flavor<xtl::dynamic_caster, xtl::basic_dispatcher>> mm;
            me = mm.can_erase();
            cp = mm.can_copy();
        }
#endif
        std::printf("{\"fast_erase\":%s,\"map_erase\":%s,\"copyable\":%s,\"kind\":%d,\"fork\":%d}\n", fe ? "true" : "false",
                    me ? "true" : "false", cp ? "true" : "false", int(C17_KIND), int(C17_FORK));
        return 0;
    }
    interp I;
    return I.run();
}

// C17 instantiation probe: the bodies of the call forms the specification enables must compile (the
// detection idiom of probe_mm.cpp / probe_visitor.cpp sees declarations only).  Every row is one function
// introduced by a marker line "// C17-PROBE <id>: <text>"; an error whose "required from here" chain
// passes through a row's function fails that row.  Compiled with -fsyntax-only before the drivers.
#include <xtl/xmultimethods.hpp>
#include <xtl/xvisitor.hpp>

namespace mpl = xtl::mpl;

namespace pz
{
    struct Base { XTL_IMPLEMENT_INDEXABLE_CLASS() virtual ~Base() = default; };
    struct A : Base { XTL_IMPLEMENT_INDEXABLE_CLASS() };
    struct B : Base { XTL_IMPLEMENT_INDEXABLE_CLASS() };
    // a hierarchy with a virtual base: only the dynamic caster can reach the derived classes
    struct VBase { XTL_IMPLEMENT_INDEXABLE_CLASS() virtual ~VBase() = default; };
    struct VA : virtual VBase { XTL_IMPLEMENT_INDEXABLE_CLASS() };
    struct VB : virtual VBase { XTL_IMPLEMENT_INDEXABLE_CLASS() };
    struct X { int v; };
    struct Exec
    {
        template <class T1, class T2> long run(T1&, T2&) { return 1; }
        long on_error(const Base&, const Base&) { return 7; }
    };
    inline long fAB(const A&, const B&) { return 1; }
    inline long fABx(A&, B&, X&, long&) { return 2; }
    inline long fV(const VA&, const VB&) { return 3; }
    inline long fA3(const A&, const B&, const A&) { return 4; }
}
using namespace pz;

// C17-PROBE in1: static_dispatcher (plain and symmetric): dispatch(lhs, rhs, exec) compiles
long probe_in1(const Base& a, const Base& b, Exec& e)
{
    using SD = xtl::static_dispatcher<Exec, const Base, mpl::vector<const A, const B>, long>;
    using SS = xtl::static_dispatcher<Exec, const Base, mpl::vector<const A, const B>, long, xtl::symmetric_dispatch>;
    return SD::dispatch(a, b, e) + SS::dispatch(a, b, e);
}
// C17-PROBE in2: static_dispatcher with its own rhs base and type list: dispatch compiles
long probe_in2(Base& a, Base& b, Exec& e)
{
    using SD = xtl::static_dispatcher<Exec, Base, mpl::vector<A, B>, long, xtl::antisymmetric_dispatch, Base, mpl::vector<B>>;
    return SD::dispatch(a, b, e);
}
// C17-PROBE in2b: symmetric and plain static_dispatcher with a const lhs list and the parallel mutable rhs list: dispatch compiles
long probe_in2b(const Base& a, Base& b, Exec& e)
{
    using SS = xtl::static_dispatcher<Exec, const Base, mpl::vector<const A, const B>, long, xtl::symmetric_dispatch, Base, mpl::vector<A, B>>;
    using SP = xtl::static_dispatcher<Exec, const Base, mpl::vector<const A, const B>, long, xtl::antisymmetric_dispatch, Base, mpl::vector<A, B>>;
    return SS::dispatch(a, b, e) + SP::dispatch(a, b, e);
}
// C17-PROBE in3: functor_dispatcher over the map backend, dynamic caster: insert, erase, dispatch compile
long probe_in3(const Base& a, const Base& b)
{
    xtl::functor_dispatcher<mpl::vector<const Base, const Base>, long> d;
    d.insert<const A, const B>(&fAB);
    d.erase<const A, const B>();
    return d.dispatch(a, b);
}
// C17-PROBE in4: functor_dispatcher over the map backend, static caster: insert, erase, dispatch compile
long probe_in4(const Base& a, const Base& b)
{
    xtl::functor_dispatcher<mpl::vector<const Base, const Base>, long, mpl::vector<>, xtl::static_caster> d;
    d.insert<const A, const B>(&fAB);
    d.erase<const A, const B>();
    return d.dispatch(a, b);
}
// C17-PROBE in5: functor_dispatcher over basic_fast_dispatcher, static caster: insert, dispatch compile
long probe_in5(const Base& a, const Base& b)
{
    xtl::functor_dispatcher<mpl::vector<const Base, const Base>, long, mpl::vector<>, xtl::static_caster, xtl::basic_fast_dispatcher> d;
    d.insert<const A, const B>(&fAB);
    return d.dispatch(a, b);
}
// C17-PROBE in6: functor_dispatcher over basic_fast_dispatcher, dynamic caster, two undispatched arguments: insert, dispatch compile
long probe_in6(Base& a, Base& b, X& x, long& y)
{
    xtl::functor_dispatcher<mpl::vector<Base, Base>, long, mpl::vector<X, long>, xtl::dynamic_caster, xtl::basic_fast_dispatcher> d;
    d.insert<A, B>(&fABx);
    return d.dispatch(a, b, x, y);
}
// C17-PROBE in7: functor_dispatcher with three dispatched arguments over both backends: insert, dispatch compile
long probe_in7(const Base& a, const Base& b)
{
    xtl::functor_dispatcher<mpl::vector<const Base, const Base, const Base>, long, mpl::vector<>, xtl::static_caster, xtl::basic_fast_dispatcher> d;
    xtl::functor_dispatcher<mpl::vector<const Base, const Base, const Base>, long> m;
    d.insert<const A, const B, const A>(&fA3);
    m.insert<const A, const B, const A>(&fA3);
    return d.dispatch(a, b, a) + m.dispatch(a, b, a);
}
// C17-PROBE in8: dynamic caster over a hierarchy with a virtual base (map and fast backends): insert, dispatch compile
long probe_in8(const VBase& a, const VBase& b)
{
    xtl::functor_dispatcher<mpl::vector<const VBase, const VBase>, long> m;
    xtl::functor_dispatcher<mpl::vector<const VBase, const VBase>, long, mpl::vector<>, xtl::dynamic_caster, xtl::basic_fast_dispatcher> f;
    m.insert<const VA, const VB>(&fV);
    f.insert<const VA, const VB>(&fV);
    return m.dispatch(a, b) + f.dispatch(a, b);
}

// C17-PROBE in9: acyclic visitors: visitables, visitors and accept through a root reference compile (mutable, const, void)
namespace pv
{
    template <class R, class T> struct my_policy { static R on_unknown_visitor(T&, xtl::base_visitor&) { return R(); } };
    struct Root : xtl::base_visitable<long, false, my_policy> { XTL_DEFINE_VISITABLE() };
    struct Leaf : Root { XTL_DEFINE_VISITABLE() };
    struct CRoot : xtl::base_visitable<long, true, xtl::throwing_catch_all> { XTL_DEFINE_CONST_VISITABLE() };
    struct CLeaf : CRoot { XTL_DEFINE_CONST_VISITABLE() };
    struct DRoot : xtl::base_visitable<void, false> { XTL_DEFINE_VISITABLE() };
    struct Vis : xtl::base_visitor, xtl::visitor<mpl::vector<Root, Leaf>, long, false>, xtl::visitor<CLeaf, long, true>, xtl::visitor<DRoot, void, false>
    {
        long visit(Root&) override { return 1; }
        long visit(Leaf&) override { return 2; }
        long visit(const CLeaf&) override { return 3; }
        void visit(DRoot&) override {}
    };
}
// C17-PROBE in10: cyclic visitors: visitor, visitable macros, accept / generic_visit compile (mutable long, const void)
namespace pv
{
    struct K1;
    struct K2;
    struct CV : xtl::cyclic_visitor<mpl::vector<K1, K2>, long, false>
    {
        long visit(K1&) override { return 1; }
        long visit(K2&) override { return 2; }
    };
    struct CVc : xtl::cyclic_visitor<mpl::vector<K1, K2>, void, true>
    {
        void visit(const K1&) override {}
        void visit(const K2&) override {}
    };
    struct K1 { virtual ~K1() = default; XTL_DEFINE_CYCLIC_VISITABLE(CV) };
    struct K2 : K1 { XTL_DEFINE_CYCLIC_VISITABLE(CV) virtual void accept(CVc& v) const { v.generic_visit(*this); } };
}
// C17-PROBE in9: acyclic visitors: accept through a root reference compiles
long probe_in9(pv::Root& r, const pv::CRoot& c, pv::DRoot& d, pv::Vis& v)
{
    d.accept(v);
    return r.accept(v) + c.accept(v);
}
// C17-PROBE in10: cyclic visitors: accept compiles
long probe_in10(pv::K1& k, const pv::K2& k2, pv::CV& v, pv::CVc& vc)
{
    k2.accept(vc);
    return k.accept(v);
}

int main() { return 0; }

// C17 compile probe for xvisitor.hpp: the call forms specs/Dispatch.tla enables for acyclic and cyclic
// visitors must exist with the result types the property needs (what visit returns comes back through
// accept; the catch-all policy is called for an unknown visitor).  One static_assert per row, evaluated
// with the detection idiom; compiled with -fsyntax-only before the drivers are built.
#include <xtl/xvisitor.hpp>
#include <type_traits>
#include <utility>

namespace mpl = xtl::mpl;
template <class...> using void_t = void;

struct T1;
struct T2;

// ---- visitor<T, R, is_const>
static_assert(std::is_same<xtl::visitor<T1, long, true>::return_type, long>::value
                  && std::is_same<xtl::visitor<T1, long, true>::param_type, const T1>::value
                  && std::is_same<xtl::visitor<T1, long, false>::param_type, T1>::value,
              "C17-PROBE vi1: visitor<T, R, is_const> names return_type = R and param_type = (const) T");
static_assert(std::is_same<decltype(std::declval<xtl::visitor<T1, long, true>&>().visit(std::declval<const T1&>())), long>::value
                  && std::is_same<decltype(std::declval<xtl::visitor<T1, void, false>&>().visit(std::declval<T1&>())), void>::value,
              "C17-PROBE vi2: visitor<T, R, is_const>::visit((const) T&) returns R");
static_assert(std::is_abstract<xtl::visitor<T1, long, true>>::value && std::has_virtual_destructor<xtl::visitor<T1, long, true>>::value,
              "C17-PROBE vi3: visitor<T, R, is_const>::visit is pure virtual and the destructor virtual");
static_assert(std::is_base_of<xtl::visitor<T1, long, true>, xtl::visitor<mpl::vector<T1, T2>, long, true>>::value
                  && std::is_base_of<xtl::visitor<T2, long, true>, xtl::visitor<mpl::vector<T1, T2>, long, true>>::value,
              "C17-PROBE vi4: visitor<mpl::vector<T, U>, R, c> derives from visitor<T, R, c> and visitor<U, R, c>");
static_assert(std::is_polymorphic<xtl::base_visitor>::value && std::has_virtual_destructor<xtl::base_visitor>::value,
              "C17-PROBE vi5: base_visitor is polymorphic (accept finds the visitor<T> base with dynamic_cast)");

// ---- base_visitable and the catch-all policies
template <class R, class T> struct my_policy { static R on_unknown_visitor(T&, xtl::base_visitor&) { return R(); } };
using BVm = xtl::base_visitable<long, false, my_policy>;
using BVc = xtl::base_visitable<long, true, my_policy>;
static_assert(std::is_same<BVm::return_type, long>::value && std::is_same<BVc::return_type, long>::value,
              "C17-PROBE bv1: base_visitable<R, c, policy>::return_type is R");
static_assert(std::is_same<decltype(std::declval<BVm&>().accept(std::declval<xtl::base_visitor&>())), long>::value,
              "C17-PROBE bv2: base_visitable<R, false, policy>::accept(base_visitor&) returns R");
static_assert(std::is_same<decltype(std::declval<const BVc&>().accept(std::declval<xtl::base_visitor&>())), long>::value,
              "C17-PROBE bv3: base_visitable<R, true, policy>::accept(base_visitor&) const returns R");
static_assert(std::is_same<xtl::base_visitable<>::return_type, void>::value
                  && std::is_same<xtl::base_visitable<>, xtl::base_visitable<void, false, xtl::default_catch_all>>::value,
              "C17-PROBE bv4: base_visitable<> is base_visitable<void, false, default_catch_all>");
static_assert(std::is_same<decltype(xtl::default_catch_all<long, T1>::on_unknown_visitor(std::declval<T1&>(), std::declval<xtl::base_visitor&>())), long>::value
                  && std::is_same<decltype(xtl::throwing_catch_all<long, const T1>::on_unknown_visitor(std::declval<const T1&>(), std::declval<xtl::base_visitor&>())), long>::value,
              "C17-PROBE bv5: default_catch_all / throwing_catch_all <R, T>::on_unknown_visitor(T&, base_visitor&) return R");

// the macros give an accept override that compiles for a derived class
struct Root : xtl::base_visitable<long, false, my_policy> { XTL_DEFINE_VISITABLE() };
struct Leaf : Root { XTL_DEFINE_VISITABLE() };
struct CRoot : xtl::base_visitable<long, true, my_policy> { XTL_DEFINE_CONST_VISITABLE() };
struct CLeaf : CRoot { XTL_DEFINE_CONST_VISITABLE() };
static_assert(!std::is_abstract<Leaf>::value && !std::is_abstract<CLeaf>::value,
              "C17-PROBE bv6: XTL_DEFINE_VISITABLE / XTL_DEFINE_CONST_VISITABLE override accept");

// ---- cyclic visitor
struct K1;
struct K2;
using CV = xtl::cyclic_visitor<mpl::vector<K1, K2>, long, false>;
using CVc = xtl::cyclic_visitor<mpl::vector<K1, K2>, long, true>;
struct K1 { virtual ~K1() = default; XTL_DEFINE_CYCLIC_VISITABLE(CV) };
struct K2 { virtual ~K2() = default; XTL_DEFINE_CONST_CYCLIC_VISITABLE(CVc) };
static_assert(std::is_same<CV::return_type, long>::value
                  && std::is_base_of<xtl::visitor<K1, long, false>, CV>::value && std::is_base_of<xtl::visitor<K2, long, false>, CV>::value,
              "C17-PROBE cy1: cyclic_visitor<mpl::vector<T...>, R, c> names return_type = R and derives from visitor<T, R, c>...");
static_assert(std::is_same<decltype(std::declval<CV&>().generic_visit(std::declval<K1&>())), long>::value
                  && std::is_same<decltype(std::declval<CVc&>().generic_visit(std::declval<const K2&>())), long>::value,
              "C17-PROBE cy2: cyclic_visitor::generic_visit(visited) returns R");
static_assert(std::is_same<decltype(std::declval<K1&>().accept(std::declval<CV&>())), long>::value
                  && std::is_same<decltype(std::declval<const K2&>().accept(std::declval<CVc&>())), long>::value,
              "C17-PROBE cy3: XTL_DEFINE_(CONST_)CYCLIC_VISITABLE(visitor) gives accept(visitor&) (const) returning the visitor's return_type");

int main() { return 0; }

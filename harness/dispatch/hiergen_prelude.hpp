// C17 (advisory stage): what xscatter_hierarchy_generator / xlinear_hierarchy_generator do for one type list.
// No oracle here: row<L>() instantiates the real templates over the list L and prints what it observes;
// specs/DispatchHierGen.tla says what the answers must be.  checks/c17_hier.py appends one call per list.
#include <xtl/xhierarchy_generator.hpp>
#include <cstdio>
#include <string>
#include <type_traits>
#include <utility>
#include <vector>

namespace mpl = xtl::mpl;
static std::vector<int> g_log;

template <int I> struct ty { static constexpr int id = I; };

// unit of the scattered hierarchy
template <class T> struct sunit
{
    sunit() { g_log.push_back(int(T::id)); }
};
template <class L> using sgen = xtl::xscatter_hierarchy_generator<L, sunit>;

// root and unit of the linear hierarchy
struct root0
{
    int v;
    explicit root0(int a = -1) : v(a) { g_log.push_back(0); }
    virtual ~root0() = default;
    virtual void walk(std::vector<int>& w) const { w.push_back(0); }
};
template <class T, class B> struct lunit : B
{
    template <class... A> explicit lunit(A&&... a) : B(std::forward<A>(a)...) { g_log.push_back(int(T::id)); }
    void walk(std::vector<int>& w) const override { w.push_back(int(T::id)); B::walk(w); }
};
template <class T, class B> struct dunit : B {};
template <class L> using lgen = xtl::xlinear_hierarchy_generator<L, lunit, root0>;
template <class L> using dgen = xtl::xlinear_hierarchy_generator<L, dunit>;

template <class L> struct facts;
template <> struct facts<mpl::vector<>>
{
    static constexpr bool stail = false;
    static constexpr bool lbase = false;
    static constexpr int depth = 0;
};
template <class T, class... R> struct facts<mpl::vector<T, R...>>
{
    using L = mpl::vector<T, R...>;
    using LT = mpl::vector<R...>;
    static constexpr bool stail = std::is_base_of<sgen<LT>, sgen<L>>::value;
    static constexpr bool lbase = std::is_same<typename lgen<L>::base_type, lunit<T, lgen<LT>>>::value;
    static constexpr bool link = std::is_base_of<lunit<T, lgen<LT>>, lgen<L>>::value && std::is_base_of<lgen<LT>, lgen<L>>::value;
    static constexpr int depth = link ? 1 + facts<LT>::depth : -100;
};

static std::string ints(const std::vector<int>& v)
{
    std::string s = "[";
    for (std::size_t i = 0; i < v.size(); ++i) s += (i ? "," : "") + std::to_string(v[i]);
    return s + "]";
}
static const char* tf(bool b) { return b ? "true" : "false"; }

template <class L> void row(const char* l)
{
    g_log.clear();
    { sgen<L> s; (void)s; }
    std::vector<int> sctor = g_log;
    g_log.clear();
    lgen<L> g(77);
    std::vector<int> lctor = g_log;
    std::vector<int> lwalk;
    const root0& r = g;
    r.walk(lwalk);
    bool lroot = std::is_base_of<root0, lgen<L>>::value && std::is_base_of<xtl::default_root, dgen<L>>::value;
    std::printf("{\"l\":%s,\"sbase\":[%s,%s,%s,%s],\"sctor\":%s,\"stail\":%s,\"lwalk\":%s,\"lctor\":%s,\"lbase\":%s,\"lroot\":%s,\"larg\":%d,\"ldepth\":%d}\n",
                l, tf(std::is_base_of<sunit<ty<1>>, sgen<L>>::value), tf(std::is_base_of<sunit<ty<2>>, sgen<L>>::value),
                tf(std::is_base_of<sunit<ty<3>>, sgen<L>>::value), tf(std::is_base_of<sunit<ty<4>>, sgen<L>>::value),
                ints(sctor).c_str(), tf(facts<L>::stail), ints(lwalk).c_str(), ints(lctor).c_str(), tf(facts<L>::lbase), tf(lroot),
                r.v, facts<L>::depth);
}

// C17 compile probe for xmultimethods.hpp: every call form that specs/Dispatch.tla enables (and that
// harness/dispatch/driver.cpp therefore performs) must exist with the result type the property needs
// (the handler's return value comes back through dispatch).  Each row is a static_assert evaluated with
// the detection idiom, so one missing overload or changed return type fails its own row and the others
// are still evaluated.  The check compiles this file with -fsyntax-only BEFORE it builds the drivers;
// a failing row is a VIOLATION (a call the specification enables does not compile / loses its result).
#include <xtl/xmultimethods.hpp>
#include <functional>
#include <type_traits>
#include <utility>

namespace mpl = xtl::mpl;
template <class...> using void_t = void;

struct Base
{
    XTL_IMPLEMENT_INDEXABLE_CLASS()
    virtual ~Base() = default;
};
struct A : Base { XTL_IMPLEMENT_INDEXABLE_CLASS() };
struct B : Base { XTL_IMPLEMENT_INDEXABLE_CLASS() };
struct X { int v; };

struct Exec
{
    template <class T1, class T2> long run(T1&, T2&) { return 1; }
    long on_error(const Base&, const Base&) { return 7; }
};
long fAB(const A&, const B&);
long fABx(A&, B&, X&, long&);
struct Fun { long operator()(const A&, const B&) const { return 2; } };
struct Cb { long operator()(const Base&, const Base&) const { return 3; } };

// ---- static_dispatcher
using SD = xtl::static_dispatcher<Exec, const Base, mpl::vector<const A, const B>, long>;
using SDsym = xtl::static_dispatcher<Exec, const Base, mpl::vector<const A, const B>, long, xtl::symmetric_dispatch>;
using SDfull = xtl::static_dispatcher<Exec, Base, mpl::vector<A, B>, long, xtl::antisymmetric_dispatch, Base, mpl::vector<B>>;
using SDmix = xtl::static_dispatcher<Exec, const Base, mpl::vector<const A, const B>, long, xtl::symmetric_dispatch, Base, mpl::vector<A, B>>;
template <class D, class Bs, class = void> struct sd_dispatch { using type = void_t<D>*; };
template <class D, class Bs>
struct sd_dispatch<D, Bs, void_t<decltype(D::dispatch(std::declval<Bs&>(), std::declval<Bs&>(), std::declval<Exec&>()))>>
{
    using type = decltype(D::dispatch(std::declval<Bs&>(), std::declval<Bs&>(), std::declval<Exec&>()));
};
static_assert(std::is_same<sd_dispatch<SD, const Base>::type, long>::value,
              "C17-PROBE sd1: static_dispatcher<exec, const base, list, long>::dispatch(lhs, rhs, exec) is callable and returns long");
static_assert(std::is_same<sd_dispatch<SDsym, const Base>::type, long>::value,
              "C17-PROBE sd2: static_dispatcher<..., symmetric_dispatch>::dispatch(lhs, rhs, exec) is callable and returns long");
static_assert(std::is_same<sd_dispatch<SDfull, Base>::type, long>::value,
              "C17-PROBE sd3: static_dispatcher with its own rhs base and rhs type list: dispatch(lhs, rhs, exec) is callable and returns long");

template <class D, class = void> struct sdmix_dispatch { using type = void_t<D>*; };
template <class D>
struct sdmix_dispatch<D, void_t<decltype(D::dispatch(std::declval<const Base&>(), std::declval<Base&>(), std::declval<Exec&>()))>>
{
    using type = decltype(D::dispatch(std::declval<const Base&>(), std::declval<Base&>(), std::declval<Exec&>()));
};
static_assert(std::is_same<sdmix_dispatch<SDmix>::type, long>::value,
              "C17-PROBE sd4: symmetric static_dispatcher with a const lhs list and the parallel mutable rhs list: dispatch(const lhs, rhs, exec) is callable and returns long");

// ---- functor_dispatcher
using FD = xtl::functor_dispatcher<mpl::vector<const Base, const Base>, long>;
using FDs = xtl::functor_dispatcher<mpl::vector<const Base, const Base>, long, mpl::vector<>, xtl::static_caster>;
using FDf = xtl::functor_dispatcher<mpl::vector<const Base, const Base>, long, mpl::vector<>, xtl::static_caster, xtl::basic_fast_dispatcher>;
using FDfd = xtl::functor_dispatcher<mpl::vector<const Base, const Base>, long, mpl::vector<>, xtl::dynamic_caster, xtl::basic_fast_dispatcher>;
using FDx = xtl::functor_dispatcher<mpl::vector<Base, Base>, long, mpl::vector<X, long>, xtl::dynamic_caster, xtl::basic_fast_dispatcher>;
using FD1 = xtl::functor_dispatcher<mpl::vector<const Base>, long>;
using FD3 = xtl::functor_dispatcher<mpl::vector<const Base, const Base, const Base>, long, mpl::vector<>, xtl::static_caster, xtl::basic_fast_dispatcher>;

template <class D, class = void> struct fd_insert_fp : std::false_type {};
template <class D> struct fd_insert_fp<D, void_t<decltype(std::declval<D&>().template insert<const A, const B>(&fAB))>> : std::true_type {};
template <class D, class = void> struct fd_insert_fun : std::false_type {};
template <class D> struct fd_insert_fun<D, void_t<decltype(std::declval<D&>().template insert<const A, const B>(Fun()))>> : std::true_type {};
template <class D, class = void> struct fd_erase : std::false_type {};
template <class D> struct fd_erase<D, void_t<decltype(std::declval<D&>().template erase<const A, const B>())>> : std::true_type {};
template <class D, class = void> struct fd_dispatch { using type = void_t<D>*; };
template <class D>
struct fd_dispatch<D, void_t<decltype(std::declval<const D&>().dispatch(std::declval<const Base&>(), std::declval<const Base&>()))>>
{
    using type = decltype(std::declval<const D&>().dispatch(std::declval<const Base&>(), std::declval<const Base&>()));
};
static_assert(fd_insert_fp<FD>::value, "C17-PROBE fd1: functor_dispatcher<list, long>::insert<D1, D2>(function pointer) is callable (map backend, dynamic caster)");
static_assert(fd_insert_fun<FD>::value, "C17-PROBE fd2: functor_dispatcher<list, long>::insert<D1, D2>(function object) is callable");
static_assert(fd_erase<FD>::value, "C17-PROBE fd3: functor_dispatcher<list, long>::erase<D1, D2>() is callable (map backend)");
static_assert(std::is_same<fd_dispatch<FD>::type, long>::value, "C17-PROBE fd4: functor_dispatcher<list, long>::dispatch(a, b) const is callable and returns long");
static_assert(fd_insert_fp<FDs>::value && std::is_same<fd_dispatch<FDs>::type, long>::value,
              "C17-PROBE fd5: functor_dispatcher with static_caster: insert and dispatch (returning long)");
static_assert(fd_insert_fp<FDf>::value && fd_insert_fun<FDf>::value && std::is_same<fd_dispatch<FDf>::type, long>::value,
              "C17-PROBE fd6: functor_dispatcher over basic_fast_dispatcher with static_caster: insert and dispatch (returning long)");
static_assert(fd_insert_fp<FDfd>::value && std::is_same<fd_dispatch<FDfd>::type, long>::value,
              "C17-PROBE fd7: functor_dispatcher over basic_fast_dispatcher with dynamic_caster: insert and dispatch (returning long)");
template <class D, class = void> struct fdx_ok : std::false_type {};
template <class D>
struct fdx_ok<D, void_t<decltype(std::declval<D&>().template insert<A, B>(&fABx)),
                        decltype(std::declval<const D&>().dispatch(std::declval<Base&>(), std::declval<Base&>(), std::declval<X&>(), std::declval<long&>()))>>
    : std::is_same<decltype(std::declval<const D&>().dispatch(std::declval<Base&>(), std::declval<Base&>(), std::declval<X&>(), std::declval<long&>())), long>
{
};
static_assert(fdx_ok<FDx>::value, "C17-PROBE fd8: functor_dispatcher with two undispatched arguments: insert, and dispatch(a, b, x, y) returning long");
template <class D, class = void> struct fd1_ok : std::false_type {};
template <class D>
struct fd1_ok<D, void_t<decltype(std::declval<D&>().template insert<const A>(std::declval<long (*)(const A&)>())),
                        decltype(std::declval<const D&>().dispatch(std::declval<const Base&>()))>>
    : std::is_same<decltype(std::declval<const D&>().dispatch(std::declval<const Base&>())), long>
{
};
static_assert(fd1_ok<FD1>::value, "C17-PROBE fd9: functor_dispatcher with one dispatched argument: insert<D>(f) and dispatch(a) returning long");
template <class D, class = void> struct fd3_ok : std::false_type {};
template <class D>
struct fd3_ok<D, void_t<decltype(std::declval<D&>().template insert<const A, const B, const A>(std::declval<long (*)(const A&, const B&, const A&)>())),
                        decltype(std::declval<const D&>().dispatch(std::declval<const Base&>(), std::declval<const Base&>(), std::declval<const Base&>()))>>
    : std::is_same<decltype(std::declval<const D&>().dispatch(std::declval<const Base&>(), std::declval<const Base&>(), std::declval<const Base&>())), long>
{
};
static_assert(fd3_ok<FD3>::value, "C17-PROBE fd10: functor_dispatcher with three dispatched arguments (fast backend): insert<D1, D2, D3>(f) and dispatch(a, b, c) returning long");

// ---- the backends used directly with a user callback type
using BD = xtl::basic_dispatcher<mpl::vector<const Base, const Base>, long, mpl::vector<>, Cb>;
using BF = xtl::basic_fast_dispatcher<mpl::vector<const Base, const Base>, long, mpl::vector<>, Cb>;
template <class D, class = void> struct bd_insert : std::false_type {};
template <class D> struct bd_insert<D, void_t<decltype(std::declval<D&>().template insert<const A, const B>(Cb()))>> : std::true_type {};
static_assert(bd_insert<BD>::value && fd_erase<BD>::value && std::is_same<fd_dispatch<BD>::type, long>::value,
              "C17-PROBE bd1: basic_dispatcher with a user callback type: insert<D1, D2>(callback&&), erase<D1, D2>(), dispatch(a, b) const returning long");
static_assert(bd_insert<BF>::value && std::is_same<fd_dispatch<BF>::type, long>::value,
              "C17-PROBE bd2: basic_fast_dispatcher with a user callback type: insert<D1, D2>(callback&&), dispatch(a, b) const returning long");

// ---- casting policies and the indexable-class macro
template <template <class, class> class C, class = void> struct caster_ok : std::false_type {};
template <template <class, class> class C>
struct caster_ok<C, void_t<decltype(C<const A&, const Base&>::cast(std::declval<const Base&>()))>>
    : std::is_same<decltype(C<const A&, const Base&>::cast(std::declval<const Base&>())), const A&>
{
};
static_assert(caster_ok<xtl::static_caster>::value, "C17-PROBE cs1: static_caster<T&, F&>::cast(f) returns T&");
static_assert(caster_ok<xtl::dynamic_caster>::value, "C17-PROBE cs2: dynamic_caster<T&, F&>::cast(f) returns T&");
static_assert(std::is_same<decltype(A::get_class_static_index()), std::size_t&>::value
                  && std::is_same<decltype(std::declval<const Base&>().get_class_index()), std::size_t>::value,
              "C17-PROBE ix1: XTL_IMPLEMENT_INDEXABLE_CLASS gives static std::size_t& get_class_static_index() and std::size_t get_class_index() const");

int main() { return 0; }

// C14 conformance driver for the ILP32 configuration (sizeof(std::size_t) == 4, INTPTR_MAX == INT32_MAX): the
// branch of xhash.hpp that a 64-bit build never compiles (murmur_hash<8> "64-bits hash for 32-bits platform", and
// hash_bytes dispatching to murmur_hash<4>).  This machine has no 32-bit C or C++ library, so the program is
// FREESTANDING: g++ -m32 -ffreestanding -nostdinc++ -nostdlib -static, the four standard headers xhash.hpp includes
// come from harness/hash/stubs32 (compiler-provided <stddef.h>/<stdint.h> underneath), memcpy is a byte loop below,
// input/output are raw i386 system calls (int 0x80; the kernel runs 32-bit processes).  xtl itself is untouched.
//
// Script and table format are those of harness/hash/driver.cpp (same checking spec, MurmurCheck.tla), "szt" is 4:
//  {"op":"H","c":[[ [b0,b1,..], [s0,s1,s2,s3], [[kind,align,fill],..] ],..]}
//  -> {"op":"H","szt":4,"gen":0,"c":[[ bytes, seed, [[kind,align,fill, x86[2], x64[4], hash_bytes[4], generic[4]],..] ],..]}
//  {"op":"Reset","c":[[0]]} is echoed.
// Placements (no heap, no sanitizer here): kind 0 / 4: inside a static frame pre-filled with `fill`, 32+align bytes
// from its 16-aligned start; kind 1 / 2: the key's last byte is the last byte before a PROT_NONE page (echoed as 2);
// kind 3: the key starts right behind a PROT_NONE page; kind 5: null pointer (length 0 only).  A fault ends the
// process (the runner closes the table with a Crash line); a call that does not return is ended by ITIMER_PROF
// (3 s of CPU per script line, default disposition: terminate).  No oracle here.
#include "xtl/xhash.hpp"

static_assert(sizeof(std::size_t) == 4, "this driver is the ILP32 build");
static_assert(sizeof(void*) == 4, "this driver is the ILP32 build");

extern "C" void* memcpy(void* d, const void* s, size_t n)
{
    unsigned char* a = static_cast<unsigned char*>(d);
    const unsigned char* b = static_cast<const unsigned char*>(s);
    while (n--) *a++ = *b++;
    return d;
}
extern "C" void* memset(void* d, int c, size_t n)
{
    unsigned char* a = static_cast<unsigned char*>(d);
    while (n--) *a++ = static_cast<unsigned char>(c);
    return d;
}

static long sys5_0(long n, long a, long b, long c, long d, long e)      // six-argument call whose last argument is 0 (mmap2)
{
    long r;
    __asm__ volatile("push %%ebp\n\txor %%ebp, %%ebp\n\tint $0x80\n\tpop %%ebp"
                     : "=a"(r) : "a"(n), "b"(a), "c"(b), "d"(c), "S"(d), "D"(e) : "memory");
    return r;
}
static long sys3(long n, long a, long b, long c)
{
    long r;
    __asm__ volatile("int $0x80" : "=a"(r) : "a"(n), "b"(a), "c"(b), "d"(c) : "memory");
    return r;
}
__attribute__((noreturn)) static void die(int code) { sys3(252, code, 0, 0); sys3(1, code, 0, 0); for (;;) {} }
static void put(const char* s, unsigned n)
{
    while (n)
    {
        long w = sys3(4, 1, reinterpret_cast<long>(s), static_cast<long>(n));
        if (w <= 0) die(4);
        s += w; n -= static_cast<unsigned>(w);
    }
}
static void err(const char* s) { unsigned n = 0; while (s[n]) ++n; sys3(4, 2, reinterpret_cast<long>(s), static_cast<long>(n)); }

// ---- output buffer
static char obuf[1 << 23];
static unsigned on = 0;
static void oc(char c) { if (on >= sizeof obuf) { err("driver32: output line too long\n"); die(3); } obuf[on++] = c; }
static void os(const char* s) { while (*s) oc(*s++); }
static void ou(uint32_t v)
{
    char t[12]; int k = 0;
    do { t[k++] = static_cast<char>('0' + v % 10u); v /= 10u; } while (v);
    while (k) oc(t[--k]);
}
static void olimbs(uint64_t v, int n)
{
    oc('[');
    for (int k = 0; k < n; ++k) { if (k) oc(','); ou(static_cast<uint32_t>((v >> (16 * k)) & 0xFFFFu)); }
    oc(']');
}

// ---- input: one line at a time
static char ibuf[1 << 23];
static unsigned ilen = 0, ipos = 0;
static bool eof = false;
static char* line; static unsigned llen;
static bool next_line()
{
    for (;;)
    {
        for (unsigned k = ipos; k < ilen; ++k)
            if (ibuf[k] == '\n') { line = ibuf + ipos; llen = k - ipos; ipos = k + 1; return true; }
        if (eof)
        {
            if (ipos < ilen) { line = ibuf + ipos; llen = ilen - ipos; ipos = ilen; return true; }
            return false;
        }
        if (ipos > 0) { memcpy(ibuf, ibuf + ipos, ilen - ipos); ilen -= ipos; ipos = 0; }
        if (ilen == sizeof ibuf) { err("driver32: input line too long\n"); die(3); }
        long r = sys3(3, 0, reinterpret_cast<long>(ibuf + ilen), static_cast<long>(sizeof ibuf - ilen));
        if (r < 0) die(3);
        if (r == 0) eof = true;
        ilen += static_cast<unsigned>(r);
    }
}

// ---- a scanner for the nested integer arrays of the script
static const char* p; static const char* pend;
static void bad(const char* why) { err("driver32: script: "); err(why); err("\n"); die(3); }
static void expect(char c) { if (p >= pend || *p != c) bad("unexpected character"); ++p; }
static bool peek(char c) { return p < pend && *p == c; }
static uint32_t number()
{
    if (p >= pend || *p < '0' || *p > '9') bad("number expected");
    uint32_t v = 0;
    while (p < pend && *p >= '0' && *p <= '9') v = v * 10u + static_cast<uint32_t>(*p++ - '0');
    return v;
}
static const char* find(const char* from, const char* what)
{
    unsigned n = 0; while (what[n]) ++n;
    for (const char* q = from; q + n <= pend; ++q)
    {
        unsigned k = 0;
        while (k < n && q[k] == what[k]) ++k;
        if (k == n) return q;
    }
    return nullptr;
}

static unsigned char keybuf[200000];
static unsigned char frame[200000 + 128] __attribute__((aligned(16)));
static unsigned char reused[200000 + 128] __attribute__((aligned(16)));
static unsigned char* gfirst; static unsigned char* gend;      // the read/write pages between two PROT_NONE pages
static const unsigned GPAGES = 48;

static void arm(long seconds)
{
    long it[4] = {0, 0, seconds, 0};       // struct itimerval {interval, value}, 32-bit longs
    sys3(104, 2 /* ITIMER_PROF */, reinterpret_cast<long>(it), 0);
}

static int run()
{
    long m = sys5_0(192 /* mmap2 */, 0, static_cast<long>((GPAGES + 2) * 4096u), 0 /* PROT_NONE */, 0x22 /* PRIVATE|ANONYMOUS */, -1);
    if (m < 0 && m > -4096) { err("driver32: mmap failed\n"); return 3; }
    unsigned char* base = reinterpret_cast<unsigned char*>(m);
    if (sys3(125 /* mprotect */, reinterpret_cast<long>(base + 4096), static_cast<long>(GPAGES * 4096u), 3) != 0) { err("driver32: mprotect failed\n"); return 3; }
    gfirst = base + 4096; gend = gfirst + GPAGES * 4096u;

    while (next_line())
    {
        if (llen == 0) continue;
        p = line; pend = line + llen;
        if (find(p, "\"op\":\"Reset\"")) { put("{\"op\":\"Reset\",\"c\":[[0]]}\n", 25); continue; }
        if (!find(p, "\"op\":\"H\"")) bad("unknown op");
        const char* c = find(p, "\"c\":[");
        if (!c) bad("no cases");
        p = c + 4;
        arm(3);
        on = 0;
        os("{\"op\":\"H\",\"szt\":4,\"gen\":0,\"c\":[");
        expect('[');
        bool firstcase = true;
        while (!peek(']'))
        {
            if (!firstcase) { expect(','); oc(','); }
            firstcase = false;
            expect('[');
            // key bytes
            expect('[');
            unsigned len = 0;
            while (!peek(']'))
            {
                if (len) expect(',');
                uint32_t b = number();
                if (b > 255 || len >= sizeof keybuf) bad("bad key byte / key too long");
                keybuf[len++] = static_cast<unsigned char>(b);
            }
            expect(']'); expect(',');
            // seed limbs
            expect('[');
            uint64_t seed = 0;
            for (int k = 0; k < 4; ++k) { if (k) expect(','); seed |= static_cast<uint64_t>(number() & 0xFFFFu) << (16 * k); }
            expect(']'); expect(',');
            oc('['); oc('[');
            for (unsigned i = 0; i < len; ++i) { if (i) oc(','); ou(keybuf[i]); }
            oc(']'); oc(','); olimbs(seed, 4); oc(','); oc('[');
            // placements
            expect('[');
            bool firstpl = true;
            while (!peek(']'))
            {
                if (!firstpl) { expect(','); oc(','); }
                firstpl = false;
                expect('[');
                uint32_t kind = number(); expect(',');
                uint32_t align = number(); expect(',');
                uint32_t fill = number(); expect(']');
                if (align > 15 || kind > 5 || fill > 255 || (kind == 5 && len != 0)) bad("bad placement");
                if ((kind == 1 || kind == 2 || kind == 3) && len > GPAGES * 4096u) kind = 0;
                unsigned char* key;
                if (kind == 5) key = nullptr;
                else if (kind == 0 || kind == 4)
                {
                    unsigned char* buf = kind == 0 ? frame : reused;
                    memset(buf, static_cast<int>(fill), 32 + align + len + 48);
                    key = buf + 32 + align;
                }
                else
                {
                    memset(gfirst, static_cast<int>(fill), GPAGES * 4096u);
                    if (kind == 1) kind = 2;
                    key = kind == 2 ? gend - len : gfirst;
                    align = static_cast<uint32_t>(reinterpret_cast<uintptr_t>(key) & 7u);
                }
                for (unsigned i = 0; i < len; ++i) key[i] = keybuf[i];

                uint32_t r32 = xtl::murmur2_x86(key, len, static_cast<uint32_t>(seed));
                uint64_t r64 = xtl::murmur2_x64(key, len, seed);
                std::size_t rhb = xtl::hash_bytes(key, len, static_cast<std::size_t>(seed));

                oc('['); ou(kind); oc(','); ou(align); oc(','); ou(fill); oc(',');
                olimbs(r32, 2); oc(','); olimbs(r64, 4); oc(','); olimbs(static_cast<uint64_t>(rhb), 4); oc(','); olimbs(0, 4); oc(']');
            }
            expect(']');
            expect(']');
            oc(']'); oc(']');
        }
        os("]}\n");
        put(obuf, on);
        arm(0);
    }
    return 0;
}

extern "C" __attribute__((force_align_arg_pointer, noreturn)) void _start()
{
    die(run());
}

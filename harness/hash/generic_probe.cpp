// C14: does the header still have the primary template detail::murmur_hash<N> (the fallback for an unusual
// sizeof(std::size_t))?  It is not part of the property; when this compiles the driver is built with
// -DHAVE_GENERIC_FALLBACK and the fallback's results are compared with Murmur.tla's Poly131 as an advisory (DRIFT).
#include "xtl/xhash.hpp"
int main()
{
    const char k[3] = {1, 2, 3};
    return xtl::detail::murmur_hash<2>(k, 3, 0) == 0 ? 1 : 0;
}

// C14 interface probe (see harness/base64/api_probe.cpp for the role of such a file): the three hash entry
// points of xhash.hpp called with (pointer, length, seed) as the property statement and test/test_xhash.cpp do.
#include "xtl/xhash.hpp"
#include <cstddef>
#include <cstdint>

int main()
{
    const unsigned char key[5] = {1, 2, 3, 4, 5};
    std::uint32_t a = xtl::murmur2_x86(key, sizeof key, std::uint32_t(7));
    std::uint64_t b = xtl::murmur2_x64(key, sizeof key, std::uint64_t(7));
    std::size_t c = xtl::hash_bytes(key, sizeof key, std::size_t(7));
    return (a != 0 || b != 0 || c != 0) ? 0 : 1;
}

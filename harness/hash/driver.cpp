// C14 conformance driver: hashes keys with xtl::murmur2_x86, murmur2_x64, hash_bytes (and the header's
// generic fallback detail::murmur_hash<N>) at requested placements in memory and prints the results.
// No oracle here: TLC evaluates Murmur.tla on every recorded case (specs/MurmurCheck.tla).
//
//  {"op":"H","c":[[ [b0,b1,..], [s0,s1,s2,s3], [[kind,align,fill],..] ],..]}
//        key bytes, 64-bit seed as 16-bit limbs (least significant first), placements
//  ->  {"op":"H","szt":sizeof(size_t),"c":[[ bytes, seed, [[kind,align,fill, x86[2], x64[4], hash_bytes[4], generic[4]],..] ],..]}
//  {"op":"Reset","c":[[0]]}  is echoed (the checking spec forgets the keys seen so far).
//
// placement kind 0 ("frame"):  the key lies inside a heap block, 32+align bytes from its 16-aligned start,
//      with >= 32 further bytes behind it; the whole block is pre-filled with the byte `fill`
//      (a read outside the key is legal memory, but then the result depends on `fill`).
// placement kind 1 ("exact"):  the heap block is exactly align+len bytes, the key is its last len bytes
//      (a read behind the key - and for align 0 also before it - is an AddressSanitizer report);
//      the align bytes before the key hold `fill`.
// The bytes printed are read back from the buffer that was hashed.  Built with
// -fsanitize=address,bounds -fno-sanitize-recover=bounds.
#include "vjson.hpp"
#include "xtl/xhash.hpp"

#include <cstdint>
#include <cstdlib>
#include <cstring>
#include <iostream>
#include <string>
#include <vector>

static std::string limbs_of(std::uint64_t v, int n)
{
    std::string s = "[";
    for (int k = 0; k < n; ++k)
    {
        if (k) s += ',';
        s += std::to_string((v >> (16 * k)) & 0xFFFF);
    }
    return s + "]";
}

int main()
{
    vj::install_crash_handlers();
    std::string line;
    while (std::getline(std::cin, line))
    {
        if (line.empty()) continue;
        vj::value ev = vj::parse(line);
        const std::string& op = ev.str("op");
        if (op == "Reset")
        {
            std::fputs("{\"op\":\"Reset\",\"c\":[[0]]}\n", stdout);
            std::fflush(stdout);
            continue;
        }
        if (op != "H") { std::fprintf(stderr, "script: unknown op %s\n", op.c_str()); return 3; }
        std::string o = "{\"op\":\"H\",\"szt\":" + std::to_string(sizeof(std::size_t)) + ",\"c\":[";
        bool first = true;
        for (const vj::value& c : ev.at("c").a)
        {
            const vj::value& kb = c.a[0];
            const vj::value& sd = c.a[1];
            std::size_t len = kb.a.size();
            std::uint64_t seed = 0;
            for (int k = 3; k >= 0; --k) seed = (seed << 16) | static_cast<std::uint64_t>(sd.a[std::size_t(k)].i);
            std::string obs, echoed;
            for (const vj::value& pl : c.a[2].a)
            {
                int kind = int(pl.a[0].i);
                std::size_t align = std::size_t(pl.a[1].i);
                unsigned char fill = (unsigned char)pl.a[2].i;
                if (align > 15 || (kind != 0 && kind != 1)) { std::fprintf(stderr, "script: bad placement\n"); return 3; }
                std::size_t total = kind == 0 ? 32 + align + len + 48 : align + len;
                unsigned char* block = static_cast<unsigned char*>(std::malloc(total));   // malloc(0): a pointer no byte of which may be touched
                if (!block) { std::fprintf(stderr, "malloc failed\n"); return 3; }
                if (total) std::memset(block, fill, total);
                unsigned char* key = block + (kind == 0 ? 32 + align : align);
                for (std::size_t i = 0; i < len; ++i) key[i] = (unsigned char)kb.a[i].i;

                std::uint32_t r32 = xtl::murmur2_x86(key, len, static_cast<std::uint32_t>(seed));
                std::uint64_t r64 = xtl::murmur2_x64(key, len, seed);
                std::size_t rhb = xtl::hash_bytes(key, len, static_cast<std::size_t>(seed));
                std::size_t rgen = xtl::detail::murmur_hash<2>(key, len, static_cast<std::size_t>(seed));   // primary template

                if (echoed.empty())
                {
                    echoed = "[";
                    for (std::size_t i = 0; i < len; ++i) { if (i) echoed += ','; echoed += std::to_string((int)key[i]); }
                    echoed += "]";
                }
                if (!obs.empty()) obs += ',';
                obs += "[" + std::to_string(kind) + "," + std::to_string(align) + "," + std::to_string((int)fill) + ","
                     + limbs_of(r32, 2) + "," + limbs_of(r64, 4) + "," + limbs_of(static_cast<std::uint64_t>(rhb), 4) + ","
                     + limbs_of(static_cast<std::uint64_t>(rgen), 4) + "]";
                std::free(block);
            }
            if (!first) o += ',';
            first = false;
            o += "[" + (echoed.empty() ? std::string("[]") : echoed) + "," + limbs_of(seed, 4) + ",[" + obs + "]]";
        }
        o += "]}\n";
        std::fputs(o.c_str(), stdout);
        std::fflush(stdout);
    }
    return 0;
}

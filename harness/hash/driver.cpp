// C14 conformance driver: hashes keys with xtl::murmur2_x86, murmur2_x64, hash_bytes (and, when built with
// -DHAVE_GENERIC_FALLBACK, the header's generic fallback detail::murmur_hash<N> - a detail:: name, so the runner
// only defines the macro when a probe compile says the name exists) at requested placements in memory and prints
// the results.
// No oracle here: TLC evaluates Murmur.tla on every recorded case (specs/MurmurCheck.tla).
//
//  {"op":"H","c":[[ [b0,b1,..], [s0,s1,s2,s3], [[kind,align,fill],..] ],..]}
//        key bytes, 64-bit seed as 16-bit limbs (least significant first), placements
//  ->  {"op":"H","szt":sizeof(size_t),"c":[[ bytes, seed, [[kind,align,fill, x86[2], x64[4], hash_bytes[4], generic[4]],..] ],..]}
//  {"op":"Reset","c":[[0]]}  is echoed (the checking spec forgets the keys seen so far).
//
// placement kind 0 ("frame"):  the key lies inside a heap block, 32+align bytes from its 16-aligned start,
//      with >= 32 further bytes behind it; the whole block is pre-filled with the byte `fill`
//      (a read outside the key is legal memory, but then the result depends on `fill`).
// placement kind 1 ("exact"):  the heap block is exactly align+len bytes, the key is its last len bytes
//      (a read behind the key - and for align 0 also before it - is an AddressSanitizer report);
//      the align bytes before the key hold `fill`.
// placement kind 2 ("page-end"):  the key's last byte is the last byte of an mmap'ed page and the next page is
//      PROT_NONE: a read behind the key faults in EVERY build (sanitizer or not).  The address is then fixed by the
//      length (page end - len), `align` is ignored and echoed as the actual address modulo 8.
// placement kind 3 ("page-start"): the key starts at the first byte of a page whose predecessor is PROT_NONE:
//      a read before the key faults in every build; the bytes behind the key (rest of the page) hold `fill`.
// placement kind 5 ("null"): the empty key passed as a null pointer (length 0 only)
// placement kind 4 ("reused"): a buffer that lives as long as the process and is used for key after key (a record
//      buffer that is filled and hashed again and again): the key lies 32+align bytes into it, `fill` around it.
//      Consecutive keys of equal length then have the same address, length and seed and differ only in their bytes.
// A fault / sanitizer report / a call that does not return (3 s of CPU time per script line) ends the output with
// a Crash line.
// The bytes printed are read back from the buffer that was hashed.  Built with
// -fsanitize=address,bounds -fno-sanitize-recover=bounds.
#include "vjson.hpp"
#include "xtl/xhash.hpp"

#include <cstdint>
#include <cstdlib>
#include <cstring>
#include <iostream>
#include <string>
#include <vector>
#include <sys/mman.h>
#include <sys/time.h>
#include <unistd.h>

static void on_watchdog(int sig)
{
    vj::crash_line(sig == SIGPROF ? "timeout: the call did not return within 3 s of CPU time" : "timeout: the call did not return within 90 s");
    _exit(0);
}
static void arm_watchdog(long cpu_s, long wall_s)
{
    struct itimerval cpu = {{0, 0}, {cpu_s, 0}}, wall = {{0, 0}, {wall_s, 0}};
    setitimer(ITIMER_PROF, &cpu, nullptr);
    setitimer(ITIMER_REAL, &wall, nullptr);
}

// three pages: [PROT_NONE][read/write][PROT_NONE]; reused for every key that fits one page
struct guarded_page
{
    unsigned char* base = nullptr;
    std::size_t page = 0;
    guarded_page()
    {
        page = static_cast<std::size_t>(sysconf(_SC_PAGESIZE));
        void* p = mmap(nullptr, 3 * page, PROT_NONE, MAP_PRIVATE | MAP_ANONYMOUS, -1, 0);
        if (p == MAP_FAILED) { std::fprintf(stderr, "mmap failed\n"); std::exit(3); }
        base = static_cast<unsigned char*>(p);
        if (mprotect(base + page, page, PROT_READ | PROT_WRITE) != 0) { std::fprintf(stderr, "mprotect failed\n"); std::exit(3); }
    }
    unsigned char* first() const { return base + page; }
    unsigned char* end() const { return base + 2 * page; }
};

static std::string limbs_of(std::uint64_t v, int n)
{
    std::string s = "[";
    for (int k = 0; k < n; ++k)
    {
        if (k) s += ',';
        s += std::to_string((v >> (16 * k)) & 0xFFFF);
    }
    return s + "]";
}

int main()
{
    vj::install_crash_handlers();
    std::signal(SIGPROF, on_watchdog);
    std::signal(SIGALRM, on_watchdog);
    guarded_page gp;
    std::string line;
    while (std::getline(std::cin, line))
    {
        if (line.empty()) continue;
        vj::value ev = vj::parse(line);
        const std::string& op = ev.str("op");
        if (op == "Reset")
        {
            std::fputs("{\"op\":\"Reset\",\"c\":[[0]]}\n", stdout);
            std::fflush(stdout);
            continue;
        }
        if (op != "H") { std::fprintf(stderr, "script: unknown op %s\n", op.c_str()); return 3; }
        arm_watchdog(3, 90);
#ifdef HAVE_GENERIC_FALLBACK
        const char* gen = "1";
#else
        const char* gen = "0";
#endif
        std::string o = "{\"op\":\"H\",\"szt\":" + std::to_string(sizeof(std::size_t)) + ",\"gen\":" + gen + ",\"c\":[";
        bool first = true;
        for (const vj::value& c : ev.at("c").a)
        {
            const vj::value& kb = c.a[0];
            const vj::value& sd = c.a[1];
            std::size_t len = kb.a.size();
            std::uint64_t seed = 0;
            for (int k = 3; k >= 0; --k) seed = (seed << 16) | static_cast<std::uint64_t>(sd.a[std::size_t(k)].i);
            std::string obs, echoed;
            for (const vj::value& pl : c.a[2].a)
            {
                int kind = int(pl.a[0].i);
                std::size_t align = std::size_t(pl.a[1].i);
                unsigned char fill = (unsigned char)pl.a[2].i;
                if (align > 15 || kind < 0 || kind > 5 || (kind == 5 && len != 0)) { std::fprintf(stderr, "script: bad placement\n"); return 3; }
                static std::vector<unsigned char> reused;
                if (kind >= 2 && len > gp.page) kind = 1;            // does not fit the guarded page: exact heap block instead
                unsigned char* block = nullptr;
                unsigned char* key;
                if (kind == 5)
                {
                    key = nullptr;           // the empty key through a null pointer: no byte may be read
                }
                else if (kind <= 1)
                {
                    std::size_t total = kind == 0 ? 32 + align + len + 48 : align + len;
                    block = static_cast<unsigned char*>(std::malloc(total));   // malloc(0): a pointer no byte of which may be touched
                    if (!block) { std::fprintf(stderr, "malloc failed\n"); return 3; }
                    if (total) std::memset(block, fill, total);
                    key = block + (kind == 0 ? 32 + align : align);
                }
                else if (kind == 4)
                {
                    if (reused.size() < len + 128) reused.resize(len + 128 + 65536);      // grows rarely; the address is stable in between
                    std::memset(reused.data(), fill, len + 128);
                    key = reused.data() + 32 + align;
                }
                else
                {
                    std::memset(gp.first(), fill, gp.page);
                    key = kind == 2 ? gp.end() - len : gp.first();
                    align = static_cast<std::size_t>(reinterpret_cast<std::uintptr_t>(key) & 7u);
                }
                for (std::size_t i = 0; i < len; ++i) key[i] = (unsigned char)kb.a[i].i;

                std::uint32_t r32 = xtl::murmur2_x86(key, len, static_cast<std::uint32_t>(seed));
                std::uint64_t r64 = xtl::murmur2_x64(key, len, seed);
                std::size_t rhb = xtl::hash_bytes(key, len, static_cast<std::size_t>(seed));
#ifdef HAVE_GENERIC_FALLBACK
                std::size_t rgen = xtl::detail::murmur_hash<2>(key, len, static_cast<std::size_t>(seed));   // primary template
#else
                std::size_t rgen = 0;
#endif

                if (echoed.empty())
                {
                    echoed = "[";
                    for (std::size_t i = 0; i < len; ++i) { if (i) echoed += ','; echoed += std::to_string((int)key[i]); }
                    echoed += "]";
                }
                if (!obs.empty()) obs += ',';
                obs += "[" + std::to_string(kind) + "," + std::to_string(align) + "," + std::to_string((int)fill) + ","
                     + limbs_of(r32, 2) + "," + limbs_of(r64, 4) + "," + limbs_of(static_cast<std::uint64_t>(rhb), 4) + ","
                     + limbs_of(static_cast<std::uint64_t>(rgen), 4) + "]";
                if (block) std::free(block);
            }
            if (!first) o += ',';
            first = false;
            o += "[" + (echoed.empty() ? std::string("[]") : echoed) + "," + limbs_of(seed, 4) + ",[" + obs + "]]";
        }
        o += "]}\n";
        std::fputs(o.c_str(), stdout);
        std::fflush(stdout);
    }
    arm_watchdog(0, 0);
    return 0;
}

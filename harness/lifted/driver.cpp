// C04 conformance harness: a register machine over real xtl::xoptional / xtl::xmasked_value
// objects whose value type is the instrumented operand type pr::Probe (probe.hpp).
//
// Reads a script (ndjson, one call per line: {"op":..,"a":{..}}) on stdin, performs the call on the
// real xtl objects, and prints the same line extended with
//   "res": {"kind","has","val","d","u"}  what the call returned (d = number of Probe operations the
//                                     call evaluated: the delta of the global evaluation counter;
//                                     u = for double-valued calls the SAME operation performed on the
//                                     underlying doubles directly, else 0)
//   "st":  {"r":[{"kind","has","val","ref":{"has","val","g"},"al":{"v","f"}}...], "evals":n}   all registers afterwards
//          (ref.g: the caller's bits next to the flag bit of a proxy-flag closure are as the caller left them)
// It contains no oracle: it executes and prints.  Every operator / <cmath> name comes from the shared
// operation table ops.def; the overload that is called for a given (operation, kinds of the operand
// registers) is chosen by the C++ compiler exactly as in user code.
//
// Register kinds:
//   plain   pr::Probe                                   int     a raw int (converted by xtl's overloads)
//   opt     xoptional<Probe, bool>                      optref  xoptional<Probe&, bool&>
//   optcr   xoptional<const Probe&, const bool&>        optvr   xoptional<Probe&, bool>
//   masked  xmasked_value<Probe, bool>                  mref    xmasked_value<Probe&, bool&>
//   optbr   xoptional<Probe&, xdynamic_bitset<unsigned char>::reference>   (the flag is a PROXY: one bit of a
//           bitset of the caller, the element type of xoptional_vector; the flag cell is bit 1 of a 3-bit set)
//   dplain  double        dopt  xoptional<double, bool>        dmasked xmasked_value<double, bool>
//           (real IEEE operands incl. NaN, infinities, fractions; see enc())
//   mo      xmasked_value<xoptional<Probe, bool>, bool>   (the two families nested: a masked optional)
//   po      xoptional<Probe, bool> used as the "plain scalar" operand of a call of the mo family
// Reference kinds close over per-register backing cells (heap allocated, so ASan sees stray accesses);
// "ref" in the projection is the content of those cells read directly.  Two registers may close over
// the same cells (Alias); "al" names, for the value cell and the flag cell, the lowest register that
// shares it.
//
// A call that the script asks for but that this tree does not offer (e.g. an assignment between two
// closure types that is no longer accepted) is reported with res.kind = "absent"; the runner decides
// what that means.  A crash, a sanitizer report, an uncaught exception or a call that exceeds its CPU
// limit ends the trace with a Crash event; the runner restarts the driver at the next execution.
//
// Build switches: -DLIFTED_PART=n (compile one of the eight parts), -DLIFTED_OPS_DEF="file" (an
// operation table with some rows removed: degraded build against a tree where an overload does not
// compile), -DLIFTED_NO_HOUSE (leave out the housekeeping calls beyond construction and accessors).
#include <xtl/xoptional.hpp>
#include <xtl/xmasked_value.hpp>
#include <xtl/xdynamic_bitset.hpp>
#include "probe.hpp"
#if defined(LIFTED_PART) && LIFTED_PART != 0
// vjson.hpp defines the (non-inline) ASan hook; only part 0 of a multi-part build may define the real one
#define VJ_CAT2(a, b) a##b
#define VJ_CAT(a, b) VJ_CAT2(a, b)
#define __asan_on_error VJ_CAT(lifted_unused_asan_hook_, LIFTED_PART)
#include "vjson.hpp"
#undef __asan_on_error
#else
#include "vjson.hpp"
#endif
#include <iostream>
#include <memory>
#include <sstream>
#include <string>
#include <type_traits>
#include <cmath>
#include <cstring>
#include <limits>
#include <csignal>
#include <sys/time.h>

#ifndef LIFTED_OPS_DEF
#define LIFTED_OPS_DEF "ops.def"
#endif

using pr::Probe;
using Opt = xtl::xoptional<Probe, bool>;
using ORef = xtl::xoptional<Probe&, bool&>;
using OCRef = xtl::xoptional<const Probe&, const bool&>;
using OVRef = xtl::xoptional<Probe&, bool>;
using Msk = xtl::xmasked_value<Probe, bool>;
using MRef = xtl::xmasked_value<Probe&, bool&>;
using DOpt = xtl::xoptional<double, bool>;
using DMsk = xtl::xmasked_value<double, bool>;
using MO = xtl::xmasked_value<Opt, bool>;
using BitSet = xtl::xdynamic_bitset<unsigned char>;
using OBRef = xtl::xoptional<Probe&, BitSet::reference>;

// ---------------------------------------------------------------- numbers in the trace
// doubles: integers up to 2e9 as themselves, NaN as NANV, the infinities as PINFV / NINFV, every other value
// as a hash of its bit pattern in HASH0 .. HASH0+HASHN-1 (identity of inexact values stays visible);
// the value of a missing inner optional (mo / po) as NAV
constexpr int NANV = 2147480000, NONINT = 2147480001, PINFV = 2147480002, NINFV = 2147480003, NAV = 2147470000;
constexpr int HASH0 = 2000000001;
constexpr unsigned long long HASHN = 147000000ULL;
static int enc(double x)
{
    if (std::isnan(x)) return NANV;
    if (std::isinf(x)) return x > 0 ? PINFV : NINFV;
    if (x == std::floor(x) && std::fabs(x) <= 2000000000.0) return int(x);
    unsigned long long b;
    std::memcpy(&b, &x, sizeof b);
    b ^= b >> 33; b *= 0xff51afd7ed558ccdULL; b ^= b >> 33; b *= 0xc4ceb9fe1a85ec53ULL; b ^= b >> 33;
    return HASH0 + int(b % HASHN);
}
// operand values of double registers: a small integer, NANV, or an index into a table of remarkable doubles
constexpr int DTAB0 = 1000000;
static const double DTAB[] = {0.5, -0.5, 1.5, -2.5, 0.1, 1.0 / 3.0, 1e308, -1e308, 5e-324, 1e-310, 2.2250738585072014e-308,
                              9007199254740993.0, 4503599627370496.5, 3.141592653589793, -0.75, 1e-5,
                              std::numeric_limits<double>::infinity(), -std::numeric_limits<double>::infinity(), -0.0, 1.7976931348623157e308};
constexpr int DTABN = int(sizeof(DTAB) / sizeof(DTAB[0]));
[[noreturn]] static void script_error(const char* what, const std::string& detail = "")
{
    std::fflush(stdout);
    std::fprintf(stderr, "script: %s %s\n", what, detail.c_str());
    std::exit(3);
}
static double dec(long long v)
{
    if (v == NANV) return std::numeric_limits<double>::quiet_NaN();
    if (v >= DTAB0 && v < DTAB0 + DTABN) return DTAB[v - DTAB0];
    if (v < -1000 || v > 1000) script_error("double operand out of range");
    return double(v);
}
// the numeric content of a value of either value type
static int num(const Probe& p) { return p.v; }
static int num(const int& p) { return p; }
static int num(const double& p) { return enc(p); }
static int num(const bool& p) { return p ? 1 : 0; }
template <class CT, class CB> static int num(const xtl::xoptional<CT, CB>& p);
template <class T> static int num(const T&) { return NONINT; }      // a value type the harness does not know
template <class CT, class CB> static int num(const xtl::xoptional<CT, CB>& p) { return bool(p.has_value()) ? num(p.value()) : NAV; }
static void put(Probe& p, long long v) { p = Probe(int(v)); }
static void put(int& p, long long v) { p = int(v); }
static void put(double& p, long long v) { p = dec(v); }

// ---------------------------------------------------------------- static description of the kinds
enum fam_t { F_PLAIN = 0, F_OPT = 1, F_MSK = 2 };
template <class T> struct kinfo;
template <class V, int F, bool W, bool I, bool D> struct kbase { using vtype = V; static constexpr int fam = F; static constexpr bool writable = W, is_int = I, isd = D; };
template <> struct kinfo<Probe> : kbase<Probe, F_PLAIN, true, false, false> {};
template <> struct kinfo<int>   : kbase<Probe, F_PLAIN, true, true, false> {};
template <> struct kinfo<Opt>   : kbase<Probe, F_OPT, true, false, false> {};
template <> struct kinfo<ORef>  : kbase<Probe, F_OPT, true, false, false> {};
template <> struct kinfo<OCRef> : kbase<Probe, F_OPT, false, false, false> {};
template <> struct kinfo<OVRef> : kbase<Probe, F_OPT, true, false, false> {};
template <> struct kinfo<OBRef> : kbase<Probe, F_OPT, true, false, false> {};
template <> struct kinfo<Msk>   : kbase<Probe, F_MSK, true, false, false> {};
template <> struct kinfo<MRef>  : kbase<Probe, F_MSK, true, false, false> {};
template <> struct kinfo<double> : kbase<double, F_PLAIN, true, false, true> {};
template <> struct kinfo<DOpt>  : kbase<double, F_OPT, true, false, true> {};
template <> struct kinfo<DMsk>  : kbase<double, F_MSK, true, false, true> {};
template <> struct kinfo<MO>    : kbase<Opt, F_MSK, true, false, false> {};
template <class T> using ki = kinfo<std::decay_t<T>>;

// a lifted call exists for an operand pattern iff at least one operand is lifted and the
// xoptional and xmasked_value families are not mixed
template <class... A> struct pat;
template <> struct pat<> { static constexpr bool opt = false, msk = false, allint = true, anyd = false, alld = true, anymo = false; };
template <class A, class... R> struct pat<A, R...>
{
    static constexpr bool opt = ki<A>::fam == F_OPT || pat<R...>::opt;
    static constexpr bool msk = ki<A>::fam == F_MSK || pat<R...>::msk;
    static constexpr bool allint = ki<A>::is_int && pat<R...>::allint;
    static constexpr bool anyd = ki<A>::isd || pat<R...>::anyd;      // some operand is double-valued
    static constexpr bool alld = ki<A>::isd && pat<R...>::alld;
    static constexpr bool anymo = std::is_same<std::decay_t<A>, MO>::value || pat<R...>::anymo;
};
template <class... A> using lifted_ok = std::integral_constant<bool, (pat<A...>::opt != pat<A...>::msk) && !pat<A...>::anyd && !pat<A...>::anymo>;
template <class... A> using lifted_ok_d = std::integral_constant<bool, (pat<A...>::opt != pat<A...>::msk) && pat<A...>::alld>;
// the mo family: operands are MO (masked optional) or Opt standing in the place of the plain scalar
template <class T> struct is_mix_operand : std::integral_constant<bool, std::is_same<std::decay_t<T>, MO>::value || std::is_same<std::decay_t<T>, Opt>::value> {};
template <class... A> struct all_mix : std::true_type {};
template <class A, class... R> struct all_mix<A, R...> : std::integral_constant<bool, is_mix_operand<A>::value && all_mix<R...>::value> {};
template <class... A> using lifted_ok_mix = std::integral_constant<bool, pat<A...>::anymo && all_mix<A...>::value>;

// operations that do not exist for double operands
constexpr bool streq(const char* a, const char* b) { return *a == *b && (*a == 0 || streq(a + 1, b + 1)); }
constexpr bool int_only(const char* n)
{
    return streq(n, "mod") || streq(n, "band") || streq(n, "bor") || streq(n, "bxor") || streq(n, "bitnot") ||
           streq(n, "mod_eq") || streq(n, "band_eq") || streq(n, "bor_eq") || streq(n, "bxor_eq");
}

// ---------------------------------------------------------------- observations
struct obs
{
    const char* kind;
    bool has;
    int val;
    int u;
    obs(const char* k = "", bool h = false, int v = 0, int uu = 0) : kind(k), has(h), val(v), u(uu) {}
};
static const obs VOID_OBS("void", true, 0);
static const obs ABSENT("absent", false, 0);
// the kind of a result is read off its static type: the family from the class template, the suffix from the value type
template <class V> struct rk { static const char* o() { return "opt?"; } static const char* m() { return "masked?"; } };
template <> struct rk<Probe> { static const char* o() { return "opt"; } static const char* m() { return "masked"; } };
template <> struct rk<bool> { static const char* o() { return "optb"; } static const char* m() { return "maskedb"; } };
template <> struct rk<double> { static const char* o() { return "dopt"; } static const char* m() { return "dmasked"; } };
template <> struct rk<Opt> { static const char* o() { return "optopt"; } static const char* m() { return "mo"; } };
template <> struct rk<xtl::xoptional<bool, bool>> { static const char* o() { return "optoptb"; } static const char* m() { return "mob"; } };
template <class CT, class CB> static obs cap(const xtl::xoptional<CT, CB>& x) { return obs(rk<std::decay_t<CT>>::o(), bool(x.has_value()), num(x.value())); }
template <class T, class B> static obs cap(const xtl::xmasked_value<T, B>& x) { return obs(rk<std::decay_t<T>>::m(), bool(x.visible()), num(x.value())); }
static obs cap(const bool& b) { return obs("bool", true, b ? 1 : 0); }
static obs cap(const Probe& p) { return obs("plain", true, p.v); }
static obs cap(const double& p) { return obs("dplain", true, enc(p)); }
template <class T> static obs cap(const T&) { return obs("other", true, NONINT); }
// the underlying double of an operand of the double family
static double raw(const double& x) { return x; }
static double raw(const DOpt& x) { return x.value(); }
static double raw(const DMsk& x) { return x.value(); }

// ---------------------------------------------------------------- registers
struct slot
{
    std::string kind = "plain";
    Probe pv;
    int iv = 0;
    std::unique_ptr<Opt> opt;      // kinds opt and po
    std::unique_ptr<ORef> oref;
    std::unique_ptr<OCRef> ocref;
    std::unique_ptr<OVRef> ovref;
    std::unique_ptr<OBRef> obref;
    std::shared_ptr<BitSet> bb;    // the caller's bitset behind the proxy flag of an optbr register (bit 1; bits 0 and 2 are guards)
    std::unique_ptr<Msk> msk;
    std::unique_ptr<MRef> mref;
    std::unique_ptr<MO> mo;
    double dv = 0;
    std::unique_ptr<DOpt> dopt;
    std::unique_ptr<DMsk> dmsk;
    std::shared_ptr<Probe> bv;   // backing cells of the reference kinds (shared between aliasing registers)
    std::shared_ptr<bool> bf;

    void clear()
    {
        opt.reset(); oref.reset(); ocref.reset(); ovref.reset(); obref.reset(); bb.reset(); msk.reset(); mref.reset(); mo.reset();
        dopt.reset(); dmsk.reset(); bv.reset(); bf.reset();
        pv = Probe(0); iv = 0; dv = 0; kind = "plain";
    }
    void backing(int v, bool h) { bv.reset(new Probe(v)); bf.reset(new bool(h)); }
    void backing_bits(int v, bool h) { bv.reset(new Probe(v)); bb.reset(new BitSet(3, false)); (*bb)[0] = true; (*bb)[1] = h; }
    bool vref() const { return kind == "optref" || kind == "optcr" || kind == "optvr" || kind == "mref" || kind == "optbr"; }
    bool fref() const { return kind == "optref" || kind == "optcr" || kind == "mref" || kind == "optbr"; }
    bool fbit() const { return kind == "optbr"; }
    bool flagcell() const { return fbit() ? bool((*bb)[1]) : *bf; }
    // the guard bits around the flag bit are intact (bit 0 set, bit 2 clear, three bits in all)
    bool guards_ok() const { return !fbit() || (bb->size() == 3 && bool((*bb)[0]) && !bool((*bb)[2])); }
};

struct machine
{
    std::vector<slot> r;   // r[0] unused; registers are 1-based as in the spec

    slot& at(long long i)
    {
        if (i < 1 || i >= (long long)r.size()) script_error("register out of range");
        return r[size_t(i)];
    }

    // call f on the real object held by register i
    template <class F> obs visit(long long i, F&& f)
    {
        slot& s = at(i);
        if (s.kind == "plain") return f(s.pv);
        if (s.kind == "int") return f(s.iv);
        if (s.kind == "opt" || s.kind == "po") return f(*s.opt);
        if (s.kind == "optref") return f(*s.oref);
        if (s.kind == "optcr") return f(*s.ocref);
        if (s.kind == "optvr") return f(*s.ovref);
        if (s.kind == "optbr") return f(*s.obref);
        if (s.kind == "masked") return f(*s.msk);
        if (s.kind == "mref") return f(*s.mref);
        if (s.kind == "dplain") return f(s.dv);
        if (s.kind == "dopt") return f(*s.dopt);
        if (s.kind == "dmasked") return f(*s.dmsk);
        if (s.kind == "mo") return f(*s.mo);
        script_error("bad kind", s.kind);
    }
    // the same for the operands of a call of the mo family (MO or Opt only: fewer instantiations)
    template <class F> obs visit_mix(long long i, F&& f)
    {
        slot& s = at(i);
        if (s.kind == "mo") return f(*s.mo);
        if (s.kind == "po" || s.kind == "opt") return f(*s.opt);
        script_error("operand of a masked-optional call must be mo or po", s.kind);
    }

    // ---- storing a result into register d (0 = discard)
    template <class CT, class CB> void store_o(std::true_type, long long d, const xtl::xoptional<CT, CB>& x)
    {
        slot& s = at(d); s.clear(); s.kind = "opt"; s.opt.reset(new Opt(Probe(x.value()), bool(x.has_value())));
    }
    template <class T, class B> void store_m(std::true_type, long long d, const xtl::xmasked_value<T, B>& x)
    {
        slot& s = at(d); s.clear(); s.kind = "masked"; s.msk.reset(new Msk(Probe(x.value()), bool(x.visible())));
    }
    template <class X> void store_o(std::false_type, long long d, const X&) { at(d).clear(); }   // (the event's kind already differs from what the spec wants)
    template <class X> void store_m(std::false_type, long long d, const X&) { at(d).clear(); }
    template <class CT, class CB> void store(long long d, const xtl::xoptional<CT, CB>& x) { store_o(std::is_same<std::decay_t<CT>, Probe>(), d, x); }
    template <class T, class B> void store(long long d, const xtl::xmasked_value<T, B>& x) { store_m(std::is_same<std::decay_t<T>, Probe>(), d, x); }
    void store(long long d, const MO& x)
    {
        slot& s = at(d); s.clear(); s.kind = "mo"; s.mo.reset(new MO(Opt(Probe(x.value().value()), bool(x.value().has_value())), bool(x.visible())));
    }
    template <class T> void store(long long d, const T&) { at(d).clear(); }

    template <class R> obs finish(long long d, const R& result)
    {
        obs o = cap(result);
        if (d != 0) store(d, result);
        return o;
    }

    // ---- guarded calls: the generic lambda body is only instantiated for patterns xtl lifts
    template <class F, class... A> obs call(std::true_type, long long d, F& f, A&... a) { return finish(d, f(a...)); }
    template <class F, class... A> obs call(std::false_type, long long, F&, A&...) { script_error("operand pattern is not a lifted call"); }
    // double family: also perform the same operation on the underlying doubles
    template <class F, class... A> obs call_d(std::true_type, F& f, A&... a)
    {
        int u = num(f(raw(a)...));
        obs o = finish(0, f(a...));
        o.u = u;
        return o;
    }
    template <class F, class... A> obs call_d(std::false_type, F&, A&...) { script_error("operand pattern is not a lifted call on doubles"); }

    template <template <class...> class OK, class F> obs unaryT(long long i, long long d, F f)
    {
        return visit(i, [&](auto& a) { return this->call(OK<decltype(a)>{}, d, f, a); });
    }
    template <template <class...> class OK, class F> obs binaryT(long long i, long long j, long long d, F f)
    {
        return visit(i, [&](auto& a) {
            return this->visit(j, [&](auto& b) { return this->call(OK<decltype(a), decltype(b)>{}, d, f, a, b); });
        });
    }
    template <template <class...> class OK, class F> obs ternaryT(long long i, long long j, long long k, long long d, F f)
    {
        return visit(i, [&](auto& a) {
            return this->visit(j, [&](auto& b) {
                return this->visit(k, [&](auto& c) {
                    return this->call(OK<decltype(a), decltype(b), decltype(c)>{}, d, f, a, b, c);
                });
            });
        });
    }
    template <class F> obs unary(long long i, long long d, F f) { return unaryT<lifted_ok>(i, d, f); }
    template <class F> obs binary(long long i, long long j, long long d, F f) { return binaryT<lifted_ok>(i, j, d, f); }
    template <class F> obs ternary(long long i, long long j, long long k, long long d, F f) { return ternaryT<lifted_ok>(i, j, k, d, f); }
    // double family (EN = the operation exists for doubles)
    template <bool EN, class F> obs unary_d(long long i, F f)
    {
        return visit(i, [&](auto& a) { return this->call_d(std::integral_constant<bool, EN && lifted_ok_d<decltype(a)>::value>{}, f, a); });
    }
    template <bool EN, class F> obs binary_d(long long i, long long j, F f)
    {
        return visit(i, [&](auto& a) {
            return this->visit(j, [&](auto& b) { return this->call_d(std::integral_constant<bool, EN && lifted_ok_d<decltype(a), decltype(b)>::value>{}, f, a, b); });
        });
    }
    template <bool EN, class F> obs ternary_d(long long i, long long j, long long k, F f)
    {
        return visit(i, [&](auto& a) {
            return this->visit(j, [&](auto& b) {
                return this->visit(k, [&](auto& c) {
                    return this->call_d(std::integral_constant<bool, EN && lifted_ok_d<decltype(a), decltype(b), decltype(c)>::value>{}, f, a, b, c);
                });
            });
        });
    }
    // mo family
    template <class F> obs unary_mix(long long i, long long d, F f)
    {
        return visit_mix(i, [&](auto& a) { return this->call(lifted_ok_mix<decltype(a)>{}, d, f, a); });
    }
    template <class F> obs binary_mix(long long i, long long j, long long d, F f)
    {
        return visit_mix(i, [&](auto& a) {
            return this->visit_mix(j, [&](auto& b) { return this->call(lifted_ok_mix<decltype(a), decltype(b)>{}, d, f, a, b); });
        });
    }
    template <class F> obs ternary_mix(long long i, long long j, long long k, long long d, F f)
    {
        return visit_mix(i, [&](auto& a) {
            return this->visit_mix(j, [&](auto& b) {
                return this->visit_mix(k, [&](auto& c) { return this->call(lifted_ok_mix<decltype(a), decltype(b), decltype(c)>{}, d, f, a, b, c); });
            });
        });
    }
    bool is_d(long long i) { const std::string& k = at(i).kind; return k == "dplain" || k == "dopt" || k == "dmasked"; }
    bool is_mix(long long i) { const std::string& k = at(i).kind; return k == "mo" || k == "po"; }

    // compound assignment: destination lifted and writable, source of the same family or plain
    // the right operand is named as the event's category says: a const lvalue (cl), the register object itself, a
    // non-const lvalue (lv), or an rvalue (rv: a temporary copy of the register object, moved into the call)
    int ccat = 0;
    static int cat_of(const vj::value& a)
    {
        if (!a.has("cj")) return 0;
        const std::string& c = a.str("cj");
        if (c == "cl") return 0;
        if (c == "lv") return 1;
        if (c == "rv") return 2;
        script_error("bad value category", c);
    }
    template <class F, class A, class B> obs cassign(std::true_type, F& f, A& a, B& b)
    {
        if (ccat == 1) f(a, b);
        else if (ccat == 2) { std::decay_t<B> t(b); f(a, std::move(t)); }
        else f(a, static_cast<const B&>(b));
        return project(a);
    }
    template <class F, class A, class B> obs cassign(std::false_type, F&, A&, B&) { script_error("not a lifted compound assignment"); }
    template <bool EN, template <class...> class OK, class F> obs compoundT(long long i, long long j, F f)
    {
        return visit(i, [&](auto& a) {
            return this->visit(j, [&](auto& b) {
                using ok = std::integral_constant<bool, EN && OK<decltype(a), decltype(b)>::value && ki<decltype(a)>::fam != F_PLAIN && ki<decltype(a)>::writable>;
                return this->cassign(ok{}, f, a, b);
            });
        });
    }
    template <class F> obs compound(long long i, long long j, F f) { return compoundT<true, lifted_ok>(i, j, f); }
    template <class F> obs compound_mix(long long i, long long j, F f)
    {
        return visit_mix(i, [&](auto& a) {
            return this->visit_mix(j, [&](auto& b) {
                using ok = std::integral_constant<bool, std::is_same<std::decay_t<decltype(a)>, MO>::value>;
                return this->cassign(ok{}, f, a, b);
            });
        });
    }
    // double family: what the same compound assignment does to a plain double
    template <bool EN, class F> obs compound_d(long long i, long long j, F f)
    {
        int u = 0;
        visit(i, [&](auto& a) {
            return this->visit(j, [&](auto& b) {
                using ok = std::integral_constant<bool, EN && lifted_ok_d<decltype(a), decltype(b)>::value>;
                u = this->under_c(ok{}, f, a, b);
                return obs();
            });
        });
        obs o = compoundT<EN, lifted_ok_d>(i, j, f);
        o.u = u;
        return o;
    }
    template <class F, class A, class B> int under_c(std::true_type, F& f, A& a, B& b) { double x = raw(a); const double y = raw(b); f(x, y); return enc(x); }
    template <class F, class A, class B> int under_c(std::false_type, F&, A&, B&) { return 0; }

    // ---- reading one register through its public accessors
    template <class CT, class CB> static obs project(const xtl::xoptional<CT, CB>& x) { return obs("", bool(x.has_value()), num(x.value())); }
    template <class T, class B> static obs project(const xtl::xmasked_value<T, B>& x) { return obs("", bool(x.visible()), num(x.value())); }
    static obs project(const Probe& p) { return obs("", true, p.v); }
    static obs project(const int& p) { return obs("", true, p); }
    static obs project(const double& p) { return obs("", true, enc(p)); }

    std::string proj(long long i)
    {
        slot& s = at(i);
        obs o = s.kind == "po" ? obs("", true, num(*s.opt)) : visit(i, [&](auto& a) { return project(a); });
        vj::out w;
        w.ks("kind", s.kind).kb("has", o.has).kv("val", o.val);
        vj::out ref;
        ref.kb("has", s.fref() ? s.flagcell() : false).kv("val", s.vref() ? s.bv->v : 0).kb("g", s.guards_ok());
        w.kraw("ref", ref.obj());
        // the lowest register closing over the same value cell / flag cell
        long long av = i, af = i;
        for (long long k = (long long)r.size() - 1; k >= 1; --k)
        {
            slot& t = r[size_t(k)];
            if (s.vref() && t.vref() && t.bv == s.bv) av = k;
            if (s.fref() && t.fref() && !s.fbit() && !t.fbit() && t.bf == s.bf) af = k;
        }
        vj::out al;
        al.kv("v", av).kv("f", af);
        w.kraw("al", al.obj());
        return w.obj();
    }

    // ---- construction of a register
    obs load(long long i, const std::string& how, bool has, int v)
    {
        slot& s = at(i);
        s.clear();
        if (how == "plain") { s.kind = "plain"; s.pv = Probe(v); }
        else if (how == "int") { s.kind = "int"; s.iv = v; }
        else if (how == "opt2") { s.kind = "opt"; s.opt.reset(new Opt(Probe(v), bool(has))); }
        else if (how == "optref") { s.backing(v, has); s.kind = "optref"; s.oref.reset(new ORef(*s.bv, *s.bf)); }
        else if (how == "optcr") { s.backing(v, has); s.kind = "optcr"; s.ocref.reset(new OCRef(*s.bv, *s.bf)); }
        else if (how == "optvr") { s.backing(v, false); s.kind = "optvr"; s.ovref.reset(new OVRef(*s.bv, bool(has))); }
        else if (how == "optbr") { s.backing_bits(v, has); s.kind = "optbr"; s.obref.reset(new OBRef(*s.bv, (*s.bb)[1])); }
        else if (how == "masked2") { s.kind = "masked"; s.msk.reset(new Msk(Probe(v), bool(has))); }
        else if (how == "mref") { s.backing(v, has); s.kind = "mref"; s.mref.reset(new MRef(*s.bv, *s.bf)); }
        else if (how == "dplain") { s.kind = "dplain"; s.dv = dec(v); }
        else if (how == "dopt2") { s.kind = "dopt"; s.dopt.reset(new DOpt(dec(v), bool(has))); }
        else if (how == "dmasked2") { s.kind = "dmasked"; s.dmsk.reset(new DMsk(dec(v), bool(has))); }
        // a masked optional: v = NAV builds a missing inner optional
        else if (how == "mo2") { s.kind = "mo"; s.mo.reset(new MO(v == NAV ? Opt(Probe(0), false) : Opt(Probe(v), true), bool(has))); }
        else if (how == "po2") { s.kind = "po"; s.opt.reset(v == NAV ? new Opt(Probe(0), false) : new Opt(Probe(v), true)); }
#ifndef LIFTED_NO_HOUSE
        else if (how == "opt1") { s.kind = "opt"; s.opt.reset(new Opt(Probe(v))); }
        else if (how == "optdef") { s.kind = "opt"; s.opt.reset(new Opt()); }
        else if (how == "missing") { s.kind = "opt"; s.opt.reset(new Opt(xtl::missing<Probe>())); }
        else if (how == "optional_vv") { s.kind = "opt"; s.opt.reset(new Opt(xtl::optional(Probe(v), bool(has)))); }
        else if (how == "optional_rr") { s.backing(v, has); s.kind = "optref"; s.oref.reset(new ORef(xtl::optional(*s.bv, *s.bf))); }
        else if (how == "optional_rv") { s.backing(v, false); s.kind = "optvr"; s.ovref.reset(new OVRef(xtl::optional(*s.bv, bool(has)))); }
        else if (how == "masked1") { s.kind = "masked"; s.msk.reset(new Msk(Probe(v))); }
        else if (how == "maskeddef") { s.kind = "masked"; s.msk.reset(new Msk()); }
        else if (how == "maskedf") { s.kind = "masked"; s.msk.reset(new Msk(xtl::masked<Probe>())); }
        else if (how == "masked_value1") { s.kind = "masked"; s.msk.reset(new Msk(xtl::masked_value(Probe(v)))); }
        else if (how == "masked_value2") { s.kind = "masked"; s.msk.reset(new Msk(xtl::masked_value(Probe(v), bool(has)))); }
        else if (how == "masked_value_rr") { s.backing(v, has); s.kind = "mref"; s.mref.reset(new MRef(xtl::masked_value(*s.bv, *s.bf))); }
        // converting constructors: a value closure from a temporary of another closure type (copy and move form)
        else if (how == "opt_from_ref") { Probe pv(v); bool pf = has; ORef src(pv, pf); s.kind = "opt"; s.opt.reset(new Opt(xtl::as_const(src))); }
        else if (how == "opt_from_cref") { Probe pv(v); bool pf = has; OCRef src(pv, pf); s.kind = "opt"; s.opt.reset(new Opt(src)); }
        else if (how == "opt_from_vr") { Probe pv(v); OVRef src(pv, bool(has)); s.kind = "opt"; s.opt.reset(new Opt(std::move(src))); }
        else if (how == "opt_from_int") { xtl::xoptional<int, bool> src{int(v), bool(has)}; s.kind = "opt"; s.opt.reset(new Opt(src)); }
        else if (how == "opt_from_intmv") { xtl::xoptional<int, bool> src{int(v), bool(has)}; s.kind = "opt"; s.opt.reset(new Opt(std::move(src))); }
#endif
        else script_error("unknown load", how);
        obs o = s.kind == "po" ? obs("", true, num(*s.opt)) : visit(i, [&](auto& a) { return project(a); });
        o.kind = s.kind.c_str();
        return o;
    }
    // register i becomes a reference closure over the backing cells of register j
    obs alias(long long i, const std::string& how, long long j, bool has)
    {
        if (i == j) script_error("alias of itself");
        slot& s = at(i);
        slot& t = at(j);
        if (!t.vref()) script_error("alias needs a reference kind as its source");
        std::shared_ptr<Probe> bv = t.bv;
        std::shared_ptr<bool> bf = t.bf;
        bool tf = t.fref() && !t.fbit();
        s.clear();
        s.bv = bv;
        if (how == "optvr") { s.bf.reset(new bool(false)); s.kind = "optvr"; s.ovref.reset(new OVRef(*s.bv, bool(has))); }
        else
        {
            if (!tf) script_error("flag alias needs a source whose flag is a reference");
            s.bf = bf;
            if (how == "optref") { s.kind = "optref"; s.oref.reset(new ORef(*s.bv, *s.bf)); }
            else if (how == "optcr") { s.kind = "optcr"; s.ocref.reset(new OCRef(*s.bv, *s.bf)); }
            else if (how == "mref") { s.kind = "mref"; s.mref.reset(new MRef(*s.bv, *s.bf)); }
            else script_error("unknown alias", how);
        }
        obs o = visit(i, [&](auto& a) { return project(a); });
        o.kind = s.kind.c_str();
        return o;
    }

    // ---- accessors
    template <class CT, class CB> static obs get_member(const xtl::xoptional<CT, CB>& x) { return obs("get", bool(x.has_value()), num(x.value())); }
    template <class T, class B> static obs get_member(const xtl::xmasked_value<T, B>& x) { return obs("get", bool(x.visible()), num(x.value())); }
    template <class T> static obs get_member(const T&) { script_error("no member accessors on a plain operand"); }
#ifndef LIFTED_NO_HOUSE
    template <class CT, class CB> static obs get_free(xtl::xoptional<CT, CB>& x) { return obs("get", bool(xtl::has_value(x)), num(xtl::value(x))); }
    static obs get_free(Probe& x) { return obs("get", bool(xtl::has_value(x)), xtl::value(x).v); }
    template <class T> static obs get_free(T&) { script_error("free accessors are defined for xoptional and plain values"); }
    template <class CT, class CB> static obs get_rvalue(const xtl::xoptional<CT, CB>& x)
    {
        xtl::xoptional<CT, CB> c1(x), c2(x);
        return obs("get", bool(std::move(c1).has_value()), num(std::decay_t<CT>(std::move(c2).value())));
    }
    template <class T, class B> static obs get_rvalue(const xtl::xmasked_value<T, B>& x)
    {
        // (copies are taken from a const lvalue: the copy constructor, not the converting template)
        xtl::xmasked_value<T, B> c1(x), c2(x);
        return obs("get", bool(std::move(c1).visible()), num(std::decay_t<T>(std::move(c2).value())));
    }
    static obs get_rvalue(const Probe&) { script_error("no rvalue accessors on a plain operand"); }
    static obs get_rvalue(const int&) { script_error("no rvalue accessors on a plain operand"); }
    static obs get_rvalue(const double&) { script_error("no rvalue accessors on a plain operand"); }
    // xmasked_value converts implicitly to its value type
    template <class T, class B> static obs get_conv(xtl::xmasked_value<T, B>& x) { std::decay_t<T> p = x; return obs("get", bool(x.visible()), num(p)); }
    template <class T> static obs get_conv(T&) { script_error("conversion accessor is defined for xmasked_value"); }
    // operator<< : "N/A" / "masked" for a missing value, the value's own text otherwise
    static obs parse_stream(const std::string& t)
    {
        if (t == "N/A" || t == "masked") return obs("get", false, 0);
        if (t == "nan" || t == "-nan") return obs("get", true, NANV);
        char* end = nullptr;
        double d = std::strtod(t.c_str(), &end);
        if (end == t.c_str() || *end) return obs("get", true, NONINT);
        return obs("get", true, enc(d));
    }
    template <class X> static obs stream_of(const X& x) { std::ostringstream os; os.precision(17); os << x; return parse_stream(os.str()); }
    template <class CT, class CB> static obs get_stream(const xtl::xoptional<CT, CB>& x) { return stream_of(x); }
    template <class T, class B> static obs get_stream(const xtl::xmasked_value<T, B>& x) { return stream_of(x); }
    template <class T> static obs get_stream(const T&) { script_error("stream accessor is defined for lifted operands"); }

    template <class CT, class CB> static void set_flag(xtl::xoptional<CT, CB>& x, bool b) { x.has_value() = b; }
    template <class T, class B> static void set_flag(xtl::xmasked_value<T, B>& x, bool b) { x.visible() = b; }
    static void set_flag(OCRef&, bool) { script_error("const closure"); }
    template <class T> static void set_flag(T&, bool) { script_error("plain operands have no flag"); }

    template <class CT, class CB> static void set_val(xtl::xoptional<CT, CB>& x, int v) { put(x.value(), v); }
    template <class T, class B> static void set_val(xtl::xmasked_value<T, B>& x, int v) { put(x.value(), v); }
    static void set_val(OCRef&, int) { script_error("const closure"); }
    static void set_val(MO&, int) { script_error("SetVal is not scripted for masked optionals"); }
    static void set_val(Probe& x, int v) { x = Probe(v); }
    static void set_val(int& x, int v) { x = v; }
    static void set_val(double& x, int v) { x = dec(v); }

    // plain assignment of a value / of another register
    template <class A> static void assign_val(std::true_type, A& a, int v) { typename ki<A>::vtype t; put(t, v); a = t; }
    template <class A> static void assign_val(std::false_type, A&, int) { script_error("AssignVal needs a writable lifted destination"); }
    template <class A, class B> static obs assign_reg(std::true_type, A& a, const B& b) { a = b; return VOID_OBS; }
    template <class A, class B> static obs assign_reg(std::false_type, A&, const B&) { return ABSENT; }   // this tree does not accept the assignment

    template <class A> static void swap_member(std::true_type, A& a, A& b) { a.swap(b); }
    template <class A> static void swap_member(std::false_type, A&, A&) { script_error("swap: not swappable"); }
    template <class A> static void swap_free(std::true_type, A& a, A& b) { swap(a, b); }
    template <class A> static void swap_free(std::false_type, A&, A&) { script_error("free swap is defined for xmasked_value"); }
#endif

    // the table-driven dispatchers (defined after the class; compiled as separate parts, see LIFTED_PART)
    obs do_unary(const std::string& f, long long i, long long d);
    obs do_binary(const std::string& f, long long i, long long j, long long d);
    obs do_binary_fun(const std::string& f, long long i, long long j, long long d);
    obs do_compare(const std::string& f, long long i, long long j);
    obs do_ternary(const std::string& f, long long i, long long j, long long k, long long d);
    obs do_compound(const std::string& f, long long i, long long j);
    // the same calls on double-valued registers
    obs do_unary_d(const std::string& f, long long i);
    obs do_binary_d(const std::string& f, long long i, long long j);
    obs do_compare_d(const std::string& f, long long i, long long j);
    obs do_ternary_d(const std::string& f, long long i, long long j, long long k);
    obs do_compound_d(const std::string& f, long long i, long long j);
    // ... and on masked optionals
    obs do_unary_mix(const std::string& f, long long i, long long d);
    obs do_binary_mix(const std::string& f, long long i, long long j, long long d);
    obs do_ternary_mix(const std::string& f, long long i, long long j, long long k, long long d);
    obs do_compound_mix(const std::string& f, long long i, long long j);

    // ---- one script event; returns the observation
    obs step(const vj::value& e)
    {
        const std::string& op = e.str("op");
        const vj::value& a = e.at("a");
        if (op == "Reset")
        {
            long long n = a.num("n");
            r.clear();
            r.resize(size_t(n) + 1);
            pr::counter() = 0;
            return VOID_OBS;
        }
        if (op == "Load") return load(a.num("i"), a.str("how"), a.at("has").b, int(a.num("v")));
        if (op == "Alias") return alias(a.num("i"), a.str("how"), a.num("j"), a.at("has").b);
        if (op == "Unary")
        {
            long long i = a.num("i");
            return is_d(i) ? do_unary_d(a.str("f"), i) : is_mix(i) ? do_unary_mix(a.str("f"), i, a.num("d")) : do_unary(a.str("f"), i, a.num("d"));
        }
        if (op == "Binary")
        {
            long long i = a.num("i"), j = a.num("j");
            if (is_d(i) || is_d(j)) return do_binary_d(a.str("f"), i, j);
            if (is_mix(i) || is_mix(j)) return do_binary_mix(a.str("f"), i, j, a.num("d"));
            return do_binary(a.str("f"), i, j, a.num("d"));
        }
        if (op == "Compare")
        {
            long long i = a.num("i"), j = a.num("j");
            if (is_d(i) || is_d(j)) return do_compare_d(a.str("f"), i, j);
            if (is_mix(i) || is_mix(j)) return do_binary_mix(a.str("f"), i, j, 0);
            return do_compare(a.str("f"), i, j);
        }
        if (op == "Ternary")
        {
            long long i = a.num("i"), j = a.num("j"), k = a.num("k");
            if (is_d(i) || is_d(j) || is_d(k)) return do_ternary_d(a.str("f"), i, j, k);
            if (is_mix(i) || is_mix(j) || is_mix(k)) return do_ternary_mix(a.str("f"), i, j, k, a.num("d"));
            return do_ternary(a.str("f"), i, j, k, a.num("d"));
        }
        if (op == "Compound")
        {
            long long i = a.num("i"), j = a.num("j");
            ccat = cat_of(a);
            if (is_d(i) || is_d(j)) return do_compound_d(a.str("f"), i, j);
            if (is_mix(i) || is_mix(j)) return do_compound_mix(a.str("f"), i, j);
            return do_compound(a.str("f"), i, j);
        }
        if (op == "Select")
        {
            const vj::value& c = a.at("c");
            long long i = a.num("i"), j = a.num("j"), d = a.num("d");
            bool lifted = c.at("lifted").b, chas = c.at("has").b, cval = c.at("val").b;
            if (is_mix(i) || is_mix(j)) script_error("select is not scripted for masked optionals");
            return visit(i, [&](auto& x) {
                return this->visit(j, [&](auto& y) {
                    using P = pat<decltype(x), decltype(y)>;
                    constexpr bool onetype = (P::alld || !P::anyd) && !P::anymo;                  // one value type per call
                    using okl = std::integral_constant<bool, !P::msk && !P::allint && onetype>;   // condition is an xoptional<bool>
                    using okp = std::integral_constant<bool, !P::msk && P::opt && onetype>;       // condition is a plain bool
                    if (lifted)
                    {
                        auto f = [&](const auto& u, const auto& v) { return xtl::select(xtl::xoptional<bool, bool>(bool(cval), bool(chas)), u, v); };
                        return this->call(okl{}, d, f, x, y);
                    }
                    auto f = [&](const auto& u, const auto& v) { return xtl::select(bool(cval), u, v); };
                    return this->call(okp{}, d, f, x, y);
                });
            });
        }
        if (op == "ValueOr")
        {
            long long i = a.num("i");
            int dv = int(a.num("dv"));
            if (is_mix(i)) script_error("value_or is not scripted for masked optionals");
            // form lv: x.value_or(d) on the register itself; rv: on an rvalue (a moved temporary copy); crv: on a const rvalue
            const std::string form = a.has("form") ? a.str("form") : std::string("lv");
            return visit(i, [&](auto& x) {
                using ok = std::integral_constant<bool, ki<decltype(x)>::fam == F_OPT>;
                auto f = [&](const auto& u) {
                    typename ki<decltype(u)>::vtype t; put(t, dv);
                    using U = std::decay_t<decltype(u)>;
                    if (form == "rv") { U c(u); return std::move(c).value_or(t); }
                    if (form == "crv") { const U c(u); return std::move(c).value_or(t); }
                    return u.value_or(t);
                };
                return this->call(ok{}, 0, f, x);
            });
        }
        if (op == "Get" && a.str("path") == "member")
        {
            long long i = a.num("i");
            if (at(i).kind == "po") return obs("get", true, num(*at(i).opt));
            return visit(i, [&](auto& x) { return get_member(x); });
        }
#ifndef LIFTED_NO_HOUSE
        if (op == "Get")
        {
            const std::string& path = a.str("path");
            long long i = a.num("i");
            if (is_mix(i)) script_error("only the member accessors are scripted for masked optionals");
            return visit(i, [&](auto& x) {
                if (path == "free") return get_free(x);
                if (path == "rvalue") return get_rvalue(x);
                if (path == "conv") return get_conv(x);
                if (path == "stream") return get_stream(x);
                script_error("bad Get path", path);
            });
        }
        if (op == "SetFlag")
        {
            long long i = a.num("i");
            bool b = a.at("b").b;
            return visit(i, [&](auto& x) { set_flag(x, b); return VOID_OBS; });
        }
        if (op == "SetVal")
        {
            long long i = a.num("i");
            int v = int(a.num("v"));
            return visit(i, [&](auto& x) { set_val(x, v); return VOID_OBS; });
        }
        if (op == "AssignVal")
        {
            long long i = a.num("i");
            int v = int(a.num("v"));
            if (is_mix(i)) script_error("AssignVal is not scripted for masked optionals");
            return visit(i, [&](auto& x) {
                using ok = std::integral_constant<bool, ki<decltype(x)>::fam != F_PLAIN && ki<decltype(x)>::writable && !pat<decltype(x)>::anymo>;
                assign_val(ok{}, x, v);
                return VOID_OBS;
            });
        }
        if (op == "AssignReg")
        {
            long long i = a.num("i"), j = a.num("j");
            if (is_mix(i) || is_mix(j)) script_error("AssignReg is not scripted for masked optionals");
            return visit(i, [&](auto& x) {
                return this->visit(j, [&](auto& y) {
                    using X = std::decay_t<decltype(x)>;
                    using Y = std::decay_t<decltype(y)>;
                    // what the script may ask for (the spec's enabling condition) ...
                    constexpr bool wanted = ki<X>::fam != F_PLAIN && ki<X>::fam == ki<Y>::fam && ki<X>::isd == ki<Y>::isd && ki<X>::writable && !pat<X, Y>::anymo;
                    if (!wanted) script_error("AssignReg: not a pair the spec enables");
                    // ... and whether this tree accepts it
                    using ok = std::integral_constant<bool, wanted && std::is_assignable<X&, const Y&>::value>;
                    return assign_reg(ok{}, x, y);
                });
            });
        }
        if (op == "Swap")
        {
            long long i = a.num("i"), j = a.num("j");
            const std::string& how = a.str("how");
            slot& si = at(i);
            slot& sj = at(j);
            if (si.kind != sj.kind) script_error("swap needs two registers of the same kind");
            if (is_mix(i)) script_error("Swap is not scripted for masked optionals");
            return visit(i, [&](auto& x) {
                using X = std::decay_t<decltype(x)>;
                // the second operand has the same static type: fetch it through the same accessor
                X* other = nullptr;
                this->visit(j, [&](auto& y) { other = pick_same<X>(std::is_same<X, std::decay_t<decltype(y)>>{}, y); return obs(); });
                if (!other) script_error("swap: kinds differ");
                using okm = std::integral_constant<bool, ki<X>::fam != F_PLAIN && ki<X>::writable>;
                using okf = std::integral_constant<bool, ki<X>::fam == F_MSK>;
                if (how == "member") swap_member(okm{}, x, *other);
                else if (how == "free") swap_free(okf{}, x, *other);
                else script_error("bad swap", how);
                return VOID_OBS;
            });
        }
#else
        if (op == "Get" || op == "SetFlag" || op == "SetVal" || op == "AssignVal" || op == "AssignReg" || op == "Swap") return ABSENT;
#endif
        if (op == "Poke")
        {
            // writes the referents of a reference closure directly (not through xtl)
            slot& s = at(a.num("i"));
            if (!s.bv) script_error("Poke needs a reference kind");
            *s.bv = Probe(int(a.num("v")));
            if (s.fbit()) (*s.bb)[1] = a.at("has").b;
            else if (s.kind != "optvr") *s.bf = a.at("has").b;
            return VOID_OBS;
        }
        script_error("unknown op", op);
    }
    template <class X> static X* pick_same(std::true_type, X& y) { return std::addressof(y); }   // xoptional overloads unary &
    template <class X, class Y> static X* pick_same(std::false_type, Y&) { return nullptr; }

    int run()
    {
        std::string line;
        r.resize(4);
        while (std::getline(std::cin, line))
        {
            if (line.empty()) continue;
            vj::value e = vj::parse(line);
            long long before = pr::counter();
            // a call that does not return within its CPU budget ends the trace with a Crash event
            struct itimerval tv; std::memset(&tv, 0, sizeof tv); tv.it_value.tv_sec = 5;
            setitimer(ITIMER_VIRTUAL, &tv, nullptr);
            obs o = step(e);
            long long delta = e.str("op") == "Reset" ? 0 : pr::counter() - before;
            vj::out res;
            res.ks("kind", o.kind).kb("has", o.has).kv("val", o.val).kv("d", delta).kv("u", o.u);
            std::string st = "{\"r\":[";
            for (size_t i = 1; i < r.size(); ++i) { if (i > 1) st += ','; st += proj((long long)i); }
            st += "],\"evals\":" + std::to_string(pr::counter()) + "}";
            std::string head = line.substr(0, line.rfind('}'));
            std::fputs((head + ",\"res\":" + res.obj() + ",\"st\":" + st + "}\n").c_str(), stdout);
        }
        return 0;
    }
};

// ---------------------------------------------------------------- table-driven dispatch
// The driver can be compiled as one translation unit, or (faster) as eight with -DLIFTED_PART=0..7.
#ifndef LIFTED_PART
#define LIFTED_ALL_PARTS 1
#define LIFTED_PART (-1)
#endif
// the lifted <cmath> names are called unqualified, as a user would after `using namespace std`: for a lifted
// operand ADL finds xtl's overload, for a plain double (the "underlying operation" of the double family) std's
#define USTD(name) using std::name;

#if defined(LIFTED_ALL_PARTS) || LIFTED_PART == 4
obs machine::do_unary(const std::string& f, long long i, long long d)
{
#define L_UNOP(name, tok, code, res) if (f == #name) return unary(i, d, [](const auto& x) { return tok x; });
#define L_UFUN(name, code) if (f == #name) return unary(i, d, [](const auto& x) { return name(x); });
#define L_UPRED(name, code) if (f == #name) return unary(i, d, [](const auto& x) { return name(x); });
#include LIFTED_OPS_DEF
    script_error("unknown unary", f);
}
obs machine::do_compare(const std::string& f, long long i, long long j)
{
#define L_CMPOP(name, tok, code) if (f == #name) return binary(i, j, 0, [](const auto& x, const auto& y) { return x tok y; });
#include LIFTED_OPS_DEF
    script_error("unknown comparison", f);
}
#endif

#if defined(LIFTED_ALL_PARTS) || LIFTED_PART == 5
// double-valued registers: real IEEE operands through the same lifted overloads, every operation that exists for doubles
obs machine::do_unary_d(const std::string& f, long long i)
{
#define L_UNOP(name, tok, code, res) if (f == #name) return unary_d<!int_only(#name)>(i, [](const auto& x) { return tok x; });
#define L_UFUN(name, code) if (f == #name) return unary_d<true>(i, [](const auto& x) { USTD(name) return name(x); });
#define L_UPRED(name, code) if (f == #name) return unary_d<true>(i, [](const auto& x) { USTD(name) return name(x); });
#include LIFTED_OPS_DEF
    script_error("unknown unary", f);
}
#endif

#if defined(LIFTED_ALL_PARTS) || LIFTED_PART == 6
obs machine::do_binary_d(const std::string& f, long long i, long long j)
{
#define L_BINOP(name, tok, code, res, sem) if (f == #name) return binary_d<!int_only(#name)>(i, j, [](const auto& x, const auto& y) { return x tok y; });
#define L_BFUN(name, code) if (f == #name) return binary_d<true>(i, j, [](const auto& x, const auto& y) { USTD(name) return name(x, y); });
#include LIFTED_OPS_DEF
    script_error("unknown binary", f);
}
obs machine::do_compare_d(const std::string& f, long long i, long long j)
{
#define L_CMPOP(name, tok, code) if (f == #name) return binary_d<true>(i, j, [](const auto& x, const auto& y) { return x tok y; });
#include LIFTED_OPS_DEF
    script_error("unknown comparison", f);
}
#endif

#if defined(LIFTED_ALL_PARTS) || LIFTED_PART == 0
obs machine::do_ternary_d(const std::string& f, long long i, long long j, long long k)
{
#define L_TFUN(name, code) if (f == #name) return ternary_d<true>(i, j, k, [](const auto& x, const auto& y, const auto& z) { USTD(name) return name(x, y, z); });
#include LIFTED_OPS_DEF
    script_error("unknown ternary", f);
}
obs machine::do_compound_d(const std::string& f, long long i, long long j)
{
    obs o;
#define L_ASGOP(name, tok, base) if (f == #name) { o = compound_d<!int_only(#name)>(i, j, [](auto& x, auto&& y) { x tok std::forward<decltype(y)>(y); }); o.kind = at(i).kind.c_str(); return o; }
#include LIFTED_OPS_DEF
    script_error("unknown compound assignment", f);
}
#endif

#if defined(LIFTED_ALL_PARTS) || LIFTED_PART == 7
// masked optionals: xmasked_value<xoptional<Probe>> with bare xoptional<Probe> in the place of the plain scalar
obs machine::do_unary_mix(const std::string& f, long long i, long long d)
{
#define L_UNOP(name, tok, code, res) if (f == #name) return unary_mix(i, d, [](const auto& x) { return tok x; });
#define L_UFUN(name, code) if (f == #name) return unary_mix(i, d, [](const auto& x) { return name(x); });
#define L_UPRED(name, code) if (f == #name) return unary_mix(i, d, [](const auto& x) { return name(x); });
#include LIFTED_OPS_DEF
    script_error("unknown unary", f);
}
obs machine::do_binary_mix(const std::string& f, long long i, long long j, long long d)
{
#define L_BINOP(name, tok, code, res, sem) if (f == #name) return binary_mix(i, j, d, [](const auto& x, const auto& y) { return x tok y; });
#define L_CMPOP(name, tok, code) if (f == #name) return binary_mix(i, j, 0, [](const auto& x, const auto& y) { return x tok y; });
#define L_BFUN(name, code) if (f == #name) return binary_mix(i, j, d, [](const auto& x, const auto& y) { return name(x, y); });
#include LIFTED_OPS_DEF
    script_error("unknown binary", f);
}
obs machine::do_ternary_mix(const std::string& f, long long i, long long j, long long k, long long d)
{
#define L_TFUN(name, code) if (f == #name) return ternary_mix(i, j, k, d, [](const auto& x, const auto& y, const auto& z) { return name(x, y, z); });
#include LIFTED_OPS_DEF
    script_error("unknown ternary", f);
}
obs machine::do_compound_mix(const std::string& f, long long i, long long j)
{
    obs o;
#define L_ASGOP(name, tok, base) if (f == #name) { o = compound_mix(i, j, [](auto& x, auto&& y) { x tok std::forward<decltype(y)>(y); }); o.kind = at(i).kind.c_str(); return o; }
#include LIFTED_OPS_DEF
    script_error("unknown compound assignment", f);
}
#endif

#if defined(LIFTED_ALL_PARTS) || LIFTED_PART == 1
obs machine::do_binary(const std::string& f, long long i, long long j, long long d)
{
#define L_BINOP(name, tok, code, res, sem) if (f == #name) return binary(i, j, d, [](const auto& x, const auto& y) { return x tok y; });
#include LIFTED_OPS_DEF
    return do_binary_fun(f, i, j, d);
}
#endif

#if defined(LIFTED_ALL_PARTS) || LIFTED_PART == 2
obs machine::do_binary_fun(const std::string& f, long long i, long long j, long long d)
{
#define L_BFUN(name, code) if (f == #name) return binary(i, j, d, [](const auto& x, const auto& y) { return name(x, y); });
#include LIFTED_OPS_DEF
    script_error("unknown binary", f);
}
obs machine::do_compound(const std::string& f, long long i, long long j)
{
    obs o;
#define L_ASGOP(name, tok, base) if (f == #name) { o = compound(i, j, [](auto& x, auto&& y) { x tok std::forward<decltype(y)>(y); }); o.kind = at(i).kind.c_str(); return o; }
#include LIFTED_OPS_DEF
    script_error("unknown compound assignment", f);
}
#endif

#if defined(LIFTED_ALL_PARTS) || LIFTED_PART == 3
obs machine::do_ternary(const std::string& f, long long i, long long j, long long k, long long d)
{
#define L_TFUN(name, code) if (f == #name) return ternary(i, j, k, d, [](const auto& x, const auto& y, const auto& z) { return name(x, y, z); });
#include LIFTED_OPS_DEF
    script_error("unknown ternary", f);
}
#endif

#if defined(LIFTED_ALL_PARTS) || LIFTED_PART == 0
static void on_cpu_limit(int)
{
    std::fflush(stdout);
    vj::crash_line("cpu-limit");
    _exit(0);
}
int main()
{
    vj::install_crash_handlers();
    std::signal(SIGVTALRM, on_cpu_limit);
    return machine().run();
}
#endif

// C04 conformance harness: a register machine over real xtl::xoptional / xtl::xmasked_value
// objects whose value type is the instrumented operand type pr::Probe (probe.hpp).
//
// Reads a script (ndjson, one call per line: {"op":..,"a":{..}}) on stdin, performs the call on the
// real xtl objects, and prints the same line extended with
//   "res": {"kind","has","val","d"}  what the call returned (d = number of Probe operations the call
//                                     evaluated: the delta of the global evaluation counter)
//   "st":  {"r":[{"kind","has","val","ref":{"has","val"}}...], "evals":n}   all registers afterwards
// It contains no oracle: it executes and prints.  Every operator / <cmath> name comes from the shared
// operation table ops.def; the overload that is called for a given (operation, kinds of the operand
// registers) is chosen by the C++ compiler exactly as in user code.
//
// Register kinds:
//   plain   pr::Probe                                   int     a raw int (converted by xtl's overloads)
//   opt     xoptional<Probe, bool>                      optref  xoptional<Probe&, bool&>
//   optcr   xoptional<const Probe&, const bool&>        optvr   xoptional<Probe&, bool>
//   masked  xmasked_value<Probe, bool>                  mref    xmasked_value<Probe&, bool&>
//   dplain  double        dopt  xoptional<double, bool>        dmasked xmasked_value<double, bool>
//           (real IEEE operands: small integers and NaN, written as NANV; only operations whose result on
//            such operands is again an integer, NaN or a bool are dispatched to them)
// Reference kinds close over per-register backing cells (heap allocated, so ASan sees stray accesses);
// "ref" in the projection is the content of those cells read directly.
#include <xtl/xoptional.hpp>
#include <xtl/xmasked_value.hpp>
#include "probe.hpp"
#if defined(LIFTED_PART) && LIFTED_PART != 0
// vjson.hpp defines the (non-inline) ASan hook; only part 0 of a multi-part build may define the real one
#define VJ_CAT2(a, b) a##b
#define VJ_CAT(a, b) VJ_CAT2(a, b)
#define __asan_on_error VJ_CAT(lifted_unused_asan_hook_, LIFTED_PART)
#include "vjson.hpp"
#undef __asan_on_error
#else
#include "vjson.hpp"
#endif
#include <iostream>
#include <memory>
#include <string>
#include <type_traits>
#include <cmath>
#include <limits>

using pr::Probe;
using Opt = xtl::xoptional<Probe, bool>;
using ORef = xtl::xoptional<Probe&, bool&>;
using OCRef = xtl::xoptional<const Probe&, const bool&>;
using OVRef = xtl::xoptional<Probe&, bool>;
using Msk = xtl::xmasked_value<Probe, bool>;
using MRef = xtl::xmasked_value<Probe&, bool&>;
using DOpt = xtl::xoptional<double, bool>;
using DMsk = xtl::xmasked_value<double, bool>;

// doubles in the trace: integers as themselves, NaN as NANV, anything else as NONINT
constexpr int NANV = 2147480000, NONINT = 2147480001;
static int enc(double x)
{
    if (std::isnan(x)) return NANV;
    if (x == std::floor(x) && std::fabs(x) <= 2000000000.0) return int(x);
    return NONINT;
}
static double dec(long long v) { return v == NANV ? std::numeric_limits<double>::quiet_NaN() : double(v); }
// the numeric content of a value of either value type
static int num(const Probe& p) { return p.v; }
static int num(const int& p) { return p; }
static int num(const double& p) { return enc(p); }
static void put(Probe& p, long long v) { p = Probe(int(v)); }
static void put(int& p, long long v) { p = int(v); }
static void put(double& p, long long v) { p = dec(v); }

[[noreturn]] static void script_error(const char* what, const std::string& detail = "")
{
    std::fprintf(stderr, "script: %s %s\n", what, detail.c_str());
    std::exit(3);
}

// ---------------------------------------------------------------- static description of the kinds
enum fam_t { F_PLAIN = 0, F_OPT = 1, F_MSK = 2 };
template <class T> struct kinfo;
template <class V, int F, bool W, bool I, bool D> struct kbase { using vtype = V; static constexpr int fam = F; static constexpr bool writable = W, is_int = I, isd = D; };
template <> struct kinfo<Probe> : kbase<Probe, F_PLAIN, true, false, false> {};
template <> struct kinfo<int>   : kbase<Probe, F_PLAIN, true, true, false> {};
template <> struct kinfo<Opt>   : kbase<Probe, F_OPT, true, false, false> {};
template <> struct kinfo<ORef>  : kbase<Probe, F_OPT, true, false, false> {};
template <> struct kinfo<OCRef> : kbase<Probe, F_OPT, false, false, false> {};
template <> struct kinfo<OVRef> : kbase<Probe, F_OPT, true, false, false> {};
template <> struct kinfo<Msk>   : kbase<Probe, F_MSK, true, false, false> {};
template <> struct kinfo<MRef>  : kbase<Probe, F_MSK, true, false, false> {};
template <> struct kinfo<double> : kbase<double, F_PLAIN, true, false, true> {};
template <> struct kinfo<DOpt>  : kbase<double, F_OPT, true, false, true> {};
template <> struct kinfo<DMsk>  : kbase<double, F_MSK, true, false, true> {};
template <class T> using ki = kinfo<std::decay_t<T>>;

// a lifted call exists for an operand pattern iff at least one operand is lifted and the
// xoptional and xmasked_value families are not mixed
template <class... A> struct pat;
template <> struct pat<> { static constexpr bool opt = false, msk = false, allint = true, anyd = false, alld = true; };
template <class A, class... R> struct pat<A, R...>
{
    static constexpr bool opt = ki<A>::fam == F_OPT || pat<R...>::opt;
    static constexpr bool msk = ki<A>::fam == F_MSK || pat<R...>::msk;
    static constexpr bool allint = ki<A>::is_int && pat<R...>::allint;
    static constexpr bool anyd = ki<A>::isd || pat<R...>::anyd;      // some operand is double-valued
    static constexpr bool alld = ki<A>::isd && pat<R...>::alld;
};
// (table-driven dispatch is for the Probe-valued kinds; the double-valued ones have their own short list)
template <class... A> using lifted_ok = std::integral_constant<bool, (pat<A...>::opt != pat<A...>::msk) && !pat<A...>::anyd>;
template <class... A> using lifted_ok_d = std::integral_constant<bool, (pat<A...>::opt != pat<A...>::msk) && pat<A...>::alld>;

// ---------------------------------------------------------------- observations
struct obs
{
    const char* kind;
    bool has;
    int val;
};
static obs cap(const Opt& x) { return {"opt", x.has_value(), x.value().v}; }
static obs cap(const xtl::xoptional<bool, bool>& x) { return {"optb", x.has_value(), x.value() ? 1 : 0}; }
static obs cap(const Msk& x) { return {"masked", x.visible(), x.value().v}; }
static obs cap(const xtl::xmasked_value<bool, bool>& x) { return {"maskedb", x.visible(), x.value() ? 1 : 0}; }
static obs cap(const bool& b) { return {"bool", true, b ? 1 : 0}; }
static obs cap(const Probe& p) { return {"plain", true, p.v}; }
static obs cap(const DOpt& x) { return {"dopt", x.has_value(), enc(x.value())}; }
static obs cap(const DMsk& x) { return {"dmasked", x.visible(), enc(x.value())}; }
static obs cap(const double& p) { return {"dplain", true, enc(p)}; }

// ---------------------------------------------------------------- registers
struct slot
{
    std::string kind = "plain";
    Probe pv;
    int iv = 0;
    std::unique_ptr<Opt> opt;
    std::unique_ptr<ORef> oref;
    std::unique_ptr<OCRef> ocref;
    std::unique_ptr<OVRef> ovref;
    std::unique_ptr<Msk> msk;
    std::unique_ptr<MRef> mref;
    double dv = 0;
    std::unique_ptr<DOpt> dopt;
    std::unique_ptr<DMsk> dmsk;
    std::unique_ptr<Probe> bv;   // backing cells of the reference kinds
    std::unique_ptr<bool> bf;

    void clear()
    {
        opt.reset(); oref.reset(); ocref.reset(); ovref.reset(); msk.reset(); mref.reset();
        dopt.reset(); dmsk.reset(); bv.reset(); bf.reset();
        pv = Probe(0); iv = 0; dv = 0; kind = "plain";
    }
    void backing(int v, bool h) { bv.reset(new Probe(v)); bf.reset(new bool(h)); }
};

struct machine
{
    std::vector<slot> r;   // r[0] unused; registers are 1-based as in the spec

    slot& at(long long i)
    {
        if (i < 1 || i >= (long long)r.size()) script_error("register out of range");
        return r[size_t(i)];
    }

    // call f on the real object held by register i
    template <class F> obs visit(long long i, F&& f)
    {
        slot& s = at(i);
        if (s.kind == "plain") return f(s.pv);
        if (s.kind == "int") return f(s.iv);
        if (s.kind == "opt") return f(*s.opt);
        if (s.kind == "optref") return f(*s.oref);
        if (s.kind == "optcr") return f(*s.ocref);
        if (s.kind == "optvr") return f(*s.ovref);
        if (s.kind == "masked") return f(*s.msk);
        if (s.kind == "mref") return f(*s.mref);
        if (s.kind == "dplain") return f(s.dv);
        if (s.kind == "dopt") return f(*s.dopt);
        if (s.kind == "dmasked") return f(*s.dmsk);
        script_error("bad kind", s.kind);
    }

    // ---- storing a result into register d (0 = discard)
    void store(long long d, const Opt& x) { slot& s = at(d); s.clear(); s.kind = "opt"; s.opt.reset(new Opt(x)); }
    void store(long long d, const Msk& x) { slot& s = at(d); s.clear(); s.kind = "masked"; s.msk.reset(new Msk(x)); }
    template <class T> void store(long long, const T&) { script_error("this result type cannot be stored in a register"); }

    template <class R> obs finish(long long d, const R& result)
    {
        obs o = cap(result);
        if (d != 0) store(d, result);
        return o;
    }

    // ---- guarded calls: the generic lambda body is only instantiated for patterns xtl lifts
    template <class F, class... A> obs call(std::true_type, long long d, F& f, A&... a) { return finish(d, f(a...)); }
    template <class F, class... A> obs call(std::false_type, long long, F&, A&...) { script_error("operand pattern is not a lifted call"); }

    template <template <class...> class OK, class F> obs unaryT(long long i, long long d, F f)
    {
        return visit(i, [&](auto& a) { return this->call(OK<decltype(a)>{}, d, f, a); });
    }
    template <template <class...> class OK, class F> obs binaryT(long long i, long long j, long long d, F f)
    {
        return visit(i, [&](auto& a) {
            return this->visit(j, [&](auto& b) { return this->call(OK<decltype(a), decltype(b)>{}, d, f, a, b); });
        });
    }
    template <template <class...> class OK, class F> obs ternaryT(long long i, long long j, long long k, long long d, F f)
    {
        return visit(i, [&](auto& a) {
            return this->visit(j, [&](auto& b) {
                return this->visit(k, [&](auto& c) {
                    return this->call(OK<decltype(a), decltype(b), decltype(c)>{}, d, f, a, b, c);
                });
            });
        });
    }
    template <class F> obs unary(long long i, long long d, F f) { return unaryT<lifted_ok>(i, d, f); }
    template <class F> obs binary(long long i, long long j, long long d, F f) { return binaryT<lifted_ok>(i, j, d, f); }
    template <class F> obs ternary(long long i, long long j, long long k, long long d, F f) { return ternaryT<lifted_ok>(i, j, k, d, f); }
    bool is_d(long long i) { const std::string& k = at(i).kind; return k == "dplain" || k == "dopt" || k == "dmasked"; }

    // compound assignment: destination lifted and writable, source of the same family or plain
    template <class F, class A, class B> obs cassign(std::true_type, F& f, A& a, B& b) { f(a, b); return project(a); }
    template <class F, class A, class B> obs cassign(std::false_type, F&, A&, B&) { script_error("not a lifted compound assignment"); }
    template <template <class...> class OK, class F> obs compoundT(long long i, long long j, F f)
    {
        return visit(i, [&](auto& a) {
            return this->visit(j, [&](auto& b) {
                using ok = std::integral_constant<bool, OK<decltype(a), decltype(b)>::value && ki<decltype(a)>::fam != F_PLAIN && ki<decltype(a)>::writable>;
                return this->cassign(ok{}, f, a, b);
            });
        });
    }

    template <class F> obs compound(long long i, long long j, F f) { return compoundT<lifted_ok>(i, j, f); }

    // ---- reading one register through its public accessors
    template <class CT, class CB> static obs project(const xtl::xoptional<CT, CB>& x) { return {"", x.has_value(), num(x.value())}; }
    template <class T, class B> static obs project(const xtl::xmasked_value<T, B>& x) { return {"", x.visible(), num(x.value())}; }
    static obs project(const Probe& p) { return {"", true, p.v}; }
    static obs project(const int& p) { return {"", true, p}; }
    static obs project(const double& p) { return {"", true, enc(p)}; }

    std::string proj(long long i)
    {
        slot& s = at(i);
        obs o = visit(i, [&](auto& a) { return project(a); });
        vj::out w;
        w.ks("kind", s.kind).kb("has", o.has).kv("val", o.val);
        vj::out ref;
        bool vref = s.kind == "optref" || s.kind == "optcr" || s.kind == "optvr" || s.kind == "mref";
        bool fref = s.kind == "optref" || s.kind == "optcr" || s.kind == "mref";
        ref.kb("has", fref ? *s.bf : false).kv("val", vref ? s.bv->v : 0);
        w.kraw("ref", ref.obj());
        return w.obj();
    }

    // ---- construction of a register
    obs load(long long i, const std::string& how, bool has, int v)
    {
        slot& s = at(i);
        s.clear();
        if (how == "plain") { s.kind = "plain"; s.pv = Probe(v); }
        else if (how == "int") { s.kind = "int"; s.iv = v; }
        else if (how == "opt2") { s.kind = "opt"; s.opt.reset(new Opt(Probe(v), bool(has))); }
        else if (how == "opt1") { s.kind = "opt"; s.opt.reset(new Opt(Probe(v))); }
        else if (how == "optdef") { s.kind = "opt"; s.opt.reset(new Opt()); }
        else if (how == "missing") { s.kind = "opt"; s.opt.reset(new Opt(xtl::missing<Probe>())); }
        else if (how == "optional_vv") { s.kind = "opt"; s.opt.reset(new Opt(xtl::optional(Probe(v), bool(has)))); }
        else if (how == "optref") { s.backing(v, has); s.kind = "optref"; s.oref.reset(new ORef(*s.bv, *s.bf)); }
        else if (how == "optional_rr") { s.backing(v, has); s.kind = "optref"; s.oref.reset(new ORef(xtl::optional(*s.bv, *s.bf))); }
        else if (how == "optcr") { s.backing(v, has); s.kind = "optcr"; s.ocref.reset(new OCRef(*s.bv, *s.bf)); }
        else if (how == "optvr") { s.backing(v, false); s.kind = "optvr"; s.ovref.reset(new OVRef(*s.bv, bool(has))); }
        else if (how == "optional_rv") { s.backing(v, false); s.kind = "optvr"; s.ovref.reset(new OVRef(xtl::optional(*s.bv, bool(has)))); }
        else if (how == "masked2") { s.kind = "masked"; s.msk.reset(new Msk(Probe(v), bool(has))); }
        else if (how == "masked1") { s.kind = "masked"; s.msk.reset(new Msk(Probe(v))); }
        else if (how == "maskeddef") { s.kind = "masked"; s.msk.reset(new Msk()); }
        else if (how == "maskedf") { s.kind = "masked"; s.msk.reset(new Msk(xtl::masked<Probe>())); }
        else if (how == "masked_value1") { s.kind = "masked"; s.msk.reset(new Msk(xtl::masked_value(Probe(v)))); }
        else if (how == "masked_value2") { s.kind = "masked"; s.msk.reset(new Msk(xtl::masked_value(Probe(v), bool(has)))); }
        else if (how == "mref") { s.backing(v, has); s.kind = "mref"; s.mref.reset(new MRef(*s.bv, *s.bf)); }
        else if (how == "masked_value_rr") { s.backing(v, has); s.kind = "mref"; s.mref.reset(new MRef(xtl::masked_value(*s.bv, *s.bf))); }
        else if (how == "dplain") { s.kind = "dplain"; s.dv = dec(v); }
        else if (how == "dopt2") { s.kind = "dopt"; s.dopt.reset(new DOpt(dec(v), bool(has))); }
        else if (how == "dmasked2") { s.kind = "dmasked"; s.dmsk.reset(new DMsk(dec(v), bool(has))); }
        else script_error("unknown load", how);
        obs o = visit(i, [&](auto& a) { return project(a); });
        o.kind = s.kind.c_str();
        return o;
    }

    // ---- accessors
    template <class CT, class CB> static obs get_member(const xtl::xoptional<CT, CB>& x) { return {"get", bool(x.has_value()), num(x.value())}; }
    template <class T, class B> static obs get_member(const xtl::xmasked_value<T, B>& x) { return {"get", bool(x.visible()), num(x.value())}; }
    template <class T> static obs get_member(const T&) { script_error("no member accessors on a plain operand"); }
    template <class CT, class CB> static obs get_free(xtl::xoptional<CT, CB>& x) { return {"get", bool(xtl::has_value(x)), num(xtl::value(x))}; }
    static obs get_free(Probe& x) { return {"get", bool(xtl::has_value(x)), xtl::value(x).v}; }
    template <class T> static obs get_free(T&) { script_error("free accessors are defined for xoptional and plain values"); }
    template <class CT, class CB> static obs get_rvalue(const xtl::xoptional<CT, CB>& x)
    {
        xtl::xoptional<CT, CB> c1(x), c2(x);
        return {"get", bool(std::move(c1).has_value()), num(std::decay_t<CT>(std::move(c2).value()))};
    }
    template <class T, class B> static obs get_rvalue(const xtl::xmasked_value<T, B>& x)
    {
        // (copies are taken from a const lvalue: the copy constructor, not the converting template)
        xtl::xmasked_value<T, B> c1(x), c2(x);
        return {"get", bool(std::move(c1).visible()), num(std::decay_t<T>(std::move(c2).value()))};
    }
    static obs get_rvalue(const Probe&) { script_error("no rvalue accessors on a plain operand"); }
    static obs get_rvalue(const int&) { script_error("no rvalue accessors on a plain operand"); }
    static obs get_rvalue(const double&) { script_error("no rvalue accessors on a plain operand"); }
    // xmasked_value converts implicitly to its value type
    template <class T, class B> static obs get_conv(xtl::xmasked_value<T, B>& x) { std::decay_t<T> p = x; return {"get", bool(x.visible()), num(p)}; }
    template <class T> static obs get_conv(T&) { script_error("conversion accessor is defined for xmasked_value"); }

    template <class CT, class CB> static void set_flag(xtl::xoptional<CT, CB>& x, bool b) { x.has_value() = b; }
    template <class T, class B> static void set_flag(xtl::xmasked_value<T, B>& x, bool b) { x.visible() = b; }
    static void set_flag(OCRef&, bool) { script_error("const closure"); }
    template <class T> static void set_flag(T&, bool) { script_error("plain operands have no flag"); }

    template <class CT, class CB> static void set_val(xtl::xoptional<CT, CB>& x, int v) { put(x.value(), v); }
    template <class T, class B> static void set_val(xtl::xmasked_value<T, B>& x, int v) { put(x.value(), v); }
    static void set_val(OCRef&, int) { script_error("const closure"); }
    static void set_val(Probe& x, int v) { x = Probe(v); }
    static void set_val(int& x, int v) { x = v; }
    static void set_val(double& x, int v) { x = dec(v); }

    // plain assignment of a value / of another register
    template <class A> static void assign_val(std::true_type, A& a, int v) { typename ki<A>::vtype t; put(t, v); a = t; }
    template <class A> static void assign_val(std::false_type, A&, int) { script_error("AssignVal needs a writable lifted destination"); }
    template <class A, class B> static void assign_reg(std::true_type, A& a, const B& b) { a = b; }
    template <class A, class B> static void assign_reg(std::false_type, A&, const B&) { script_error("AssignReg: this pair is not assignable"); }

    template <class A> static void swap_member(std::true_type, A& a, A& b) { a.swap(b); }
    template <class A> static void swap_member(std::false_type, A&, A&) { script_error("swap: not swappable"); }
    template <class A> static void swap_free(std::true_type, A& a, A& b) { swap(a, b); }
    template <class A> static void swap_free(std::false_type, A&, A&) { script_error("free swap is defined for xmasked_value"); }

    // the table-driven dispatchers (defined after the class; compiled as separate parts, see LIFTED_PART)
    obs do_unary(const std::string& f, long long i, long long d);
    obs do_binary(const std::string& f, long long i, long long j, long long d);
    obs do_binary_fun(const std::string& f, long long i, long long j, long long d);
    obs do_compare(const std::string& f, long long i, long long j);
    obs do_ternary(const std::string& f, long long i, long long j, long long k, long long d);
    obs do_compound(const std::string& f, long long i, long long j);
    // the same calls on double-valued registers (a short hand-written list: integer-exact operations)
    obs do_unary_d(const std::string& f, long long i, long long d);
    obs do_binary_d(const std::string& f, long long i, long long j, long long d);
    obs do_compare_d(const std::string& f, long long i, long long j);
    obs do_ternary_d(const std::string& f, long long i, long long j, long long k, long long d);
    obs do_compound_d(const std::string& f, long long i, long long j);

    // ---- one script event; returns the observation
    obs step(const vj::value& e)
    {
        const std::string& op = e.str("op");
        const vj::value& a = e.at("a");
        if (op == "Reset")
        {
            long long n = a.num("n");
            r.clear();
            r.resize(size_t(n) + 1);
            pr::counter() = 0;
            return {"void", true, 0};
        }
        if (op == "Load") return load(a.num("i"), a.str("how"), a.at("has").b, int(a.num("v")));
        if (op == "Unary")
            return is_d(a.num("i")) ? do_unary_d(a.str("f"), a.num("i"), a.num("d")) : do_unary(a.str("f"), a.num("i"), a.num("d"));
        if (op == "Binary")
            return is_d(a.num("i")) || is_d(a.num("j")) ? do_binary_d(a.str("f"), a.num("i"), a.num("j"), a.num("d"))
                                                        : do_binary(a.str("f"), a.num("i"), a.num("j"), a.num("d"));
        if (op == "Compare")
            return is_d(a.num("i")) || is_d(a.num("j")) ? do_compare_d(a.str("f"), a.num("i"), a.num("j")) : do_compare(a.str("f"), a.num("i"), a.num("j"));
        if (op == "Ternary")
            return is_d(a.num("i")) || is_d(a.num("j")) || is_d(a.num("k"))
                       ? do_ternary_d(a.str("f"), a.num("i"), a.num("j"), a.num("k"), a.num("d"))
                       : do_ternary(a.str("f"), a.num("i"), a.num("j"), a.num("k"), a.num("d"));
        if (op == "Compound")
            return is_d(a.num("i")) || is_d(a.num("j")) ? do_compound_d(a.str("f"), a.num("i"), a.num("j")) : do_compound(a.str("f"), a.num("i"), a.num("j"));
        if (op == "Select")
        {
            const vj::value& c = a.at("c");
            long long i = a.num("i"), j = a.num("j"), d = a.num("d");
            bool lifted = c.at("lifted").b, chas = c.at("has").b, cval = c.at("val").b;
            return visit(i, [&](auto& x) {
                return this->visit(j, [&](auto& y) {
                    using P = pat<decltype(x), decltype(y)>;
                    constexpr bool onetype = P::alld || !P::anyd;                                  // one value type per call
                    using okl = std::integral_constant<bool, !P::msk && !P::allint && onetype>;   // condition is an xoptional<bool>
                    using okp = std::integral_constant<bool, !P::msk && P::opt && onetype>;       // condition is a plain bool
                    if (lifted)
                    {
                        auto f = [&](const auto& u, const auto& v) { return xtl::select(xtl::xoptional<bool, bool>(bool(cval), bool(chas)), u, v); };
                        return this->call(okl{}, d, f, x, y);
                    }
                    auto f = [&](const auto& u, const auto& v) { return xtl::select(bool(cval), u, v); };
                    return this->call(okp{}, d, f, x, y);
                });
            });
        }
        if (op == "ValueOr")
        {
            long long i = a.num("i");
            int dv = int(a.num("dv"));
            return visit(i, [&](auto& x) {
                using ok = std::integral_constant<bool, ki<decltype(x)>::fam == F_OPT>;
                auto f = [&](const auto& u) { typename ki<decltype(u)>::vtype t; put(t, dv); return u.value_or(t); };
                return this->call(ok{}, 0, f, x);
            });
        }
        if (op == "Get")
        {
            const std::string& path = a.str("path");
            long long i = a.num("i");
            return visit(i, [&](auto& x) {
                if (path == "member") return get_member(x);
                if (path == "free") return get_free(x);
                if (path == "rvalue") return get_rvalue(x);
                if (path == "conv") return get_conv(x);
                script_error("bad Get path", path);
            });
        }
        if (op == "SetFlag")
        {
            long long i = a.num("i");
            bool b = a.at("b").b;
            return visit(i, [&](auto& x) { set_flag(x, b); return obs{"void", true, 0}; });
        }
        if (op == "SetVal")
        {
            long long i = a.num("i");
            int v = int(a.num("v"));
            return visit(i, [&](auto& x) { set_val(x, v); return obs{"void", true, 0}; });
        }
        if (op == "Poke")
        {
            // writes the referents of a reference closure directly (not through xtl)
            slot& s = at(a.num("i"));
            if (!s.bv) script_error("Poke needs a reference kind");
            *s.bv = Probe(int(a.num("v")));
            if (s.kind != "optvr") *s.bf = a.at("has").b;
            return {"void", true, 0};
        }
        if (op == "AssignVal")
        {
            long long i = a.num("i");
            int v = int(a.num("v"));
            return visit(i, [&](auto& x) {
                using ok = std::integral_constant<bool, ki<decltype(x)>::fam != F_PLAIN && ki<decltype(x)>::writable>;
                assign_val(ok{}, x, v);
                return obs{"void", true, 0};
            });
        }
        if (op == "AssignReg")
        {
            long long i = a.num("i"), j = a.num("j");
            return visit(i, [&](auto& x) {
                return this->visit(j, [&](auto& y) {
                    using X = std::decay_t<decltype(x)>;
                    using Y = std::decay_t<decltype(y)>;
                    using ok = std::integral_constant<bool, ki<X>::fam != F_PLAIN && ki<X>::fam == ki<Y>::fam && ki<X>::isd == ki<Y>::isd && ki<X>::writable && std::is_assignable<X&, const Y&>::value>;
                    assign_reg(ok{}, x, y);
                    return obs{"void", true, 0};
                });
            });
        }
        if (op == "Swap")
        {
            long long i = a.num("i"), j = a.num("j");
            const std::string& how = a.str("how");
            slot& si = at(i);
            slot& sj = at(j);
            if (si.kind != sj.kind) script_error("swap needs two registers of the same kind");
            return visit(i, [&](auto& x) {
                using X = std::decay_t<decltype(x)>;
                // the second operand has the same static type: fetch it through the same accessor
                X* other = nullptr;
                this->visit(j, [&](auto& y) { other = pick_same<X>(std::is_same<X, std::decay_t<decltype(y)>>{}, y); return obs{"", true, 0}; });
                if (!other) script_error("swap: kinds differ");
                using okm = std::integral_constant<bool, ki<X>::fam != F_PLAIN && ki<X>::writable>;
                using okf = std::integral_constant<bool, ki<X>::fam == F_MSK>;
                if (how == "member") swap_member(okm{}, x, *other);
                else if (how == "free") swap_free(okf{}, x, *other);
                else script_error("bad swap", how);
                return obs{"void", true, 0};
            });
        }
        script_error("unknown op", op);
    }
    template <class X> static X* pick_same(std::true_type, X& y) { return std::addressof(y); }   // xoptional overloads unary &
    template <class X, class Y> static X* pick_same(std::false_type, Y&) { return nullptr; }

    int run()
    {
        std::string line;
        r.resize(4);
        while (std::getline(std::cin, line))
        {
            if (line.empty()) continue;
            vj::value e = vj::parse(line);
            long long before = pr::counter();
            obs o = step(e);
            long long delta = e.str("op") == "Reset" ? 0 : pr::counter() - before;
            vj::out res;
            res.ks("kind", o.kind).kb("has", o.has).kv("val", o.val).kv("d", delta);
            std::string st = "{\"r\":[";
            for (size_t i = 1; i < r.size(); ++i) { if (i > 1) st += ','; st += proj((long long)i); }
            st += "],\"evals\":" + std::to_string(pr::counter()) + "}";
            std::string head = line.substr(0, line.rfind('}'));
            std::fputs((head + ",\"res\":" + res.obj() + ",\"st\":" + st + "}\n").c_str(), stdout);
        }
        return 0;
    }
};

// ---------------------------------------------------------------- table-driven dispatch
// The driver can be compiled as one translation unit, or (faster) as five with -DLIFTED_PART=0..4.
#ifndef LIFTED_PART
#define LIFTED_ALL_PARTS 1
#define LIFTED_PART (-1)
#endif

#if defined(LIFTED_ALL_PARTS) || LIFTED_PART == 4
obs machine::do_unary(const std::string& f, long long i, long long d)
{
#define L_UNOP(name, tok, code, res) if (f == #name) return unary(i, d, [](const auto& x) { return tok x; });
#define L_UFUN(name, code) if (f == #name) return unary(i, d, [](const auto& x) { return name(x); });
#define L_UPRED(name, code) if (f == #name) return unary(i, d, [](const auto& x) { return name(x); });
#include "ops.def"
    script_error("unknown unary", f);
}
obs machine::do_compare(const std::string& f, long long i, long long j)
{
#define L_CMPOP(name, tok, code) if (f == #name) return binary(i, j, 0, [](const auto& x, const auto& y) { return x tok y; });
#include "ops.def"
    script_error("unknown comparison", f);
}
#endif

#if defined(LIFTED_ALL_PARTS) || LIFTED_PART == 0
// double-valued registers: real IEEE operands through the same lifted overloads
obs machine::do_unary_d(const std::string& f, long long i, long long d)
{
#define DU(name, expr) if (f == #name) return unaryT<lifted_ok_d>(i, d, [](const auto& x) { return expr; });
    DU(pos, +x) DU(neg, -x) DU(lognot, !x) DU(abs, abs(x)) DU(fabs, fabs(x)) DU(ceil, ceil(x)) DU(floor, floor(x))
    DU(trunc, trunc(x)) DU(round, round(x)) DU(nearbyint, nearbyint(x)) DU(rint, rint(x))
    DU(isnan, isnan(x)) DU(isinf, isinf(x)) DU(isfinite, isfinite(x))
#undef DU
    script_error("operation not dispatched to double operands", f);
}
obs machine::do_binary_d(const std::string& f, long long i, long long j, long long d)
{
#define DB(name, expr) if (f == #name) return binaryT<lifted_ok_d>(i, j, d, [](const auto& x, const auto& y) { return expr; });
    DB(plus, x + y) DB(minus, x - y) DB(mul, x * y) DB(lt, x < y) DB(le, x <= y) DB(gt, x > y) DB(ge, x >= y)
    DB(fmax, fmax(x, y)) DB(fmin, fmin(x, y))
    script_error("operation not dispatched to double operands", f);
}
obs machine::do_compare_d(const std::string& f, long long i, long long j)
{
    const long long d = 0;
    DB(eq, x == y) DB(ne, x != y)
#undef DB
    script_error("operation not dispatched to double operands", f);
}
#endif

#if defined(LIFTED_ALL_PARTS) || LIFTED_PART == 4
obs machine::do_ternary_d(const std::string& f, long long i, long long j, long long k, long long d)
{
    if (f == "fma") return ternaryT<lifted_ok_d>(i, j, k, d, [](const auto& x, const auto& y, const auto& z) { return fma(x, y, z); });
    script_error("operation not dispatched to double operands", f);
}
obs machine::do_compound_d(const std::string& f, long long i, long long j)
{
    obs o{"", false, 0};
    if (f == "plus_eq") o = compoundT<lifted_ok_d>(i, j, [](auto& x, const auto& y) { x += y; });
    else if (f == "minus_eq") o = compoundT<lifted_ok_d>(i, j, [](auto& x, const auto& y) { x -= y; });
    else script_error("operation not dispatched to double operands", f);
    o.kind = at(i).kind.c_str();
    return o;
}
#endif

#if defined(LIFTED_ALL_PARTS) || LIFTED_PART == 1
obs machine::do_binary(const std::string& f, long long i, long long j, long long d)
{
#define L_BINOP(name, tok, code, res, sem) if (f == #name) return binary(i, j, d, [](const auto& x, const auto& y) { return x tok y; });
#include "ops.def"
    return do_binary_fun(f, i, j, d);
}
#endif

#if defined(LIFTED_ALL_PARTS) || LIFTED_PART == 2
obs machine::do_binary_fun(const std::string& f, long long i, long long j, long long d)
{
#define L_BFUN(name, code) if (f == #name) return binary(i, j, d, [](const auto& x, const auto& y) { return name(x, y); });
#include "ops.def"
    script_error("unknown binary", f);
}
obs machine::do_compound(const std::string& f, long long i, long long j)
{
    obs o{"", false, 0};
#define L_ASGOP(name, tok, base) if (f == #name) { o = compound(i, j, [](auto& x, const auto& y) { x tok y; }); o.kind = at(i).kind.c_str(); return o; }
#include "ops.def"
    script_error("unknown compound assignment", f);
}
#endif

#if defined(LIFTED_ALL_PARTS) || LIFTED_PART == 3
obs machine::do_ternary(const std::string& f, long long i, long long j, long long k, long long d)
{
#define L_TFUN(name, code) if (f == #name) return ternary(i, j, k, d, [](const auto& x, const auto& y, const auto& z) { return name(x, y, z); });
#include "ops.def"
    script_error("unknown ternary", f);
}
#endif

#if defined(LIFTED_ALL_PARTS) || LIFTED_PART == 0
int main()
{
    vj::install_crash_handlers();
    return machine().run();
}
#endif

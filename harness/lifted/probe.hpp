// Probe: the instrumented operand type of the C04 harness.
//
// An int wrapper with value_type = Probe.  Every operator and every <cmath> name that xtl lifts
// is defined for it (found by ADL from inside xtl's overloads); each evaluation increments the
// global counter pr::counter(), and division / modulo by zero calls abort() (the trace then ends
// with a Crash event, which no spec action matches).  Copying, assigning and constructing a Probe
// are not evaluations.
//
// The algebra is the one of specs/Lifted.tla (Apply1/Apply2/Apply3): REAL operators have integer
// semantics, TOY operators and all <cmath> names are  wrap(code*600 + x + 7*y + 49*z), every result
// wrapped into [-46000, 46000] (so that TLC's 32-bit integers can follow arbitrarily long chains).
// This file contains no expectations about xtl: it only defines what the operand type computes.
#ifndef VERIF_LIFTED_PROBE_HPP
#define VERIF_LIFTED_PROBE_HPP
#include <cstdlib>
#include <ostream>

namespace pr
{
    // number of underlying operations evaluated so far (one counter for the whole program)
    inline long long& counter() { static long long c = 0; return c; }
#define evals counter()
    constexpr long long M = 46000;

    inline int wrap(long long v)
    {
        const long long m = 2 * M + 1;
        long long t = (v + M) % m;
        if (t < 0) t += m;
        return int(t - M);
    }
    inline int toy(int code, long long x, long long y, long long z) { return wrap(code * 600LL + x + 7 * y + 49 * z); }
    inline bool pred(int code, long long x)
    {
        long long t = (x + code) % 3;
        if (t < 0) t += 3;
        return t != 0;
    }

    struct Probe
    {
        using value_type = Probe;
        int v;
        Probe() : v(0) {}
        Probe(int x) : v(x) {}

        // compound assignments (used by xoptional / xmasked_value compound assignment)
        Probe& operator+=(const Probe& o) { ++evals; v = wrap((long long)v + o.v); return *this; }
        Probe& operator-=(const Probe& o) { ++evals; v = wrap((long long)v - o.v); return *this; }
        Probe& operator*=(const Probe& o) { ++evals; v = wrap((long long)v * o.v); return *this; }
        Probe& operator/=(const Probe& o) { ++evals; if (o.v == 0) std::abort(); v = wrap((long long)v / o.v); return *this; }
        Probe& operator%=(const Probe& o) { ++evals; if (o.v == 0) std::abort(); v = wrap((long long)v % o.v); return *this; }
    };

    // printing a Probe is not an evaluation
    template <class C, class T> inline std::basic_ostream<C, T>& operator<<(std::basic_ostream<C, T>& os, const Probe& p) { return os << p.v; }

    // ---- REAL operators (integer semantics; C++ division truncates towards zero)
    inline Probe operator+(const Probe& a) { ++evals; return a; }
    inline Probe operator-(const Probe& a) { ++evals; return Probe(wrap(-(long long)a.v)); }
    inline Probe operator~(const Probe& a) { ++evals; return Probe(wrap(-(long long)a.v - 1)); }
    inline bool operator!(const Probe& a) { ++evals; return a.v == 0; }
    inline Probe operator+(const Probe& a, const Probe& b) { ++evals; return Probe(wrap((long long)a.v + b.v)); }
    inline Probe operator-(const Probe& a, const Probe& b) { ++evals; return Probe(wrap((long long)a.v - b.v)); }
    inline Probe operator*(const Probe& a, const Probe& b) { ++evals; return Probe(wrap((long long)a.v * b.v)); }
    inline Probe operator/(const Probe& a, const Probe& b) { ++evals; if (b.v == 0) std::abort(); return Probe(wrap((long long)a.v / b.v)); }
    inline Probe operator%(const Probe& a, const Probe& b) { ++evals; if (b.v == 0) std::abort(); return Probe(wrap((long long)a.v % b.v)); }
    inline bool operator<(const Probe& a, const Probe& b) { ++evals; return a.v < b.v; }
    inline bool operator<=(const Probe& a, const Probe& b) { ++evals; return a.v <= b.v; }
    inline bool operator>(const Probe& a, const Probe& b) { ++evals; return a.v > b.v; }
    inline bool operator>=(const Probe& a, const Probe& b) { ++evals; return a.v >= b.v; }
    inline bool operator==(const Probe& a, const Probe& b) { ++evals; return a.v == b.v; }
    inline bool operator!=(const Probe& a, const Probe& b) { ++evals; return a.v != b.v; }

    // the codes of the binary operators, from the operation table
    enum op_code
    {
#define L_BINOP(name, tok, code, res, sem) code_##name = code,
#include "ops.def"
        code_none = 0
    };

    // ---- TOY operators and every lifted <cmath> name, generated from the operation table
#define PROBE_BIN_REAL(name, tok, code)
#define PROBE_BIN_TOY(name, tok, code) \
    inline Probe operator tok(const Probe& a, const Probe& b) { ++evals; return Probe(toy(code, a.v, b.v, 0)); }
#define L_BINOP(name, tok, code, res, sem) PROBE_BIN_##sem(name, tok, code)
#define L_UFUN(name, code) inline Probe name(const Probe& a) { ++evals; return Probe(toy(code, a.v, 0, 0)); }
#define L_UPRED(name, code) inline bool name(const Probe& a) { ++evals; return pred(code, a.v); }
#define L_BFUN(name, code) inline Probe name(const Probe& a, const Probe& b) { ++evals; return Probe(toy(code, a.v, b.v, 0)); }
#define L_TFUN(name, code) inline Probe name(const Probe& a, const Probe& b, const Probe& c) { ++evals; return Probe(toy(code, a.v, b.v, c.v)); }
#include "ops.def"
#undef PROBE_BIN_REAL
#undef PROBE_BIN_TOY

    // toy compound assignments: x op= y  is  x = x op y  (one evaluation)
    inline Probe& operator&=(Probe& a, const Probe& b) { ++evals; a.v = toy(code_band, a.v, b.v, 0); return a; }
    inline Probe& operator|=(Probe& a, const Probe& b) { ++evals; a.v = toy(code_bor, a.v, b.v, 0); return a; }
    inline Probe& operator^=(Probe& a, const Probe& b) { ++evals; a.v = toy(code_bxor, a.v, b.v, 0); return a; }
#undef evals
}
#endif

// C04 conformance harness, second part: lifted calls over value types other than the counting
// integer of driver.cpp -- xoptional<xcomplex<double>>, xoptional<xoptional<int>>, xoptional<double> /
// xmasked_value<double> over doubles compared bit for bit (both zeros, both infinities, NaN with both
// signs, the smallest denormal, the largest finite value) -- and the neighbours of the two classes: the
// implicit conversion xmasked_value -> xoptional, the json round trip of xjson.hpp, the member equal(),
// missing<T>() and the free has_value / value on plain operands.
//
// Reads a script (ndjson, one case per line: {"op":..,"a":{..}}) on stdin, performs the call on real xtl
// objects and prints the line extended with
//   "res": {"has","val","u","vn","un","pre"}
// has / val = presence and value (canonical text: bit patterns in hex) of what the call returned (compound
// assignment: of the target afterwards), u = what the SAME operation gives on the underlying values, performed
// here directly without xtl's lifting, vn / un = val / u contains a NaN, pre = the target's value before a
// compound assignment (JsonTrip: the json text).  No oracle: it executes and prints.
#include <xtl/xoptional.hpp>
#include <xtl/xmasked_value.hpp>
#include <xtl/xcomplex.hpp>
#ifdef HAVE_NLOHMANN_JSON
#include <xtl/xjson.hpp>
#endif
#include "vjson.hpp"
#include <cmath>
#include <cstring>
#include <iostream>
#include <limits>
#include <string>

using cpx = xtl::xcomplex<double>;
using oint = xtl::xoptional<int>;

[[noreturn]] static void script_error(const char* what, const std::string& d = "")
{
    std::fflush(stdout);
    std::fprintf(stderr, "script: %s %s\n", what, d.c_str());
    std::exit(3);
}

// ---------------------------------------------------------------- value tables
static double neg_nan() { double n = std::numeric_limits<double>::quiet_NaN(); return std::copysign(n, -1.0); }
static double pos_nan() { double n = std::numeric_limits<double>::quiet_NaN(); return std::copysign(n, 1.0); }
template <class T> struct tab;
template <> struct tab<double>
{
    static double get(long long i)
    {
        static const double t[] = {1.5, -0.0, pos_nan(), 0.0, neg_nan(), std::numeric_limits<double>::infinity(), 0.1,
                                   -std::numeric_limits<double>::infinity(), 5e-324, 1.7976931348623157e308};
        if (i < 0 || i >= 10) script_error("double index");
        return t[i];
    }
};
template <> struct tab<cpx>
{
    static cpx get(long long i)
    {
        static const cpx t[] = {cpx(1, 2), cpx(0, -0.0), cpx(-1.5, 0.25), cpx(std::numeric_limits<double>::infinity(), 1), cpx(pos_nan(), 0)};
        if (i < 0 || i >= 5) script_error("complex index");
        return t[i];
    }
};
template <> struct tab<oint>
{
    static oint get(long long i)
    {
        static const oint t[] = {oint(3, true), oint(0, false), oint(-2, true), oint(7, true)};
        if (i < 0 || i >= 4) script_error("nested index");
        return t[i];
    }
};
template <> struct tab<int>
{
    static int get(long long i)
    {
        static const int t[] = {0, 3, -7};
        if (i < 0 || i >= 3) script_error("int index");
        return t[i];
    }
};

// ---------------------------------------------------------------- canonical text of a value
static std::string text(double x)
{
    unsigned long long b;
    std::memcpy(&b, &x, sizeof b);
    char buf[20];
    std::snprintf(buf, sizeof buf, "%016llx", b);
    return buf;
}
static std::string text(bool b) { return b ? "1" : "0"; }
static std::string text(int v) { return std::to_string(v); }
static std::string text(const cpx& z) { return text(z.real()) + ":" + text(z.imag()); }
template <class CT, class CB> static std::string text(const xtl::xoptional<CT, CB>& o) { return bool(o.has_value()) ? "1:" + text(o.value()) : std::string("0"); }
static bool has_nan(double x) { return std::isnan(x); }
static bool has_nan(bool) { return false; }
static bool has_nan(int) { return false; }
static bool has_nan(const cpx& z) { return std::isnan(z.real()) || std::isnan(z.imag()); }
template <class CT, class CB> static bool has_nan(const xtl::xoptional<CT, CB>&) { return false; }

struct obsx
{
    bool has = false;
    std::string val, u, pre;
    bool vn = false, un = false;
};
// what a lifted call returned
template <class CT, class CB> static void cap(obsx& o, const xtl::xoptional<CT, CB>& r) { o.has = bool(r.has_value()); o.val = text(r.value()); o.vn = has_nan(r.value()); }
template <class T, class B> static void cap(obsx& o, const xtl::xmasked_value<T, B>& r) { o.has = bool(r.visible()); o.val = text(r.value()); o.vn = has_nan(r.value()); }
static void cap(obsx& o, bool r) { o.has = true; o.val = text(r); }
// what the same operation gives on the underlying values
template <class R> static void capu(obsx& o, const R& r) { o.u = text(r); o.un = has_nan(r); }

// c: the value category under which the call names the operand: 0 = const lvalue, 1 = non-const lvalue, 2 = rvalue
struct opd { bool l, h; long long x; int c; };
static int read_cat(const vj::value& v)
{
    if (!v.has("c")) return 0;
    const std::string& c = v.str("c");
    if (c == "cl") return 0;
    if (c == "lv") return 1;
    if (c == "rv") return 2;
    script_error("bad value category", c);
}
static opd read_opd(const vj::value& v) { return opd{v.at("l").b, v.at("h").b, v.at("x").i, read_cat(v)}; }
// hand the operand object a to f under category c (the object is a local of the caller that dies after the call)
template <class X, class F> static obsx hand(int c, X& a, F&& f)
{
    if (c == 1) return f(a);
    if (c == 2) return f(std::move(a));
    return f(static_cast<const X&>(a));
}

// the underlying value of an operand
template <class T> static const T& under(const T& t) { return t; }
template <class CT, class CB> static const std::decay_t<CT>& under(const xtl::xoptional<CT, CB>& o) { return o.value(); }
template <class T, class B> static const std::decay_t<T>& under(const xtl::xmasked_value<T, B>& o) { return o.value(); }
template <class X> struct is_lifted : std::false_type {};
template <class CT, class CB> struct is_lifted<xtl::xoptional<CT, CB>> : std::true_type {};
template <class T, class B> struct is_lifted<xtl::xmasked_value<T, B>> : std::true_type {};
// nested optionals: the operand type IS an xoptional; "lifted" means one level more
template <class T, class X> struct lifted_over : std::integral_constant<bool, is_lifted<X>::value && !std::is_same<X, T>::value> {};

// build operand p as L (lifted) or T (plain) and hand it to f
// (xtl offers the forms with a plain operand only for value types that are fundamental or whose value_type member
// is the type itself -- common_optional_t; for xcomplex<double> every operand is lifted: plain_ok<T> is false)
template <class T> struct plain_ok : std::true_type {};
template <> struct plain_ok<cpx> : std::false_type {};
template <> struct plain_ok<oint> : std::false_type {};    // (a bare xoptional<int> beside xoptional<xoptional<int>> is a lifted operand of another value type)
template <class T, class F> static obsx with_plain(std::true_type, const opd& p, F&& f) { T a = tab<T>::get(p.x); return f(a); }
template <class T, class F> static obsx withc_plain(std::true_type, const opd& p, F&& f) { T a = tab<T>::get(p.x); return hand(p.c, a, f); }
template <class T, class F> static obsx withc_plain(std::false_type, const opd&, F&&) { script_error("this value type has no mixed lifted / plain forms"); }
template <class T, class F> static obsx with_plain(std::false_type, const opd&, F&&) { script_error("this value type has no mixed lifted / plain forms"); }
template <class L, class T, class F> static obsx with(const opd& p, F&& f)
{
    if (p.l) { L a(tab<T>::get(p.x), bool(p.h)); return f(a); }
    return with_plain<T>(plain_ok<T>{}, p, f);
}
// the same, the operand handed over under its category (binary calls, comparisons, the right operand of a compound assignment)
template <class L, class T, class F> static obsx withc(const opd& p, F&& f)
{
    if (p.l) { L a(tab<T>::get(p.x), bool(p.h)); return hand(p.c, a, f); }
    return withc_plain<T>(plain_ok<T>{}, p, f);
}
template <class T, class FN, class... A> static obsx apply(std::true_type, FN& fn, A&&... a)
{
    obsx o;
    capu(o, fn(under(a)...));
    cap(o, fn(std::forward<A>(a)...));
    return o;
}
template <class T, class FN, class... A> static obsx apply(std::false_type, FN&, A&&...) { script_error("no lifted operand"); }
template <class L, class T, class FN> static obsx call1(const std::vector<opd>& ps, FN fn)
{
    return with<L, T>(ps[0], [&](auto&& a) { return apply<T>(lifted_over<T, std::decay_t<decltype(a)>>{}, fn, a); });
}
template <class L, class T, class FN> static obsx call2(const std::vector<opd>& ps, FN fn)
{
    return withc<L, T>(ps[0], [&](auto&& a) {
        return withc<L, T>(ps[1], [&](auto&& b) {
            using ok = std::integral_constant<bool, lifted_over<T, std::decay_t<decltype(a)>>::value || lifted_over<T, std::decay_t<decltype(b)>>::value>;
            return apply<T>(ok{}, fn, std::forward<decltype(a)>(a), std::forward<decltype(b)>(b));
        });
    });
}
template <class L, class T, class FN> static obsx call3(const std::vector<opd>& ps, FN fn)
{
    return with<L, T>(ps[0], [&](auto&& a) {
        return with<L, T>(ps[1], [&](auto&& b) {
            return with<L, T>(ps[2], [&](auto&& c) {
                using ok = std::integral_constant<bool, lifted_over<T, std::decay_t<decltype(a)>>::value || lifted_over<T, std::decay_t<decltype(b)>>::value ||
                                                            lifted_over<T, std::decay_t<decltype(c)>>::value>;
                return apply<T>(ok{}, fn, a, b, c);
            });
        });
    });
}
// compound assignment: target lifted; the same on a copy of the underlying value
template <class L, class T, class FN> static obsx compound(const std::vector<opd>& ps, FN fn)
{
    if (!ps[0].l) script_error("compound assignment needs a lifted target");
    L a(tab<T>::get(ps[0].x), bool(ps[0].h));
    return withc<L, T>(ps[1], [&](auto&& b) {
        obsx o;
        T raw = tab<T>::get(ps[0].x);
        o.pre = text(raw);
        fn(raw, under(b));
        capu(o, raw);
        fn(a, std::forward<decltype(b)>(b));
        cap(o, a);
        return o;
    });
}

#define FN1(expr) [](const auto& x) { using namespace std; return expr; }
// binary calls receive their operands under the category of the case (XF / YF forward them)
#define FN2(expr) [](auto&& x, auto&& y) { using namespace std; return expr; }
#define XF std::forward<decltype(x)>(x)
#define YF std::forward<decltype(y)>(y)
#define FN3(expr) [](const auto& x, const auto& y, const auto& z) { using namespace std; return expr; }
// (the right operand of a compound assignment is handed over under the category of the case: a const lvalue, the
//  non-const lvalue it is in `a += b;`, or an rvalue as in `a += b * c;`)
#define ASG(tok) [](auto& x, auto&& y) { x tok std::forward<decltype(y)>(y); }

template <class L> static obsx call_double(const std::string& op, const std::string& f, const std::vector<opd>& ps, const std::string& g)
{
    using T = double;
    if (op == "Call" && ps.size() == 1)
    {
        if (f == "pos") return call1<L, T>(ps, FN1(+x));
        if (f == "neg") return call1<L, T>(ps, FN1(-x));
        if (f == "fabs") return call1<L, T>(ps, FN1(fabs(x)));
        if (f == "sqrt") return call1<L, T>(ps, FN1(sqrt(x)));
        if (f == "floor") return call1<L, T>(ps, FN1(floor(x)));
        if (f == "isnan") return call1<L, T>(ps, FN1(isnan(x)));
        if (f == "isinf") return call1<L, T>(ps, FN1(isinf(x)));
    }
    if ((op == "Call" || op == "Compare") && ps.size() == 2)
    {
        if (f == "plus") return call2<L, T>(ps, FN2(XF + YF));
        if (f == "minus") return call2<L, T>(ps, FN2(XF - YF));
        if (f == "mul") return call2<L, T>(ps, FN2(XF * YF));
        if (f == "div") return call2<L, T>(ps, FN2(XF / YF));
        if (f == "lt") return call2<L, T>(ps, FN2(XF < YF));
        if (f == "ge") return call2<L, T>(ps, FN2(XF >= YF));
        if (f == "fmax") return call2<L, T>(ps, FN2(fmax(XF, YF)));
        if (f == "fmin") return call2<L, T>(ps, FN2(fmin(XF, YF)));
        if (f == "pow") return call2<L, T>(ps, FN2(pow(XF, YF)));
        if (f == "atan2") return call2<L, T>(ps, FN2(atan2(XF, YF)));
        if (f == "lor") return call2<L, T>(ps, FN2(XF || YF));
        if (f == "eq") return call2<L, T>(ps, FN2(XF == YF));
        if (f == "ne") return call2<L, T>(ps, FN2(XF != YF));
    }
    if (op == "Call" && ps.size() == 3 && f == "fma") return call3<L, T>(ps, FN3(fma(x, y, z)));
    if (op == "Compound")
    {
        if (f == "plus_eq") return compound<L, T>(ps, ASG(+=));
        if (f == "minus_eq") return compound<L, T>(ps, ASG(-=));
        if (f == "mul_eq") return compound<L, T>(ps, ASG(*=));
        if (f == "div_eq") return compound<L, T>(ps, ASG(/=));
    }
    if (op == "Expr")
    {
        if (f == "plus" && g == "mul") return call3<L, T>(ps, FN3(x + y * z));
        if (f == "plus" && g == "minus") return call3<L, T>(ps, FN3(x + (y - z)));
        if (f == "mul" && g == "minus") return call3<L, T>(ps, FN3(x * (y - z)));
        if (f == "mul" && g == "mul") return call3<L, T>(ps, FN3(x * (y * z)));
    }
    script_error("unknown call on doubles", op + " " + f);
}

static obsx call_cpx(const std::string& op, const std::string& f, const std::vector<opd>& ps, const std::string& g)
{
    using T = cpx;
    using L = xtl::xoptional<cpx>;
    if (op == "Call" && ps.size() == 1)
    {
        if (f == "pos") return call1<L, T>(ps, FN1(+x));
        if (f == "neg") return call1<L, T>(ps, FN1(-x));
    }
    if ((op == "Call" || op == "Compare") && ps.size() == 2)
    {
        if (f == "plus") return call2<L, T>(ps, FN2(XF + YF));
        if (f == "minus") return call2<L, T>(ps, FN2(XF - YF));
        if (f == "mul") return call2<L, T>(ps, FN2(XF * YF));
        if (f == "div") return call2<L, T>(ps, FN2(XF / YF));
        if (f == "eq") return call2<L, T>(ps, FN2(XF == YF));
        if (f == "ne") return call2<L, T>(ps, FN2(XF != YF));
    }
    if (op == "Compound")
    {
        if (f == "plus_eq") return compound<L, T>(ps, ASG(+=));
        if (f == "minus_eq") return compound<L, T>(ps, ASG(-=));
        if (f == "mul_eq") return compound<L, T>(ps, ASG(*=));
        if (f == "div_eq") return compound<L, T>(ps, ASG(/=));
    }
    if (op == "Expr")
    {
        if (f == "plus" && g == "mul") return call3<L, T>(ps, FN3(x + y * z));
        if (f == "plus" && g == "minus") return call3<L, T>(ps, FN3(x + (y - z)));
        if (f == "mul" && g == "minus") return call3<L, T>(ps, FN3(x * (y - z)));
        if (f == "mul" && g == "mul") return call3<L, T>(ps, FN3(x * (y * z)));
    }
    script_error("unknown call on complex numbers", op + " " + f);
}

static obsx call_nest(const std::string& op, const std::string& f, const std::vector<opd>& ps, const std::string& g)
{
    using T = oint;
    using L = xtl::xoptional<oint>;
    if (op == "Call" && ps.size() == 1)
    {
        if (f == "pos") return call1<L, T>(ps, FN1(+x));
        if (f == "neg") return call1<L, T>(ps, FN1(-x));
        if (f == "bitnot") return call1<L, T>(ps, FN1(~x));
        if (f == "lognot") return call1<L, T>(ps, FN1(!x));
    }
    if ((op == "Call" || op == "Compare") && ps.size() == 2)
    {
        if (f == "plus") return call2<L, T>(ps, FN2(XF + YF));
        if (f == "minus") return call2<L, T>(ps, FN2(XF - YF));
        if (f == "mul") return call2<L, T>(ps, FN2(XF * YF));
        if (f == "band") return call2<L, T>(ps, FN2(XF & YF));
        if (f == "lt") return call2<L, T>(ps, FN2(XF < YF));
        if (f == "lor") return call2<L, T>(ps, FN2(XF || YF));
        if (f == "eq") return call2<L, T>(ps, FN2(XF == YF));
        if (f == "ne") return call2<L, T>(ps, FN2(XF != YF));
    }
    if (op == "Compound")
    {
        if (f == "plus_eq") return compound<L, T>(ps, ASG(+=));
        if (f == "mul_eq") return compound<L, T>(ps, ASG(*=));
    }
    if (op == "Expr")
    {
        if (f == "plus" && g == "mul") return call3<L, T>(ps, FN3(x + y * z));
        if (f == "plus" && g == "minus") return call3<L, T>(ps, FN3(x + (y - z)));
        if (f == "mul" && g == "minus") return call3<L, T>(ps, FN3(x * (y - z)));
        if (f == "mul" && g == "mul") return call3<L, T>(ps, FN3(x * (y * z)));
    }
    script_error("unknown call on nested optionals", op + " " + f);
}

// ---------------------------------------------------------------- flag types other than bool
// an operand xoptional<int, FT> (intref: xoptional<int&, int&> over the cells v, f of this holder) with flag value f
template <class FT> struct fopd
{
    int v; int f;
    xtl::xoptional<int, FT> o;
    fopd(int vv, int ff) : v(vv), f(ff), o(int(vv), FT(ff)) {}
};
template <> struct fopd<int&>
{
    int v; int f;
    xtl::xoptional<int&, int&> o;
    fopd(int vv, int ff) : v(vv), f(ff), o(v, f) {}
};
template <class K> static obsx with_flag(const vj::value& p, K k)
{
    const std::string& t = p.str("t");
    int v = tab<int>::get(p.num("x")), f = int(p.num("f"));
    if (t == "bool") { fopd<bool> h(v, f); return k(h); }
    if (t == "int") { fopd<int> h(v, f); return k(h); }
    if (t == "u8") { fopd<unsigned char> h(v, f); return k(h); }
    if (t == "intref") { fopd<int&> h(v, f); return k(h); }
    script_error("unknown flag type", t);
}
template <class FN, class A, class B> static obsx flag_apply(FN fn, A& a, B& b)
{
    obsx o;
    capu(o, fn(a.v, b.v));
    cap(o, fn(a.o, b.o));
    return o;
}
template <class FN, class A, class B> static obsx flag_asg(FN fn, A& a, B& b, bool divides = false)
{
    obsx o;
    int raw = a.v;
    o.pre = text(raw);
    if (divides && b.v == 0) o.u = "undefined";      // (int / 0 has no underlying result; the lifted call is still made)
    else { fn(raw, b.v); capu(o, raw); }
    fn(a.o, b.o);
    cap(o, a.o);
    return o;
}
static obsx flag_call(const std::string& op, const std::string& f, const vj::value& p, const vj::value& q)
{
    return with_flag(p, [&](auto& a) {
        return with_flag(q, [&](auto& b) {
            if (op == "CompareF")
            {
                if (f == "eq") return flag_apply([](const auto& x, const auto& y) { return x == y; }, a, b);
                if (f == "ne") return flag_apply([](const auto& x, const auto& y) { return x != y; }, a, b);
            }
            if (op == "CallF")
            {
                if (f == "plus") return flag_apply([](const auto& x, const auto& y) { return x + y; }, a, b);
                if (f == "minus") return flag_apply([](const auto& x, const auto& y) { return x - y; }, a, b);
                if (f == "mul") return flag_apply([](const auto& x, const auto& y) { return x * y; }, a, b);
                if (f == "lt") return flag_apply([](const auto& x, const auto& y) { return x < y; }, a, b);
            }
            if (op == "CompoundF")
            {
                if (f == "plus_eq") return flag_asg([](auto& x, const auto& y) { x += y; }, a, b);
                if (f == "mul_eq") return flag_asg([](auto& x, const auto& y) { x *= y; }, a, b);
                if (f == "div_eq") return flag_asg([](auto& x, const auto& y) { x /= y; }, a, b, true);
            }
            script_error("unknown call on flag-typed optionals", op + " " + f);
            return obsx();
        });
    });
}

static obsx step(const vj::value& e)
{
    const std::string& op = e.str("op");
    const vj::value& a = e.at("a");
    if (op == "Call" || op == "Compare" || op == "Compound" || op == "Expr")
    {
        std::vector<opd> ps;
        for (auto& p : a.at("ps").a) ps.push_back(read_opd(p));
        const std::string& ty = a.str("ty");
        const std::string g = a.has("g") ? a.str("g") : std::string();
        if (ty == "dbit") return call_double<xtl::xoptional<double>>(op, a.str("f"), ps, g);
        if (ty == "mbit") return call_double<xtl::xmasked_value<double>>(op, a.str("f"), ps, g);
        if (ty == "cpx") return call_cpx(op, a.str("f"), ps, g);
        if (ty == "nest") return call_nest(op, a.str("f"), ps, g);
        script_error("unknown value type", ty);
    }
    obsx o;
    if (op == "Conv")
    {
        // xoptional<int> o = m; for an xmasked_value<int> m
        int v = tab<int>::get(a.num("x"));
        xtl::xmasked_value<int> m(v, bool(a.at("vis").b));
        xtl::xoptional<int> r = m;
        o.has = bool(r.has_value()); o.val = text(r.value()); o.u = text(v);
        return o;
    }
    if (op == "JsonTrip")
    {
#ifdef HAVE_NLOHMANN_JSON
        int v = tab<int>::get(a.num("x"));
        xtl::xoptional<int> src(v, bool(a.at("h").b));
        nlohmann::json j = src;
        xtl::xoptional<int> back = j.get<xtl::xoptional<int>>();
        o.has = bool(back.has_value()); o.val = text(back.value()); o.u = text(v); o.pre = j.dump();
        return o;
#else
        script_error("built without json");
#endif
    }
    if (op == "EqualM")
    {
        std::vector<opd> ps;
        for (auto& p : a.at("ps").a) ps.push_back(read_opd(p));
        double x = tab<double>::get(ps[0].x), y = tab<double>::get(ps[1].x);
        o.u = text(x == y); o.has = true;
        if (a.str("fam") == "opt")
        {
            xtl::xoptional<double> l(x, bool(ps[0].h));
            if (ps[1].l) { xtl::xoptional<double> r(y, bool(ps[1].h)); o.val = text(l.equal(r)); }
            else o.val = text(l.equal(y));
        }
        else
        {
            xtl::xmasked_value<double> l(x, bool(ps[0].h));
            if (ps[1].l) { xtl::xmasked_value<double> r(y, bool(ps[1].h)); o.val = text(l.equal(r)); }
            else o.val = text(l.equal(y));
        }
        return o;
    }
    if (op == "CompareF" || op == "CallF" || op == "CompoundF") return flag_call(op, a.str("f"), a.at("p"), a.at("q"));
    if (op == "Factory")
    {
        int v = tab<int>::get(a.num("x"));
        if (a.str("how") == "missing") { auto r = xtl::missing<int>(); o.has = bool(r.has_value()); o.val = text(r.value()); o.u = "0"; }
        else { o.has = xtl::has_value(v); o.val = text(xtl::value(v)); o.u = text(v); }
        return o;
    }
    script_error("unknown op", op);
}

int main()
{
    vj::install_crash_handlers();
    std::string line;
    while (std::getline(std::cin, line))
    {
        if (line.empty()) continue;
        vj::value e = vj::parse(line);
        obsx o = step(e);
        vj::out res;
        res.kb("has", o.has).ks("val", o.val).ks("u", o.u).kb("vn", o.vn).kb("un", o.un).ks("pre", o.pre);
        std::string head = line.substr(0, line.rfind('}'));
        std::fputs((head + ",\"res\":" + res.obj() + "}\n").c_str(), stdout);
    }
    return 0;
}

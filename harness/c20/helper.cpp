// C20 conformance helper: built from the real xsystem.hpp / xplatform.hpp, copied (hard-linked) to
// every install location the spec enumerates and started there the way the configuration says.
// Reads one script line {"op":"Run"|"Blind"|"Endian",...} on stdin, performs the calls, prints the line
// extended with what it observed.  No oracle: the returned strings are only DESCRIBED
// (per component: byte length, character class, 30-bit hash), TLC compares with InstallPath.tla.
// Run: executable_path(), prefix_path(), then chdir("/") and both again ("again": the answers may not depend on
// the working directory or on earlier calls).  Blind: the same calls where the platform gives no answer (no /proc):
// only "the calls returned" is reported.  Only the public functions are used, their results through std::string.
#include <cstdint>
#include <cstdio>
#include <cstring>
#include <iostream>
#include <string>
#include <vector>
#include <unistd.h>
#include <sys/stat.h>
#include "xtl/xsystem.hpp"
#include "xtl/xplatform.hpp"
#include "vjson.hpp"

namespace
{
    std::uint32_t hash30(const std::string& s)
    {
        std::uint32_t h = 2166136261u;                 // FNV-1a
        for (unsigned char c : s) { h ^= c; h *= 16777619u; }
        return (h ^ (h >> 15)) & 0x3fffffffu;
    }

    bool ends_with(const std::string& s, const char* suffix)
    {
        std::size_t n = std::strlen(suffix);
        return s.size() >= n && s.compare(s.size() - n, n, suffix) == 0;
    }

    // the same classification as checks/c20.py cls_of (a description of the name, first match wins)
    const char* cls_of(const std::string& s)
    {
        bool sp = false, dot = false, punct = false, ctrl = false, high = false, low = false;
        for (unsigned char c : s)
        {
            if (c >= 0x80) high = true; else low = true;
            if (c == ' ') sp = true;
            if (c == '.') dot = true;
            if ((c < 0x20 && c != '\t') || c == 0x7f) ctrl = true;
            if (std::strchr("\\'\":;*?<>|&$!#()[]{}`~^\t", c) && c != 0) punct = true;
        }
        if (high) return low ? "utf8" : "mb";
        if (ctrl) return "ctrl";
        if (ends_with(s, " (deleted)")) return "delsfx";
        if (!s.empty() && (s.front() == ' ' || s.back() == ' ')) return "edge";
        if ((s.size() >= 2 && s[0] == '.' && s[1] == '.') || (!s.empty() && s.back() == '.')) return "dots";
        if (!s.empty() && (s.front() == '-' || s.front() == '.')) return "lead";
        return punct ? "punct" : sp ? "space" : dot ? "dot" : "ascii";
    }

    // [abs, trail, dbl, comps]: starts with '/', ends with '/', number of empty segments, the segments
    std::string describe(const std::string& s)
    {
        bool abs = !s.empty() && s.front() == '/';
        bool trail = !s.empty() && s.back() == '/';
        std::vector<std::string> comps;
        int dbl = 0;
        std::size_t i = 0;
        // an embedded NUL would end the C string a caller sees: cut there and report it as a component of its own
        std::size_t nul = s.find('\0');
        std::string t = nul == std::string::npos ? s : s.substr(0, nul);
        while (i < t.size())
        {
            std::size_t j = t.find('/', i);
            if (j == std::string::npos) j = t.size();
            if (j > i) comps.push_back(t.substr(i, j - i));
            else if (i > 0) ++dbl;                      // "//": an empty segment
            i = j + 1;
        }
        std::string c = "[";
        for (std::size_t k = 0; k < comps.size(); ++k)
        {
            if (k) c += ',';
            vj::out o;
            o.kv("len", (long long)comps[k].size()).ks("cls", cls_of(comps[k])).kv("h", hash30(comps[k]));
            c += o.obj();
        }
        c += "]";
        vj::out o;
        o.kb("abs", abs).kb("trail", trail).kv("dbl", dbl + (nul == std::string::npos ? 0 : 1000)).kraw("comps", c);
        return o.obj();
    }

    std::string proc_self_exe()
    {
        std::vector<char> buf(65536);
        ssize_t n = readlink("/proc/self/exe", buf.data(), buf.size());
        return n < 0 ? std::string() : std::string(buf.data(), (std::size_t)n);
    }
}

int main()
{
    vj::install_crash_handlers();
    std::string line;
    if (!std::getline(std::cin, line)) return 3;
    vj::value e = vj::parse(line);
    const std::string op = e.str("op");
    std::string body = line.substr(0, line.find_last_of('}'));
    if (op == "Blind")
    {
        std::string exe = xtl::executable_path();
        std::string pre = xtl::prefix_path();
        std::printf("%s,\"res\":{\"returned\":true},\"sizes\":[%lld,%lld]}\n", body.c_str(), (long long)exe.size(), (long long)pre.size());
    }
    else if (op == "Run")
    {
        std::string exe = xtl::executable_path();
        std::string pre = xtl::prefix_path();
        if (chdir("/") != 0) { std::fprintf(stderr, "chdir failed\n"); return 3; }
        std::string exe2 = xtl::executable_path();
        std::string pre2 = xtl::prefix_path();
        vj::out again;
        again.kraw("exe", describe(exe2)).kraw("prefix", describe(pre2));
        // a second route to "names the running binary": the file at the returned path is the running image (same device
        // and inode as /proc/self/exe); and the returned prefix is a leading substring of the returned path
        struct stat sa, sb;
        bool same = ::stat(exe.c_str(), &sa) == 0 && ::stat("/proc/self/exe", &sb) == 0 && sa.st_dev == sb.st_dev && sa.st_ino == sb.st_ino;
        bool pfx = !pre.empty() && exe.compare(0, pre.size(), pre) == 0;
        vj::out res;
        res.kb("same", same).kb("pfx", pfx);
        res.kraw("exe", describe(exe)).kraw("prefix", describe(pre)).kv("bytes", (long long)exe.size()).kraw("again", again.obj());
        // what the kernel says, read independently with a large buffer: not compared by the spec, used by the
        // runner only to tell "the configuration was not materialised as intended" from a violation
        std::printf("%s,\"res\":%s,\"indep\":%s}\n", body.c_str(), res.obj().c_str(), describe(proc_self_exe()).c_str());
    }
    else if (op == "Endian")
    {
        std::uint32_t u = 0x01020304u;
        unsigned char b[4];
        std::memcpy(b, &u, 4);
        xtl::endian v = xtl::endianness();
        const char* name = v == xtl::endian::big_endian ? "big" : v == xtl::endian::little_endian ? "little"
                         : v == xtl::endian::mixed ? "mixed" : "other";
        std::printf("{\"op\":\"Endian\",\"k\":1,\"a\":{\"mem\":[%d,%d,%d,%d]},\"res\":{\"val\":\"%s\"}}\n",
                    b[0], b[1], b[2], b[3], name);
    }
    else
    {
        std::fprintf(stderr, "script: unknown op %s\n", op.c_str());
        return 3;
    }
    return 0;
}

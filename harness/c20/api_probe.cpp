// C20 interface probe (see harness/base64/api_probe.cpp for the role of such a file): the three functions called
// the way the property statement and test/test_xsystem.cpp, test/test_xplatform.cpp call them.
#include "xtl/xsystem.hpp"
#include "xtl/xplatform.hpp"
#include <algorithm>
#include <string>

int main()
{
    std::string exec_path = xtl::executable_path();
    std::string prefix = xtl::prefix_path();
    bool ok = !exec_path.empty() && prefix.size() != exec_path.size() && std::equal(prefix.cbegin(), prefix.cend(), exec_path.cbegin());
    ok = (xtl::endianness() == xtl::endian::big_endian || xtl::endianness() == xtl::endian::little_endian || xtl::endianness() == xtl::endian::mixed) && ok;
    return ok ? 0 : 1;
}

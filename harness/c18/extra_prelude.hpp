// C18 prelude for the ADVISORY table of PromoteExtra.tla (common_optional, time_point promotion); no oracle.
#ifndef VERIF_C18_EXTRA_PRELUDE_HPP
#define VERIF_C18_EXTRA_PRELUDE_HPP
#include <chrono>
#include <ratio>
#include <type_traits>
#include "xtl/xtype_traits.hpp"
#include "xtl/xoptional_meta.hpp"

namespace ex
{
    template <class X_, class Y_> using same = std::is_same<X_, Y_>;
    template <class R, long N, long D>
    using tp = std::chrono::time_point<std::chrono::system_clock, std::chrono::duration<R, std::ratio<N, D>>>;
}
#endif

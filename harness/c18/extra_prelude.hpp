// C18 prelude for the ADVISORY table of PromoteExtra.tla (common_optional, time_point promotion); no oracle.
#ifndef VERIF_C18_EXTRA_PRELUDE_HPP
#define VERIF_C18_EXTRA_PRELUDE_HPP
#include <chrono>
#include <ratio>
#include <type_traits>
#include "xtl/xtype_traits.hpp"
#include "xtl/xoptional_meta.hpp"
#include <complex>
#include "xtl/xhalf_float.hpp"
#include "xtl/xcomplex.hpp"
#include "xtl/xoptional.hpp"
#include "xtl/xmasked_value.hpp"

namespace ex
{
    template <class X_, class Y_> using same = std::is_same<X_, Y_>;
    // round 3: representatives of the type kinds for the classification traits; trait classes with an int member `value`
    struct k_class {};
    enum k_enum { k_e0 };
    struct T1 { static constexpr bool value = true; };
    struct F1 { static constexpr bool value = false; };
    struct I2 { static constexpr int value = 2; };
    struct I0 { static constexpr int value = 0; };
    template <class B, class D> using base_of = std::is_base_of<B, D>;
    template <class R, long N, long D>
    using tp = std::chrono::time_point<std::chrono::system_clock, std::chrono::duration<R, std::ratio<N, D>>>;
}
#endif

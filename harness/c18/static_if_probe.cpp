// C18 interface probe (see harness/base64/api_probe.cpp for the role of such a file): static_if called the way
// test/test_xmeta_utils.cpp and xany.hpp call it.  With -DTAG_FORM: are the overloads taking std::true_type /
// std::false_type as first argument still public?
#include "xtl/xmeta_utils.hpp"
#include <type_traits>

template <bool B> int tester()
{
    int input = 0;
#ifdef TAG_FORM
    return xtl::mpl::static_if(std::integral_constant<bool, B>(), [&](auto) { return input; }, [&](auto) { return input + 1; });
#else
    return xtl::mpl::static_if<B == false>([&](auto /*self*/) { return input; }, /*else*/ [&](auto /*self*/) { return input + 1; });
#endif
}
template <bool B> struct tester2
{
    int input = 0;
    int& operator()()
    {
        return xtl::mpl::static_if<B == false>([&](auto /*self*/) -> int& { return input; }, [&](auto /*self*/) -> int& { input++; return input; });
    }
};
#ifdef NOCOPY_FORM
// round 3 (advisory): static_if takes its callables by const reference, so a functor that can be neither copied nor moved is accepted
struct pinned
{
    pinned() = default;
    pinned(const pinned&) = delete;
    template <class S> int operator()(S) const { return 1; }
};
int nocopy()
{
    pinned a, b;
#ifdef TAG_FORM
    return xtl::mpl::static_if<true>(a, b) + xtl::mpl::static_if(std::false_type(), a, b);
#else
    return xtl::mpl::static_if<true>(a, b) + xtl::mpl::static_if<false>(a, b);
#endif
}
#endif
int main()
{
    tester2<true> t;
    return tester<false>() + tester<true>() + t() == 2 ? 0 : 1;
}

// C18 conformance driver for xtl::mpl::static_if (the one run-time member of xmeta_utils.hpp).
// Reads script lines {"op":"StaticIf","a":{"c":bool,"form":"tmpl"|"tag","t":{"val":n,"rt":kind},"f":{...}}}
// on stdin, performs the call on the real static_if and prints the line extended with
// "res": {val, rt, tcalls, fcalls}.  No oracle: it executes and prints what it observed.
// The form static_if(std::integral_constant<bool, c>(), tf, ff) is compiled only with -DHAVE_TAG_FORM (the runner probes
// whether these overloads are still public; the statement only names static_if).  A call that does not return is ended
// by a per-line CPU / wall-clock watchdog (Crash line).
#include <cstdio>
#include <iostream>
#include <string>
#include <type_traits>
#include "xtl/xmeta_utils.hpp"
#include "vjson.hpp"
#include <sys/time.h>

static void on_watchdog(int sig)
{
    vj::crash_line(sig == SIGPROF ? "timeout: the call did not return within 3 s of CPU time" : "timeout: the call did not return within 90 s");
    _exit(0);
}
static void arm_watchdog(long cpu_s, long wall_s)
{
    struct itimerval cpu = {{0, 0}, {cpu_s, 0}}, wall = {{0, 0}, {wall_s, 0}};
    setitimer(ITIMER_PROF, &cpu, nullptr);
    setitimer(ITIMER_REAL, &wall, nullptr);
}

namespace
{
    struct kint {};     // callable returns int by value
    struct kref {};     // returns int& (decltype(auto) must keep the reference)
    struct kstr {};     // returns std::string (a different type in the other branch must be fine)

    struct kcref {};    // returns const int& (reference-ness and constness must both survive)
    struct knocopy {};  // a functor that can be neither copied nor moved, returns int

    struct cell
    {
        int value = 0;
        int calls = 0;
        int self_ok = 0;
    };

    template <class K> struct maker;
    template <> struct maker<kint>
    {
        static auto make(cell& c)
        {
            return [&c](auto self) { ++c.calls; c.self_ok += (self(7) == 7); return c.value; };
        }
    };
    template <> struct maker<kref>
    {
        static auto make(cell& c)
        {
            return [&c](auto self) -> int& { ++c.calls; c.self_ok += (self(7) == 7); return c.value; };
        }
    };
    template <> struct maker<kstr>
    {
        static auto make(cell& c)
        {
            return [&c](auto self) { ++c.calls; c.self_ok += (self(7) == 7); return std::to_string(c.value); };
        }
    };

    template <> struct maker<kcref>
    {
        static auto make(cell& c)
        {
            return [&c](auto self) -> const int& { ++c.calls; c.self_ok += (self(7) == 7); return c.value; };
        }
    };
    struct pinned
    {
        cell& c;
        explicit pinned(cell& cc) : c(cc) {}
        pinned(const pinned&) = delete;
        pinned& operator=(const pinned&) = delete;
        template <class S> int operator()(S self) const { ++c.calls; c.self_ok += (self(7) == 7); return c.value; }
    };

    template <class R> struct kind_name { static const char* get() { return "other"; } };
    template <> struct kind_name<const int&> { static const char* get() { return "cref"; } };
    template <> struct kind_name<int> { static const char* get() { return "int"; } };
    template <> struct kind_name<int&> { static const char* get() { return "intref"; } };
    template <> struct kind_name<std::string> { static const char* get() { return "str"; } };

    inline long long to_num(int v) { return v; }
    inline long long to_num(const std::string& s) { return std::stoll(s); }

    struct result
    {
        long long val;
        const char* rt;
        bool aliases;   // for a reference result: it refers to the selected callable's cell
    };

    template <class K> struct holder
    {
        decltype(maker<K>::make(std::declval<cell&>())) f;
        explicit holder(cell& c) : f(maker<K>::make(c)) {}
    };
#ifdef HAVE_NOCOPY
    template <> struct holder<knocopy>
    {
        pinned f;
        explicit holder(cell& c) : f(c) {}
    };
#else
    template <> struct maker<knocopy> : maker<kint> {};       // (never requested by the runner in such a build)
#endif

    template <bool C, class KT, class KF>
    result call(bool tag_form, cell& ct, cell& cf)
    {
        holder<KT> ht(ct);
        holder<KF> hf(cf);
        auto& tf = ht.f;
        auto& ff = hf.f;
        result r;
        if (tag_form)
        {
#ifndef HAVE_TAG_FORM
            std::fprintf(stderr, "script: form tag in a build without -DHAVE_TAG_FORM\n");
            std::exit(3);
#else
            using R = decltype(xtl::mpl::static_if(std::integral_constant<bool, C>(), tf, ff));
            R v = xtl::mpl::static_if(std::integral_constant<bool, C>(), tf, ff);
            r.val = to_num(v);
            r.rt = kind_name<R>::get();
            r.aliases = std::is_reference<R>::value &&
                        (static_cast<const void*>(&v) == static_cast<const void*>(C ? &ct.value : &cf.value));
#endif
        }
        else
        {
            using R = decltype(xtl::mpl::static_if<C>(tf, ff));
            R v = xtl::mpl::static_if<C>(tf, ff);
            r.val = to_num(v);
            r.rt = kind_name<R>::get();
            r.aliases = std::is_reference<R>::value &&
                        (static_cast<const void*>(&v) == static_cast<const void*>(C ? &ct.value : &cf.value));
        }
        return r;
    }

    template <bool C, class KT>
    result call_f(const std::string& kf, bool tag, cell& ct, cell& cf)
    {
        if (kf == "int") return call<C, KT, kint>(tag, ct, cf);
        if (kf == "intref") return call<C, KT, kref>(tag, ct, cf);
        if (kf == "str") return call<C, KT, kstr>(tag, ct, cf);
        if (kf == "cref") return call<C, KT, kcref>(tag, ct, cf);
        if (kf == "nocopy") return call<C, KT, knocopy>(tag, ct, cf);
        std::fprintf(stderr, "script: unknown callable kind %s\n", kf.c_str());
        std::exit(3);
    }

    template <bool C>
    result call_t(const std::string& kt, const std::string& kf, bool tag, cell& ct, cell& cf)
    {
        if (kt == "int") return call_f<C, kint>(kf, tag, ct, cf);
        if (kt == "intref") return call_f<C, kref>(kf, tag, ct, cf);
        if (kt == "str") return call_f<C, kstr>(kf, tag, ct, cf);
        if (kt == "cref") return call_f<C, kcref>(kf, tag, ct, cf);
        if (kt == "nocopy") return call_f<C, knocopy>(kf, tag, ct, cf);
        std::fprintf(stderr, "script: unknown callable kind %s\n", kt.c_str());
        std::exit(3);
    }
}

int main()
{
    vj::install_crash_handlers();
    std::signal(SIGPROF, on_watchdog);
    std::signal(SIGALRM, on_watchdog);
    std::string line;
    while (std::getline(std::cin, line))
    {
        if (line.empty()) continue;
        vj::value e = vj::parse(line);
        arm_watchdog(3, 90);
        if (e.str("op") != "StaticIf")
        {
            std::fprintf(stderr, "script: unknown op %s\n", e.str("op").c_str());
            return 3;
        }
        const vj::value& a = e.at("a");
        bool c = a.at("c").b;
        bool tag = a.str("form") == "tag";
        cell ct, cf;
        ct.value = static_cast<int>(a.at("t").num("val"));
        cf.value = static_cast<int>(a.at("f").num("val"));
        const std::string& kt = a.at("t").str("rt");
        const std::string& kf = a.at("f").str("rt");
        result r = c ? call_t<true>(kt, kf, tag, ct, cf) : call_t<false>(kt, kf, tag, ct, cf);
        // a reference result that does not alias the selected cell is reported as a different kind
        std::string rt = r.rt;
        if ((rt == "intref" || rt == "cref") && !r.aliases) rt += "-dangling";
        if (ct.self_ok != ct.calls || cf.self_ok != cf.calls) rt += "-badself";
        vj::out res;
        res.kv("val", r.val).ks("rt", rt).kv("tcalls", ct.calls).kv("fcalls", cf.calls);
        std::string body = line.substr(0, line.find_last_of('}'));
        std::printf("%s,\"res\":%s}\n", body.c_str(), res.obj().c_str());
        std::fflush(stdout);
    }
    arm_watchdog(0, 0);
    return 0;
}

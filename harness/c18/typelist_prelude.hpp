// C18 conformance prelude for the generated static_assert tables of TypeList.tla.
// No oracle here: only the vocabulary the generated rows are written in
// (alphabet atoms, predicates, unary metafunctions, lazy operands, condition types).
// The including file defines TL_ATOM_A, TL_ATOM_B, TL_ATOM_C (alphabet) and TL_ATOM_D (probe)
// as four pairwise distinct C++ types (chosen by the runner from a pool, by seed).
#ifndef VERIF_C18_TYPELIST_PRELUDE_HPP
#define VERIF_C18_TYPELIST_PRELUDE_HPP
#include <cstddef>
#include <cstdint>
#include <tuple>
#include <type_traits>
#include "xtl/xmeta_utils.hpp"

namespace tl
{
    namespace mpl = xtl::mpl;

    // pool of atom types (any type may be an element of a type list)
    struct s_empty {};
    struct s_incomplete;
    struct s_abstract { virtual void f() = 0; };
    struct s_final final {};
    enum e_enum { e0 };
    union u_union { int i; char c; };

    using A = TL_ATOM_A;
    using B = TL_ATOM_B;
    using C = TL_ATOM_C;
    using D = TL_ATOM_D;
    static_assert(!std::is_same<A, B>::value && !std::is_same<A, C>::value && !std::is_same<A, D>::value &&
                  !std::is_same<B, C>::value && !std::is_same<B, D>::value && !std::is_same<C, D>::value,
                  "prelude: atoms must be distinct types");

    // a second list template, a class template used by transform, lazy operands of eval_if
    template <class... T> struct other {};
    template <class T> struct W {};
    template <class T, class U = void> struct W2 {};          // a second, defaulted parameter: F<T> is W2<T, void>
    template <class T> struct id { using type = T; };
    struct notype {};

    // condition types that are not std::integral_constant
    struct yes { static constexpr bool value = true; };
    struct no { static constexpr bool value = false; };
    template <bool b> using cond_t = std::conditional_t<b, yes, no>;

    // predicates: p<M> holds on atom number i iff bit i of M is set, and on no other type
    template <class T> struct atom_index : std::integral_constant<int, -1> {};
    template <> struct atom_index<A> : std::integral_constant<int, 0> {};
    template <> struct atom_index<B> : std::integral_constant<int, 1> {};
    template <> struct atom_index<C> : std::integral_constant<int, 2> {};
    template <int M, class T>
    struct in_mask : std::integral_constant<bool, (atom_index<T>::value >= 0) &&
                                                  ((M >> (atom_index<T>::value < 0 ? 0 : atom_index<T>::value)) & 1) != 0> {};
    template <class T> struct p0 : in_mask<0, T> {};
    template <class T> struct p1 : in_mask<1, T> {};
    template <class T> struct p2 : in_mask<2, T> {};
    template <class T> struct p3 : in_mask<3, T> {};
    template <class T> struct p4 : in_mask<4, T> {};
    template <class T> struct p5 : in_mask<5, T> {};
    template <class T> struct p6 : in_mask<6, T> {};
    template <class T> struct p7 : in_mask<7, T> {};

    // unary metafunctions given as alias templates: rot maps A->B->C->A, const1 maps everything to A
    template <class T> struct rot_impl { using type = T; };
    template <> struct rot_impl<A> { using type = B; };
    template <> struct rot_impl<B> { using type = C; };
    template <> struct rot_impl<C> { using type = A; };
    template <class T> using rot = typename rot_impl<T>::type;
    template <class T> struct const1_impl { using type = A; };
    template <class T> using const1 = typename const1_impl<T>::type;

    template <class X, class Y> using same = std::is_same<X, Y>;

    // round 3: vocabulary of the second routes (no xtl inside): "is the type V" as a predicate template for count_if /
    // find_if, concatenation of two lists (split must concatenate back), the n-th element through std::tuple_element
    template <class T> struct eq_A : std::is_same<T, A> {};
    template <class T> struct eq_B : std::is_same<T, B> {};
    template <class T> struct eq_C : std::is_same<T, C> {};
    template <class T> struct eq_D : std::is_same<T, D> {};
    template <class L1, class L2> struct concat_impl;
    template <template <class...> class L1, class... T, template <class...> class L2, class... U>
    struct concat_impl<L1<T...>, L2<U...>> { using type = L1<T..., U...>; };
    template <class L1, class L2> using concat = typename concat_impl<L1, L2>::type;
    template <std::size_t I, class L> struct nth_impl;
    template <std::size_t I, template <class...> class L, class T0, class... T>
    struct nth_impl<I, L<T0, T...>> : nth_impl<I - 1, L<T...>> {};
    template <template <class...> class L, class T0, class... T>
    struct nth_impl<0, L<T0, T...>> { using type = T0; };
    template <std::size_t I, class L> using nth = typename nth_impl<I, L>::type;
    template <class L> struct len_impl;
    template <template <class...> class L, class... T> struct len_impl<L<T...>> : std::integral_constant<std::size_t, sizeof...(T)> {};
}
#endif

// C18 conformance prelude for the generated static_assert tables of Promote.tla (no oracle).
#ifndef VERIF_C18_TRAITS_PRELUDE_HPP
#define VERIF_C18_TRAITS_PRELUDE_HPP
#include <complex>
#include <cstdint>
#include <type_traits>
#include <utility>
#include "xtl/xtype_traits.hpp"

namespace tr
{
    // trait-like classes for the logical traits; T2/F2 are distinct types with the same value as T1/F1,
    // X has no member `value` (it may only stand where [meta.logical] does not instantiate Bi::value)
    struct T1 { static constexpr bool value = true; };
    struct T2 : std::true_type { using tag = void; };
    struct F1 { static constexpr bool value = false; };
    struct F2 : std::false_type { using tag = void; };
    struct X {};

    // the concept helpers: the variable templates exist only where the header defines them (not under clang,
    // which reports __GNUC__ == 4); the enable_if aliases check_* exist everywhere and are probed by SFINAE
    template <class... C> struct pack {};
    template <class... T> struct mk_void { using type = void; };
    template <template <class...> class Chk, class P, class = void> struct passes : std::false_type {};
    template <template <class...> class Chk, class... C>
    struct passes<Chk, pack<C...>, typename mk_void<Chk<C...>>::type> : std::true_type {};
#if !defined(__GNUC__) || (defined(__GNUC__) && (__GNUC__ >= 5))
#define VT_REQUIRES(...) xtl::xtl_requires<__VA_ARGS__>
#define VT_EITHER(...) xtl::either<__VA_ARGS__>
#define VT_DISALLOW(...) xtl::disallow<__VA_ARGS__>
#define VT_DISALLOW_ONE(...) xtl::disallow_one<__VA_ARGS__>
#else
#define VT_REQUIRES(...) passes<xtl::check_requires, pack<__VA_ARGS__>>::value
#define VT_EITHER(...) passes<xtl::check_either, pack<__VA_ARGS__>>::value
#define VT_DISALLOW(...) passes<xtl::check_disallow, pack<__VA_ARGS__>>::value
#define VT_DISALLOW_ONE(...) passes<xtl::check_disallow_one, pack<__VA_ARGS__>>::value
#endif

    // round 3: the macros as they are used - as a defaulted non-type template parameter of a function template
    template <class... C, XTL_REQUIRES(C...)> constexpr bool fn_requires(int) { return true; }
    template <class... C> constexpr bool fn_requires(long) { return false; }
    template <class... C, XTL_EITHER(C...)> constexpr bool fn_either(int) { return true; }
    template <class... C> constexpr bool fn_either(long) { return false; }
    template <class... C, XTL_DISALLOW(C...)> constexpr bool fn_disallow(int) { return true; }
    template <class... C> constexpr bool fn_disallow(long) { return false; }
    template <class... C, XTL_DISALLOW_ONE(C...)> constexpr bool fn_disallow_one(int) { return true; }
    template <class... C> constexpr bool fn_disallow_one(long) { return false; }

    // representatives of the type kinds of [basic.types] for all_scalar
    struct k_class {};
    enum k_enum { k_e0 };
    namespace kind
    {
        using int_ = int; using double_ = double; using bool_ = bool; using pointer = k_class*; using enum_ = k_enum;
        using nullptr_ = std::nullptr_t; using memptr = int k_class::*; using cint = const int;
        using class_ = k_class; using lref = int&; using array = int[2]; using void_ = void; using function = void(int);
    }

    template <class X_, class Y_> using same = std::is_same<X_, Y_>;
    template <class B, class D> using base_of = std::is_base_of<B, D>;
    // the type of a + b as the compiler computes it (cross-check of the oracle, no xtl involved)
    template <class X_, class Y_> using add_t = decltype(std::declval<X_>() + std::declval<Y_>());
    template <class X_, class Y_, class Z_> using add3_t = decltype(std::declval<X_>() + std::declval<Y_>() + std::declval<Z_>());
}
#endif

// Measures the platform parameters of Promote.tla: value bits (numeric_limits::digits) and
// signedness of every builtin arithmetic type.  One JSON record on stdout.
#include <cstdio>
#include <limits>
#include <type_traits>
template <class T> void one(const char* n, bool last = false)
{
    std::printf("\"%s\":%d%s", n, std::numeric_limits<T>::digits, last ? "" : ",");
}
template <class T> void sg(const char* n, bool last = false)
{
    std::printf("\"%s\":%s%s", n, std::is_signed<T>::value ? "true" : "false", last ? "" : ",");
}
#define ALL(F) F<bool>("bool"); F<char>("char"); F<signed char>("schar"); F<unsigned char>("uchar"); F<wchar_t>("wchar_t"); \
    F<char16_t>("char16_t"); F<char32_t>("char32_t"); F<short>("short"); F<unsigned short>("ushort"); F<int>("int"); \
    F<unsigned int>("uint"); F<long>("long"); F<unsigned long>("ulong"); F<long long>("llong"); F<unsigned long long>("ullong"); \
    F<float>("float"); F<double>("double"); F<long double>("ldouble", true);
int main()
{
    std::printf("{\"digits\":{");
    ALL(one)
    std::printf("},\"signed\":{");
    ALL(sg)
    std::printf("}}\n");
    return 0;
}

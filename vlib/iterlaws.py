"""C12 (iterator laws): the kind table and the script generators of checks/c12.py.

Nothing in this module judges: the generators only track what they need to stay inside the C++
preconditions of the calls they emit (positions of the two iterators; the stored values, to choose writes
that are visible, values to search for, and to know when a range is sorted for std::lower_bound)."""
import random


def K(group, ra, ext, mut, std, shape, steps=(1,), maxn=None, stp=False, dc=True, srcs=(0,), idx=None, array=False, adv=False, twin=False):
    return {"group": group, "ra": ra, "ext": ext, "mut": mut, "std": std, "shape": shape, "steps": steps,
            "maxn": maxn, "stp": stp, "dc": dc, "srcs": srcs, "idx": idx, "array": array, "adv": adv, "twin": twin}


# kind -> driver group, capability class (what the spec enables), element shape.
#   dc   default-constructible: a capability, overwritten by what harness/iter/facts.cpp observes
#   std  usable with std::iterator_traits: demanded of every kind except xvalue_iterator (private base; observed)
#   srcs ways of obtaining the iterators: 0 = begin()/cbegin()/rbegin()/crbegin() of the container,
#        1 = begin()/end()/rbegin()/rend() of a CONST reference to the container (const kinds only)
#   idx  number of the kind in harness/iter/facts.cpp
#   adv  the kind lies outside the property statement (negative stride): own traces, rejections are advisory
#   twin the container names a const twin of this iterator type (mixed iterator / const_iterator expressions, advisory);
#        const kinds are their own twin: there the stage compares the cbegin()/cend()-based observers with the begin()-based ones
KINDS = {
    "bit8_it":    K(0, True, False, True, True, "bit", idx=0, twin=True),
    "bit8_cit":   K(0, True, False, False, True, "bit", srcs=(0, 1), idx=1, twin=True),
    "bit8_rit":   K(11, True, False, True, True, "bit", idx=2),          # std::reverse_iterator<xbitset_iterator>
    "bit8_crit":  K(11, True, False, False, True, "bit", srcs=(0, 1), idx=3),
    "bit64_it":   K(0, True, False, True, True, "bit", idx=4, twin=True),
    "bit64_cit":  K(0, True, False, False, True, "bit", srcs=(0, 1), idx=5),
    "bitv8_it":   K(0, True, False, True, True, "bit", idx=6, twin=True),
    "bitv8_cit":  K(0, True, False, False, True, "bit", srcs=(0, 1), idx=7),
    "optvec_it":   K(1, True, False, True, True, "opt", idx=8, twin=True),
    "optvec_cit":  K(1, True, False, False, True, "opt", srcs=(0, 1), idx=9, twin=True),
    "optvec_rit":  K(1, True, False, True, True, "opt", idx=10, twin=True),
    "optvec_crit": K(1, True, False, False, True, "opt", srcs=(0, 1), idx=11),
    "cplxvec_it":   K(2, True, False, True, True, "cplx", idx=12, twin=True),
    "cplxvec_cit":  K(2, True, False, False, True, "cplx", srcs=(0, 1), idx=13, twin=True),
    "cplxvec_rit":  K(2, True, False, True, True, "cplx", idx=14, twin=True),
    "cplxvec_crit": K(2, True, False, False, True, "cplx", srcs=(0, 1), idx=15),
    "step_vec":  K(3, True, False, True, True, "int", steps=(1, 2, 3), stp=True, idx=16),
    "step_cvec": K(3, True, False, False, True, "int", steps=(1, 2, 3), stp=True, idx=17),
    "step_ptr":  K(3, True, False, True, True, "int", steps=(1, 2, 3), stp=True, idx=18),
    "key_map":    K(3, False, False, False, True, "key", dc=False, idx=19),
    "value_map":  K(3, False, False, True, False, "int", dc=False, idx=20),     # std: observed (facts traits_bi)
    "cvalue_map": K(3, False, False, False, False, "int", dc=False, idx=21),
    # round 3: the key / value iterators over a std::multimap (keys repeat)
    "key_mmap":   K(3, False, False, False, True, "dupkey", dc=False, idx=40),
    "value_mmap": K(3, False, False, True, False, "int", dc=False, idx=41),
    # round 3, advisory: xstepping_iterator<int*> with a NEGATIVE stride (the statement says "positive step")
    "step_neg":   K(3, True, False, True, True, "int", steps=(1, 2, 3), stp=True, adv=True),
    "toy_bi1": K(4, False, False, True, True, "int", idx=22),
    "toy_bi2": K(4, False, False, True, True, "int", idx=23),
    "toy_bi3": K(4, False, False, True, True, "int", idx=24),
    "toy_ra1": K(4, True, False, True, True, "int", idx=25),
    "toy_ra2": K(4, True, False, True, True, "int", idx=26),
    "toy_ra3": K(4, True, False, True, True, "int", idx=27),
    "toy_ext_int":  K(4, True, True, True, True, "int", idx=28),
    "toy_ext_long": K(4, True, True, True, True, "int", idx=29),
    "optarr_it":   K(5, True, False, True, True, "opt", maxn=6, idx=30, array=True),
    "optarr_cit":  K(6, True, False, False, True, "opt", maxn=6, srcs=(0, 1), idx=31, array=True),
    "optarr_rit":  K(7, True, False, True, True, "opt", maxn=6, idx=32, array=True),
    "cplxarr_it":  K(8, True, False, True, True, "cplx", maxn=6, idx=33, array=True),
    "cplxarr_cit": K(9, True, False, False, True, "cplx", maxn=6, srcs=(0, 1), idx=34, array=True),
    "cplxarr_rit": K(10, True, False, True, True, "cplx", maxn=6, idx=35, array=True),
    # std::reverse_iterator<It> over the random-access xtl iterators (the bitset containers' own
    # reverse_iterator already is one; bidirectional kinds: traversal "stdrev" of every kind)
    "optvec_srit":  K(11, True, False, True, True, "opt", idx=36),
    "cplxvec_srit": K(11, True, False, True, True, "cplx", idx=37),
    "step_srit":    K(11, True, False, True, True, "int", steps=(1, 2, 3), idx=38),
    "toyra_srit":   K(11, True, False, True, True, "int", idx=39),
}
VALUE_KINDS = ("value_map", "cvalue_map", "value_mmap")          # `std` is a capability of the tree for these
ARRAY_GROUPS = (5, 6, 7, 8, 9, 10)
# quick tier: const / reverse / view twins of an iterator template already replayed in full get the
# TLC transitions for n <= 3 only (thorough: everything, n <= 6)
SECONDARY = {"bit8_cit", "bit8_crit", "bit64_it", "bitv8_it", "bitv8_cit", "optvec_cit", "optvec_rit",
             "cplxvec_cit", "cplxvec_rit", "step_cvec", "cvalue_map", "optarr_cit", "optarr_rit", "cplxarr_it", "cplxarr_rit",
             "cplxvec_srit", "toyra_srit"}
GROUPS = sorted(set(k["group"] for k in KINDS.values()))
FLAGS = ("ra", "ext", "mut", "std", "dc", "stp")

# which capability flags an operation needs (IterLaws.tla: every flag only ENABLES operations)
RA_OPS = {"AddAssign", "SubAssign", "Plus", "PlusLeft", "Minus", "Index", "Diff", "Lt", "Le", "Gt", "Ge"}
OP_NEEDS = {"PlusU": {"ra", "ext"}, "PlusLeftU": {"ra", "ext"}, "MinusU": {"ra", "ext"}, "IndexU": {"ra", "ext"},
            "StdAdvance": {"std"}, "StdDistance": {"std"}, "StdNext": {"std"}, "StdPrev": {"std"},
            "StdCopy": {"std"}, "StdCopyBackward": {"std"}, "StdReverseCopy": {"std"}, "StdFind": {"std"}, "StdCount": {"std"},
            "StdEqual": {"std"}, "StdLowerBound": {"std"},
            "StdFill": {"std", "mut"}, "StdReverse": {"std", "mut"}, "StdSort": {"std", "mut", "ra"},
            "Write": {"mut"}, "IndexWrite": {"mut", "ra"}, "ValueInit": {"dc"}, "EqualM": {"stp"}, "LessThanM": {"stp"},
            "DcAssign": {"dc"}, "StdRotate": {"std", "mut"}, "StdMinElement": {"std"}, "StdCopyWithin": {"std", "mut"}}
for _o in RA_OPS:
    OP_NEEDS[_o] = {"ra"}
HOW_NEEDS = {"lt": {"ra"}, "index": {"ra"}, "plus": {"ra"}, "gt": {"ra"}, "minus": {"ra"}, "stdrev": {"std"}, "stdrevidx": {"std", "ra"}}
# bodies that SFINAE cannot see: the driver is built with a capability mask per kind (iter_algos.hpp CAP_*)
CAP_BITS = {"Arrow": 1, "StdFill": 2, "StdReverse": 4, "StdSort": 8, "StdRotate": 16, "StdCopyWithin": 32}
CAP_ALL = 63

ALL_ACTIONS = ["PreInc", "PostInc", "PreDec", "PostDec", "Deref", "Arrow", "Eq", "Ne", "Assign", "AddAssign", "SubAssign",
               "Plus", "PlusLeft", "Minus", "Index", "Diff", "Lt", "Le", "Gt", "Ge", "PlusU", "PlusLeftU", "MinusU", "IndexU",
               "StdAdvance", "StdDistance", "StdNext", "StdPrev", "Write", "IndexWrite", "TraverseForward", "TraverseReverse", "Seat",
               "StdCopy", "StdCopyBackward", "StdReverseCopy", "StdFind", "StdCount", "StdEqual", "StdLowerBound",
               "StdFill", "StdReverse", "StdSort", "ValueInit", "EqualM", "LessThanM",
               "PostIncDeref", "PostDecDeref", "DcAssign", "MultiPass", "StdRotate", "StdMinElement", "StdCopyWithin"]
ADVISORY_ACTIONS = ["ToConst", "MixedCmp"]          # bound by advisory_scripts only
MIXED_OPS = ["eq", "ne", "lt", "le", "gt", "ge", "diff"]
# the negative-stride kind: order comparisons of xstepping_iterator compare the underlying iterators (probed separately)
ORDER_OPS = {"Lt", "Le", "Gt", "Ge", "LessThanM", "StdSort", "StdReverse"}      # libstdc++: std::reverse of random-access iterators loops on first < last
ORDER_HOWS = {"lt", "gt"}

BITPAT = 0xB38F0F5C3A6D91E7C5A3F00FF0E1D2B4   # fixed pseudo-random bit pattern


def needs(op, args):
    n = set(OP_NEEDS.get(op, ()))
    if op in ("TraverseForward", "TraverseReverse"):
        n |= HOW_NEEDS.get(args.get("how"), set())
    if op == "ValueInit" and args.get("o") in ("lt", "le", "gt", "ge"):
        n.add("ra")
    return n


def flags_of(k):
    return {f for f in FLAGS if k[f]}


def pat(j, salt=0):
    return (BITPAT >> ((j * 7 + salt * 13) % 120)) & 1


def elem(shape, j):
    """Element stored at storage index j: reveals j (bit containers: a fixed pattern)."""
    if shape == "bit":
        return [pat(j)]
    if shape == "opt":
        return [10 + j, pat(j, 1)]
    if shape == "cplx":
        return [10 + j, 500 + 3 * j]
    if shape == "key":
        return [10 + 2 * j]            # keys of the map: must be increasing
    if shape == "dupkey":
        return [10 + 2 * (j // 2)]     # keys of the multimap: non-decreasing, each twice
    return [10 + j]


def wval(shape, cur, ctr):
    """A value to write that differs from what is stored."""
    if shape == "bit":
        return [1 - cur[0]]
    if shape == "opt":
        return [1000 + ctr, 1 - cur[1]]
    if shape == "cplx":
        return [1000 + ctr, 2000 + ctr]
    return [1000 + ctr]


def absent(shape, high):
    """A value no container holds: below (high=False) or above (high=True) every stored one."""
    return [9999 if high else -7] * (2 if shape in ("opt", "cplx") else 1)


def reset_event(kind, n, step, src=0):
    k = KINDS[kind]
    a = {"kind": kind, "n": n, "step": step, "under": [elem(k["shape"], j) for j in range(n * step)]}
    for f in FLAGS:
        a[f] = k[f]
    if src:
        a["src"] = src
    return {"op": "Reset", "k": 1, "a": a}


def ev(op, w, **a):
    return {"op": op, "k": w, "a": a or {"z": 0}}


MOVERS = {"PreInc", "PostInc", "PreDec", "PostDec", "AddAssign", "SubAssign", "Assign", "StdAdvance", "PostIncDeref", "PostDecDeref"}
WRITERS = {"Write", "IndexWrite", "StdFill", "StdReverse", "StdSort", "StdRotate", "StdCopyWithin"}
POSITION_FREE = {"ValueInit", "TraverseForward", "TraverseReverse"}
RANGE_OPS = {"StdCopy", "StdCopyBackward", "StdReverseCopy", "StdFind", "StdCount", "StdEqual", "StdLowerBound",
             "StdFill", "StdReverse", "StdSort", "StdRotate", "StdMinElement", "StdCopyWithin"}


def range_slice(under, step, lo, hi):
    return [under[i * step] for i in range(lo, hi)]


def is_sorted(s):
    return all(s[i] <= s[i + 1] for i in range(len(s) - 1))


def copy_within(under, step, lo, hi, j):
    src = range_slice(under, step, lo, hi)
    for i, x in enumerate(src):
        under[(j + i) * step] = x


def apply_range_writer(under, step, op, lo, hi, v=None, m=0):
    """What a conforming std::fill / std::reverse / std::sort leaves in the storage (generator bookkeeping)."""
    s = range_slice(under, step, lo, hi)
    if op == "StdFill":
        s = [list(v) for _ in s]
    elif op == "StdReverse":
        s = s[::-1]
    elif op == "StdSort":
        s = sorted(s)
    elif op == "StdRotate":
        s = s[m:] + s[:m]
    for i, x in zip(range(lo, hi), s):
        under[i * step] = x


# ------------------------------------------------------------- TLC -> scripts
def s2c_scripts(edges, rnd, skip, quick=False, stats=None):
    """For every kind: every TLC transition whose operation the kind's capability class has (and its strides),
    grouped by pre-state.  One execution per (kind, n, step); iterators are (re)seated by the harness's own
    Seat step, rotating through the ways of getting there.  TLC enumerated the two maximal classes; a
    transition belongs to a kind when the kind has every flag the operation needs."""
    by_ra = {True: [], False: []}
    for e in edges:
        by_ra[bool(e["c"]["ra"])].append(e)
    scripts, taken = {}, 0
    unsorted = 0
    for kind in sorted(KINDS):
        k = KINDS[kind]
        if (kind, "*") in skip or k["adv"]:
            continue
        have = flags_of(k)
        vias = ["inc", "dec"] + (["add", "sub"] if k["ra"] else [])
        lines = []
        groups = {}
        for e in by_ra[k["ra"]]:
            p, l = e["p"], e["l"]
            if p["step"] not in k["steps"] or (k["maxn"] is not None and p["n"] > k["maxn"]):
                continue
            if not needs(l["op"], l["a"]) <= have:
                continue
            if (kind, l["op"]) in skip or (quick and kind in SECONDARY and p["n"] > 3):
                continue
            if l["op"] in POSITION_FREE and p["p"] != p["q"]:
                continue                     # the call does not involve the two iterators: once per position, not per pair
            groups.setdefault((p["n"], p["step"]), {}).setdefault((p["p"], p["q"]), []).append(l)
        vi = rnd.randrange(len(vias))
        si = rnd.randrange(len(k["srcs"]))
        for (n, step) in sorted(groups):
            lines.append(reset_event(kind, n, step, src=k["srcs"][si % len(k["srcs"])]))
            si += 1
            under = list(lines[-1]["a"]["under"])
            ctr = 0
            for (p, q) in sorted(groups[(n, step)]):
                calls = groups[(n, step)][(p, q)]
                calls.sort(key=lambda c: (c["op"] in MOVERS, c["op"], c["k"], sorted(c["a"].items(), key=str)))     # observers and writers first
                seat = True
                for c in calls:
                    c = {"op": c["op"], "k": c["k"], "a": dict(c["a"])}
                    op = c["op"]
                    lo, hi = (p, q) if c["k"] == 1 else (q, p)
                    if op in ("StdFind", "StdCount", "StdLowerBound"):
                        # TLC's value is the element at position x / step of the pristine model storage, or one of
                        # the two values no container holds: translate to this container's content
                        x = c["a"]["v"][0]
                        if x == -7 or x == 9999:
                            c["a"]["v"] = absent(k["shape"], x == 9999)
                        else:
                            c["a"]["v"] = list(under[x])
                        if op == "StdLowerBound" and not is_sorted(range_slice(under, step, lo, hi)):
                            unsorted += 1
                            continue
                    if seat:
                        lines.append(ev("Seat", 1, p=p, q=q, via=vias[vi % len(vias)]))
                        vi += 1
                    if op in ("Write", "IndexWrite", "StdFill"):
                        pos = (p if c["k"] == 1 else q) + (c["a"]["k"] if op == "IndexWrite" else 0)
                        ctr += 1
                        cur = under[min(pos, n - 1) * step] if n else elem(k["shape"], 0)
                        c["a"]["v"] = wval(k["shape"], cur, ctr)
                        if op == "StdFill":
                            apply_range_writer(under, step, op, lo, hi, c["a"]["v"])
                        else:
                            under[pos * step] = c["a"]["v"]
                    elif op in ("StdReverse", "StdSort"):
                        apply_range_writer(under, step, op, lo, hi)
                    elif op == "StdRotate":
                        apply_range_writer(under, step, op, lo, hi, m=c["a"]["m"])
                    elif op == "StdCopyWithin":
                        copy_within(under, step, lo, hi, c["a"]["j"])
                    lines.append(c)
                    taken += 1
                    seat = op in MOVERS
        scripts[kind] = lines
    if stats is not None:
        stats["lower_bound_transitions_skipped_unsorted"] = unsorted
    return scripts, taken


# ------------------------------------------------------------- random walks (C->S)
class Walk:
    """Seeded random call sequence for one kind.  Tracks only what it needs to stay inside the
    C++ preconditions (positions, and stored values to choose visible writes / searched values / sorted
    ranges); predicts nothing."""

    def __init__(self, rnd, kind, n, step, skip, src=0):
        self.r, self.kind, self.k, self.n, self.step = rnd, kind, KINDS[kind], n, step
        self.pos = [0, 0]
        self.skip = skip
        self.ctr = 0
        self.lines = [reset_event(kind, n, step, src)]
        self.under = list(self.lines[0]["a"]["under"])
        k = self.k
        ops = ["PreInc", "PostInc", "PreDec", "PostDec", "Deref", "Arrow", "Eq", "Ne", "Assign", "Trav", "Seat",
               "PostIncDeref", "PostDecDeref", "MultiPass"]
        if k["ra"]:
            ops += ["AddAssign", "SubAssign", "Plus", "PlusLeft", "Minus", "Index", "Diff", "Lt", "Le", "Gt", "Ge"] * 2
        if k["ext"]:
            ops += ["PlusU", "PlusLeftU", "MinusU", "IndexU"] * 2
        if k["std"]:
            ops += ["StdAdvance", "StdDistance", "StdNext", "StdPrev"]
            ops += ["StdCopy", "StdCopyBackward", "StdReverseCopy", "StdFind", "StdFind", "StdCount", "StdEqual", "StdLowerBound", "StdLowerBound",
                    "StdMinElement"]
            if k["mut"]:
                ops += ["StdFill", "StdReverse", "StdReverse", "StdRotate", "StdRotate", "StdCopyWithin", "StdCopyWithin"] + (["StdSort", "StdSort"] if k["ra"] else [])
        if k["mut"]:
            ops += ["Write"] + (["IndexWrite"] if k["ra"] else [])
        if k["dc"]:
            ops += ["ValueInit", "DcAssign"]
        if k["stp"]:
            ops += ["EqualM", "LessThanM"]
        self.ops = [o for o in ops if (kind, o) not in skip]
        self.nohows = set(h for (kk, h) in skip if kk == kind + "/how")

    def off(self, lo, hi):
        """an offset in [lo, hi], biased to the ends and small magnitudes"""
        c = [lo, hi, 0, 1, -1, lo + 1, hi - 1]
        c = [x for x in c if lo <= x <= hi]
        return self.r.choice(c) if self.r.random() < 0.6 else self.r.randint(lo, hi)

    def a_value(self, lo, hi):
        """a value to search for: mostly one stored in or near the range, sometimes one no container holds"""
        r, n = self.r, self.n
        x = r.random()
        if n and x < 0.75:
            cand = list(range(lo, hi)) if (lo < hi and r.random() < 0.7) else list(range(n))
            return list(self.under[r.choice(cand) * self.step])
        return absent(self.k["shape"], x < 0.9)

    def step_once(self):
        r, k, n = self.r, self.k, self.n
        for _ in range(200):
            w = r.randrange(2)
            p, o = self.pos[w], self.pos[1 - w]
            op = r.choice(self.ops)
            if op in ("PreInc", "PostInc"):
                if p >= n: continue
                self.pos[w] += 1
                return ev(op, w + 1)
            if op in ("PreDec", "PostDec"):
                if p <= 0: continue
                self.pos[w] -= 1
                return ev(op, w + 1)
            if op in ("Deref", "Arrow"):
                if p >= n: continue
                return ev(op, w + 1)
            if op == "PostIncDeref":
                if p >= n: continue
                self.pos[w] += 1
                return ev(op, w + 1)
            if op == "PostDecDeref":
                if p >= n or p <= 0: continue
                self.pos[w] -= 1
                return ev(op, w + 1)
            if op == "DcAssign":
                return ev(op, w + 1)
            if op == "MultiPass":
                return ev(op, w + 1, m=self.off(0, n - p))
            if op in ("Eq", "Ne", "Diff", "Lt", "Le", "Gt", "Ge", "EqualM", "LessThanM"):
                return ev(op, w + 1)
            if op == "ValueInit":
                return ev(op, 1, o=r.choice(["eq", "ne"] + (["lt", "le", "gt", "ge"] if k["ra"] else [])))
            if op == "Assign":
                self.pos[w] = o
                return ev(op, w + 1)
            if op == "Trav":
                if r.random() < 0.5:
                    hows = ["pre", "post"] + (["lt", "index", "plus"] if k["ra"] else [])
                    return ev("TraverseForward", 1, how=r.choice([h for h in hows if h not in self.nohows]))
                hows = ["pre", "post"] + (["gt", "minus"] if k["ra"] else [])
                if k["std"]:
                    hows += ["stdrev"] + (["stdrevidx"] if k["ra"] else [])
                return ev("TraverseReverse", 1, how=r.choice([h for h in hows if h not in self.nohows]))
            if op == "Seat":
                if r.random() < 0.7: continue
                a, b = r.randint(0, n), r.choice([0, n, r.randint(0, n)])
                if r.random() < 0.5 and a > b:
                    a, b = b, a                      # valid ranges [a, b) for the algorithms
                self.pos = [a, b]
                return ev("Seat", 1, p=a, q=b, via=r.choice(["inc", "dec"] + (["add", "sub"] if k["ra"] else [])))
            if op in ("AddAssign", "Plus", "PlusLeft", "StdAdvance", "StdNext"):
                d = self.off(-p, n - p)
                if op in ("AddAssign", "StdAdvance"): self.pos[w] = p + d
                return ev(op, w + 1, k=d)
            if op in ("SubAssign", "Minus", "StdPrev"):
                d = self.off(p - n, p)
                if op == "SubAssign": self.pos[w] = p - d
                return ev(op, w + 1, k=d)
            if op in ("PlusU", "PlusLeftU"):
                return ev(op, w + 1, k=self.off(0, n - p))
            if op == "MinusU":
                return ev(op, w + 1, k=self.off(0, p))
            if op in ("Index", "IndexU", "IndexWrite"):
                lo = 0 if op == "IndexU" else -p
                if n - 1 - p < lo: continue
                d = self.off(lo, n - 1 - p)
                if op == "IndexWrite":
                    self.ctr += 1
                    v = wval(k["shape"], self.under[(p + d) * self.step], self.ctr)
                    self.under[(p + d) * self.step] = v
                    return ev(op, w + 1, k=d, v=v)
                return ev(op, w + 1, k=d)
            if op == "StdDistance":
                if not k["ra"] and p > o: continue
                return ev(op, w + 1)
            if op == "Write":
                if p >= n: continue
                self.ctr += 1
                v = wval(k["shape"], self.under[p * self.step], self.ctr)
                self.under[p * self.step] = v
                return ev(op, w + 1, v=v)
            if op in RANGE_OPS:
                if p > o: continue                   # [it_w, it_other) must be a valid range
                if op in ("StdCopy", "StdCopyBackward", "StdReverseCopy", "StdMinElement"):
                    return ev(op, w + 1)
                if op == "StdCopyWithin":
                    ln = o - p
                    cand = [j for j in range(0, n - ln + 1) if j <= p or j >= o]
                    if not cand: continue
                    far = [x for x in (p - 8, p + 8, p - 16, p - 64, p + 64) if x in cand and ln > 0]          # destinations a block width away
                    j = r.choice(far) if far and r.random() < 0.7 else r.choice(cand)
                    copy_within(self.under, self.step, p, o, j)
                    return ev(op, w + 1, j=j)
                if op == "StdRotate":
                    m = self.off(0, o - p)
                    apply_range_writer(self.under, self.step, op, p, o, m=m)
                    return ev(op, w + 1, m=m)
                if op in ("StdFind", "StdCount"):
                    return ev(op, w + 1, v=self.a_value(p, o))
                if op == "StdEqual":
                    return ev(op, w + 1, j=self.off(0, n - (o - p)))
                if op == "StdLowerBound":
                    if not is_sorted(range_slice(self.under, self.step, p, o)): continue
                    return ev(op, w + 1, v=self.a_value(p, o))
                if op == "StdFill":
                    self.ctr += 1
                    cur = self.under[min(p, n - 1) * self.step] if n else elem(k["shape"], 0)
                    v = wval(k["shape"], cur, self.ctr)
                    apply_range_writer(self.under, self.step, op, p, o, v)
                    return ev(op, w + 1, v=v)
                apply_range_writer(self.under, self.step, op, p, o)
                return ev(op, w + 1)
        return ev("Eq", 1)

    def run(self, nops):
        for _ in range(nops):
            self.lines.append(self.step_once())
        return self.lines


def walk_sizes(kind):
    k = KINDS[kind]
    if k["maxn"] is not None:
        return [0, 1, 2, 3, 5, 6]
    if k["shape"] == "bit":
        return [0, 1, 7, 8, 9, 16, 17, 63, 64, 65, 70]
    return [0, 1, 2, 3, 5, 8, 13, 20]


def random_scripts(seed, quick, skip, kinds=None, salt="", nexec=None, nops=None):
    scripts = {}
    for kind in sorted(kinds if kinds is not None else [x for x in KINDS if not KINDS[x]["adv"]]):
        k = KINDS[kind]
        if (kind, "*") in skip:
            continue
        rnd = random.Random("%d/%s%s" % (seed, kind, salt))
        ne, no = (10, 60) if quick else (60, 120)
        ne, no = nexec or ne, nops or no
        lines = []
        sizes = walk_sizes(kind)
        for i in range(ne):
            n = sizes[i % len(sizes)] if i < len(sizes) else rnd.choice(sizes)
            step = rnd.choice(k["steps"]) if len(k["steps"]) == 1 else rnd.choice(list(k["steps"]) + [4, 5])
            src = k["srcs"][(i + i // len(sizes)) % len(k["srcs"])]      # alternate; the pairing with the sizes shifts every pass
            lines.extend(Walk(rnd, kind, n, step, skip, src).run(no))
        scripts[kind] = lines
    return scripts


# ------------------------------------------------------------- advisory scripts (round 3)
def mixed_scripts(kind, caps, maxn):
    """Mixed iterator / const_iterator expressions of a kind with a const twin: one tiny execution per
    (n, p, q, expression), so that a deviation of one expression does not hide the others.  `caps` says which
    expressions compile on this tree (the driver's MixedCaps answer)."""
    k = KINDS[kind]
    lines = []
    vias = ["inc", "dec", "add", "sub"] if k["ra"] else ["inc", "dec"]
    vi = 0
    for n in range(0, maxn + 1):
        for p in range(n + 1):
            lines.append(reset_event(kind, n, 1))
            lines.append(ev("Seat", 1, p=p, q=p, via=vias[vi % len(vias)])); vi += 1
            lines.append(ev("ToConst", 1))
            lines.append(ev("ToConst", 2))
            for q in range(n + 1):
                for o in MIXED_OPS:
                    if not caps.get(o) or (o not in ("eq", "ne") and not k["ra"]):
                        continue
                    lines.append(reset_event(kind, n, 1))
                    lines.append(ev("Seat", 1, p=p, q=q, via=vias[vi % len(vias)])); vi += 1
                    lines.append(ev("MixedCmp", 1, o=o))
                    lines.append(ev("MixedCmp", 2, o=o))
    return lines


def negstride_scripts(seed, quick):
    """Random walks of the negative-stride kind without the order comparisons, plus one directed execution per order
    comparison (these are where the header's less_than compares the underlying iterators)."""
    skip = set(("step_neg", o) for o in ORDER_OPS) | set(("step_neg/how", h) for h in ORDER_HOWS)
    rs = random_scripts(seed, quick, skip, kinds=["step_neg"], salt="/neg", nexec=12 if quick else 40, nops=50 if quick else 100)
    probes = []
    for op in ("Lt", "Le", "Gt", "Ge", "LessThanM"):
        probes.append([reset_event("step_neg", 3, 2), ev("Seat", 1, p=0, q=2, via="inc"), ev(op, 1), ev(op, 2)])
    probes.append([reset_event("step_neg", 3, 1), ev("TraverseForward", 1, how="lt")])
    probes.append([reset_event("step_neg", 3, 1), ev("TraverseReverse", 1, how="gt")])
    probes.append([reset_event("step_neg", 4, 1), ev("Seat", 1, p=0, q=4, via="add"), ev("StdReverse", 1), ev("StdSort", 1)])
    return rs["step_neg"], probes

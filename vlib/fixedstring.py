"""Shared machinery of the fixed-string checks C01 / C02 (specs/FixedString*.tla, harness/fixedstring).

 * configurations (layout x policy x character type x N x build flavour: compiler, optimisation level, NDEBUG,
   XTL_NO_EXCEPTIONS) and how their drivers are built; prepare(): the compile-time signature table first
   (sig_probe.cpp: a changed return type / a removed overload is a VIOLATION, not a harness that does not compile),
   then the driver builds, tolerant of configurations that no longer build once violations are known
 * S->C: TLC enumerates every transition of FixedString.tla (Emit lines: pre-state, call, expected result, expected
   projection), started in the background at once (independent of the include tree); the calls are replayed on the
   real objects - completely or as a stratified sample (stratum = pre-state x operation) - and the observed result /
   projection are compared for equality with what TLC printed (no oracle here: a join and '=='; an operand passed as
   an rvalue may hold any valid string afterwards); a driver that dies is restarted at the next pre-state group
 * C->S: the upstream tests' call sequences (vlib/fixedstring_upstream.py), directed executions, seeded random scripts
   (boundary biased, sources inside the object itself included; only a shadow of the two lengths is tracked to stay
   inside the C++ preconditions); the recorded traces are validated by TLC (FixedStringTrace.tla); a driver that
   crashes / hangs (per-call CPU limit) ends its execution with a Crash event and is restarted on the next execution
 * known-finding avoidance / classification (known_findings.json entries plus entries this check proposes,
   PROPOSED_OPEN, reported as PENDING-FINDING until the coordinator lists or repairs them), replay
"""
import json, os, random, re, subprocess, time, zlib
from concurrent.futures import ProcessPoolExecutor, ThreadPoolExecutor
from vlib import core
from vlib.core import MachineryError

NPOS, DFLT = -1, -2
# TLC evaluates sequence operations on 256..301-element strings with recursion proportional to the length;
# the default 1 MB thread stack of the JVM overflows now and then (a StackOverflowError, reported by TLC
# as a run failure, never as a rejection).  core.tlc cannot be given JVM options, the environment can.
TLC_ENV = {"JAVA_TOOL_OPTIONS": "-Xss64m"}
# degree of parallelism (TLC workers, replay processes); VERIF_WORKERS lowers it on a shared machine
# development aids (both off by default): stop after the first stage that found a violation; skip the two
# model-checking stages that do not depend on the include tree (used when screening mutated trees)
MAX_REJECTIONS_PER_TRACE = 2     # a pervasive defect must not turn into hundreds of explain runs
ENOUGH_VIOLATIONS = 12           # ... nor into every later stage confirming it once more
FAILFAST = bool(os.environ.get("VERIF_FAILFAST"))
SKIP_MC = bool(os.environ.get("VERIF_SKIP_MC"))
WORKERS = max(1, int(os.environ.get("VERIF_WORKERS", "0") or 0) or core.NCPU)
HARNESS_SRC = os.path.join(core.HARNESS, "fixedstring", "driver.cpp")
WPROBE_SRC = os.path.join(core.HARNESS, "fixedstring", "wide_probe.cpp")
SIGPROBE_SRC = os.path.join(core.HARNESS, "fixedstring", "sig_probe.cpp")
# build flavours of the conformance driver (configuration axis "how the translation unit is compiled")
FLAVOURS = {"": (None, []),                                   # g++ -O1 -g, assertions on (core.BASE_FLAGS)
            "c": ("clang++", []),                             # clang++ -O1 -g
            "o": (None, ["-O2", "-DNDEBUG"]),                 # g++ -O2, assert() compiled out
            "co": ("clang++", ["-O2", "-DNDEBUG"]),
            "z": (None, ["-O0"]),
            "x": (None, ["-O2", "-DNDEBUG", "-DXTL_NO_EXCEPTIONS"])}   # failing checks terminate instead of throwing
CW = {"char": 1, "char16_t": 2, "wchar_t": 4, "char32_t": 4}
CTAG = {"char": "", "char16_t": "u", "wchar_t": "w", "char32_t": "U"}
IL_LENS = set(range(0, 11)) | {17}

OBSERVERS = {"At", "Index", "Front", "Back", "Iterate", "Substr", "Copy", "Compare", "Compare1", "Compare2",
             "Find", "Rel", "ToStd", "StreamOut"}
ALL_OPS = ["CtorDefault", "CtorFill", "CtorSub", "CtorSeq", "Overlay", "AssignFill", "AssignSub", "AssignSeq", "At", "Index",
           "Front", "Back", "Write", "Iterate", "Clear", "PushBack", "PopBack", "Substr", "Copy", "Resize1", "Resize2",
           "Swap", "InsertFill", "InsertSeq", "InsertSub", "InsertIt", "InsertItSeq", "Erase", "EraseIt", "EraseRange",
           "AppendFill", "AppendSeq", "AppendSub", "Compare", "Compare1", "Compare2", "Replace", "ReplaceSub",
           "ReplaceFill", "ReplaceIt", "ReplaceItFill", "Find", "Rel", "Concat", "ToStd", "StreamOut", "StreamIn", "GetLine"]
IO_OPS = {"StreamOut", "StreamIn", "GetLine"}     # the stream operators exist for char only
PAIR_MUTATORS = {"Swap"}          # may change the other object too (besides anything with an "objm" operand)

ALIAS_KINDS = ("self", "selfp", "selfz", "selfit", "selfmit", "selfrit")
SELF_IT_KINDS = ("selfit", "selfmit", "selfrit")
IT_KINDS = ["itv", "itl", "itp", "itpm", "its"]        # iterator pairs of other containers: const / mutable pointers, std::string::iterator

# Findings this check proposes as open entries of known_findings.json (the coordinator owns that file).  While an
# entry is not listed there and its probes still fail, the check prints PENDING-FINDING (exit status unaffected);
# listed there it is an ordinary KNOWN-FINDING.  When all probes of an entry pass on the tree under test the entry
# is inactive: nothing is avoided and every rejection in its class is a VIOLATION.
_P16 = {"ct": "char", "n": 16, "strlen": 0, "thr": 1}
_S16 = {"ct": "char", "n": 16, "strlen": 1, "thr": 1}
_F300 = {"ct": "char", "n": 300, "strlen": 0, "thr": 0}


def _rs(c):
    return {"op": "Reset", "k": 1, "a": {"n": c["n"], "policy": "throwing" if c["thr"] else "silent",
                                          "layout": "strlen" if c["strlen"] else ("packed" if c["n"] < 256 else "sizefield"), "cw": 1}}


_ABCD = {"op": "AssignSeq", "k": 1, "a": {"ov": "assign", "sk": "ptr", "src": [97, 98, 99, 100]}}
# Finding C01-alias-moved-source (assign / insert / replace with a source inside the string itself: the terminator of
# the new length or the shifted tail overwrote the source before it was read, traits_type::copy got overlapping
# ranges) was found by this check in round 2 and is repaired in /repo (d2d1dcc, proposed_fixes/C01-06).  A repaired
# finding suppresses nothing: the list of proposed entries is empty again and its probes are ordinary directed
# executions (ALIAS_DIRECTED) that must be accepted like any other.
# Round 3: C01-reverse-self-range - the iterator-range overloads given REVERSE iterators over the string's own characters
# (s.assign(s.rbegin(), s.rend()), insert / replace likewise): is_inside() knows pointers only, so the source is read
# while / after it is overwritten ("abcd" -> "dccd" where std::basic_string gives "dcba").  proposed_fixes/C01-07.
PROPOSED_OPEN = [
    {"id": "C01-reverse-self-range", "property": "C01", "key": "C01 iterator-range overloads with reverse iterators into the string itself",
     "what": "assign / insert / replace(first, last) given reverse iterators over the object's own characters read the source after it was "
             "overwritten (is_inside() does not recognise reverse iterators); proposed_fixes/C01-07-reverse-self-range.patch",
     "match": {"sk": "selfrit"},
     "probes": [{"cfg": _P16, "script": [_rs(_P16), _ABCD, {"op": "AssignSeq", "k": 1, "a": {"ov": "assign", "sk": "selfrit", "src": [0, 4]}}]},
                {"cfg": _P16, "script": [_rs(_P16), _ABCD, {"op": "InsertItSeq", "k": 1, "a": {"it": 1, "sk": "selfrit", "src": [2, 2]}}]}]},
]
ALIAS_DIRECTED = [
    (_P16, [_rs(_P16), _ABCD, {"op": "AssignSub", "k": 1, "a": {"sk": "self", "src": [], "pos": 1, "n": 2}}]),
    (_S16, [_rs(_S16), _ABCD, {"op": "AssignSeq", "k": 1, "a": {"ov": "op", "sk": "selfz", "src": [2]}}]),
    (_P16, [_rs(_P16), _ABCD, {"op": "AssignSeq", "k": 1, "a": {"ov": "assign", "sk": "selfit", "src": [1, 3]}}]),
    (_P16, [_rs(_P16), _ABCD, {"op": "InsertSub", "k": 1, "a": {"idx": 1, "sk": "self", "src": [], "pos": 2, "n": 2}}]),
    (_F300, [_rs(_F300), _ABCD, {"op": "InsertSeq", "k": 1, "a": {"idx": 1, "sk": "self", "src": []}}]),
    (_P16, [_rs(_P16), _ABCD, {"op": "InsertItSeq", "k": 1, "a": {"it": 1, "sk": "selfit", "src": [2, 2]}}]),
    (_S16, [_rs(_S16), _ABCD, {"op": "Replace", "k": 1, "a": {"pos": 0, "n": 2, "sk": "selfp", "src": [1, 3]}}]),
    (_P16, [_rs(_P16), _ABCD, {"op": "ReplaceIt", "k": 1, "a": {"f": 0, "l": 1, "sk": "selfit", "src": [1, 3]}}]),
]
_ABCDEF = {"op": "AssignSeq", "k": 1, "a": {"ov": "assign", "sk": "ptrn", "src": [97, 98, 99, 100, 101, 102]}}
for _c in (_P16, _S16, _F300):
    for _sk in ("selfit", "selfmit"):
        for _it, _src in ((1, [3, 3]), (4, [0, 3]), (2, [1, 3]), (0, [0, 6]), (6, [2, 2]), (3, [3, 1])):
            ALIAS_DIRECTED.append((_c, [_rs(_c), _ABCDEF, {"op": "InsertItSeq", "k": 1, "a": {"it": _it, "sk": _sk, "src": _src}}]))
        for _f, _l, _src in ((1, 2, [3, 3]), (4, 6, [0, 3]), (1, 4, [2, 3]), (0, 0, [3, 3]), (2, 2, [0, 2]), (0, 6, [1, 4])):
            ALIAS_DIRECTED.append((_c, [_rs(_c), _ABCDEF, {"op": "ReplaceIt", "k": 1, "a": {"f": _f, "l": _l, "sk": _sk, "src": _src}}]))
        ALIAS_DIRECTED.append((_c, [_rs(_c), _ABCDEF, {"op": "AssignSeq", "k": 1, "a": {"ov": "assign", "sk": _sk, "src": [2, 3]}}]))
        ALIAS_DIRECTED.append((_c, [_rs(_c), _ABCDEF, {"op": "AppendSeq", "k": 1, "a": {"ov": "append", "sk": _sk, "src": [1, 4]}}]))
    ALIAS_DIRECTED.append((_c, [_rs(_c), _ABCDEF, {"op": "AppendSeq", "k": 1, "a": {"ov": "append", "sk": "selfrit", "src": [1, 4]}}]))
# over-long input through the stream operators under the throwing policy (C02: length_error, nothing changed)
_LONG = [120 + (i % 3) for i in range(19)]
for _c in (_P16, _S16):
    ALIAS_DIRECTED.append((_c, [_rs(_c), _ABCD, {"op": "StreamIn", "k": 1, "a": {"text": _LONG[:17]}}, {"op": "StreamIn", "k": 1, "a": {"text": _LONG[:16]}}]))
    ALIAS_DIRECTED.append((_c, [_rs(_c), _ABCD, {"op": "GetLine", "k": 1, "a": {"text": _LONG[:18], "delim": DFLT, "rv": 0}},
                                {"op": "GetLine", "k": 1, "a": {"text": _LONG[:19], "delim": 98, "rv": 1}},
                                {"op": "GetLine", "k": 2, "a": {"text": _LONG[:17] + [98, 97], "delim": 98, "rv": 0}}]))
# set by probe_pending(): ids of the proposed / listed entries whose probes fail on the tree under test
ACTIVE = set()


def alias_source(ev, prestr=None, prelen=None):
    """For a call whose source is (part of) the object itself: (mode, off, [possible counts]) with mode "cpy"
    (read by traits_type::copy) or "mov" (read by std::copy); None for every other call.  prestr: the object's
    characters before the call when known (needed for the length of a C string that starts inside it)."""
    a = ev.get("a", {})
    sk = a.get("sk")
    if sk not in ALIAS_KINDS:
        return None
    n = len(prestr) if prestr is not None else prelen
    src = a.get("src") or []
    if sk == "self":
        if "pos" in a and ev["op"] in ("AssignSub", "AppendSub", "InsertSub"):
            p, c = a["pos"], a["n"]
        elif ev["op"] == "ReplaceSub" or ev["op"] == "Compare2":
            p, c = a["pos2"], a["n2"]
        else:
            return ("cpy", 0, [n])
        if p == NPOS or p > n:
            return None                       # the call throws out_of_range before anything else
        rest = n - p
        return ("cpy", p, [rest if (c in (NPOS, DFLT) or c > rest) else c])
    if sk == "selfz":
        off = src[0]
        if prestr is not None:
            tail = list(prestr[off:])
            return ("cpy", off, [tail.index(0) if 0 in tail else len(tail)])
        return ("cpy", off, list(range(0, n - off + 1)))
    return ("mov" if sk in SELF_IT_KINDS else "cpy", src[0], [src[1]])


def alias_unsafe(ev, prestr=None, prelen=None):
    """The calls of finding C01-alias-moved-source (the same predicate as Safe* in specs/FixedStringImpl.tla):
    the source lies inside the string and the member function, as written, overwrites part of it before it is
    read or hands overlapping ranges to traits_type::copy."""
    al = alias_source(ev, prestr, prelen)
    if al is None:
        return False
    mode, off, cnts = al
    op, a = ev["op"], ev["a"]
    n = len(prestr) if prestr is not None else prelen

    def bad(p):
        return p == NPOS or p > n

    for cnt in cnts:
        if cnt == 0:
            continue
        if op in ("AssignSeq", "AssignSub"):
            if a.get("sk") == "self" and op == "AssignSeq":
                continue                                   # assign(s) / s = s: guarded / whole storage onto itself
            if off >= 1 and off <= cnt:
                return True
        elif op in ("InsertSeq", "InsertSub", "InsertItSeq"):
            idx = a["it"] if op == "InsertItSeq" else a["idx"]
            if bad(idx):
                continue
            if (off > idx) if mode == "mov" else not (off + cnt <= idx or off == idx):
                return True
        elif op in ("Replace", "ReplaceSub", "ReplaceIt"):
            if op == "ReplaceIt":
                p, ec = a["f"], a["l"] - a["f"]
            else:
                p = a["pos"]
                if bad(p):
                    continue
                rest = n - p
                ec = rest if (a["n"] == NPOS or a["n"] > rest) else a["n"]
            if mode == "mov":
                safe = off <= p or ec >= cnt
            else:
                safe = off == p or off + cnt <= p or (off >= p + cnt and ec >= cnt)
            if not safe:
                return True
    return False


# Open known findings the generators must not walk into (see DESIGN.md section 5):
#   C01-resize1-pad (known_findings.json): one-argument resize(n) growing the string pads with ' ' instead of CharT()
#   C01-alias-moved-source (PROPOSED_OPEN above), while its probes fail
def avoid(ev, lens, pre=None):
    """True when the call is exactly an open finding's call site/input.  lens: the two lengths before the call;
    pre: the two strings before the call when known."""
    k = ev.get("k", 1) - 1
    if ev["op"] == "Resize1":
        n = ev["a"]["n"]
        return n != NPOS and n > lens[k]
    if "C01-reverse-self-range" in ACTIVE and ev.get("a", {}).get("sk") == "selfrit" and ev["op"] in ("AssignSeq", "InsertItSeq", "ReplaceIt"):
        return True
    if "C01-alias-moved-source" in ACTIVE and ev.get("a", {}).get("sk") in ALIAS_KINDS:
        return alias_unsafe(ev, pre[k] if pre is not None else None, lens[k])
    return False


# ------------------------------------------------------------------ configurations
def make_cfg(ct="char", n=3, strlen=0, thr=0, ref=0, fl=""):
    cw = CW[ct]
    layout = "strlen" if strlen else ("packed" if n < (1 << (8 * cw)) else "sizefield")
    name = ("ref" + CTAG[ct] + str(n)) if ref else "%s%s%d%s" % (CTAG[ct], {"strlen": "s", "packed": "p", "sizefield": "f"}[layout], n, "t" if thr else "s")
    if fl:
        name += "-" + fl
    return {"name": name, "ct": ct, "cw": cw, "n": n, "strlen": strlen, "thr": thr, "ref": ref, "layout": layout, "fl": fl,
            "policy": "throwing" if thr else "silent", "io": 1 if ct == "char" else 0}


def reset_event(c):
    return {"op": "Reset", "k": 1, "a": {"n": c["n"], "policy": c["policy"], "layout": c["layout"], "cw": c["cw"], "ct": c["ct"], "fl": c.get("fl", "")}}


def flags_of(c):
    # -g0: debug information doubles the compile time of a driver and is only ever read by a sanitizer report
    return ["-g0", "-DFS_CT=" + c["ct"], "-DFS_N=%d" % c["n"], "-DFS_STRLEN=%d" % c["strlen"], "-DFS_THROW=%d" % c["thr"],
            "-DFS_REF=%d" % c["ref"], "-DFS_IO=%d" % c["io"]] + FLAVOURS[c.get("fl", "")][1]


def build_drivers(ctx, cfgs, tolerate=False):
    """Compile one driver per configuration in parallel; returns {name: path}.
    tolerate: a driver that does not compile is left out and recorded in ctx.notes["driver_build_failures"]
    (the caller decides: with signature-probe violations already found the run goes on with the others and
    ends with exit 1; without any it is a machinery error)."""
    bdir = ctx.sub("bin")
    jobs, out = [], {}
    for c in cfgs:
        if c["name"] in out:
            continue
        out[c["name"]] = os.path.join(bdir, "fs_" + c["name"])
        jobs.append((c["name"], {"src": HARNESS_SRC, "out": out[c["name"]], "flags": flags_of(c), "cxx": FLAVOURS[c.get("fl", "")][0]}))

    def one(job):
        name, j = job
        try:
            core.build(ctx, j["src"], j["out"], j["flags"], True, j["cxx"])
            return name, None
        except MachineryError as x:
            return name, str(x)

    failed = {}
    with ThreadPoolExecutor(max_workers=WORKERS) as ex:
        for name, err in ex.map(one, jobs):
            if err is not None:
                failed[name] = err
    if failed and not tolerate:
        raise MachineryError(next(iter(failed.values())))
    for name, err in failed.items():
        out.pop(name, None)
        ctx.notes.setdefault("driver_build_failures", {})[name] = err[-1500:]
    return out


# ------------------------------------------------------------------ compile-time probes
_RE_SIGROW = re.compile(r"^SIG[A-Z]*\((\w+),")


def sig_probe(ctx, cfgs):
    """The public interface as a table of static_asserts (harness/fixedstring/sig_probe.cpp): every overload the
    conformance driver calls exists and returns the type std::basic_string returns.  A row that fails is a
    VIOLATION of its own (the return types and overload sets are observable: 'every returned value ... equal
    those of std::basic_string given the same calls'), found before the driver is built, so a changed signature
    cannot turn into 'harness does not compile'.  Returns the number of failing (cfg, row) pairs."""
    with open(SIGPROBE_SRC) as f:
        rows = {i + 1: m.group(1) for i, line in enumerate(f) for m in [_RE_SIGROW.match(line)] if m}

    def one(c):
        cmd = [core.CXX, "-std=c++14", "-fsyntax-only", "-fmax-errors=0", "-ftrack-macro-expansion=0", "-Wno-deprecated-declarations",
               "-I", core.INCLUDE, "-I", os.path.join(core.HARNESS, "common")] + [x for x in flags_of(c) if not x.startswith("-DFS_REF")] + [SIGPROBE_SRC]
        rc, out = core.sh(cmd, timeout=600)
        bad, other = {}, []
        for line in out.splitlines():
            m = re.match(r".*sig_probe\.cpp:(\d+):\d*:? (?:fatal )?(error|note): (.*)", line)
            if not m:
                continue
            ln = int(m.group(1))
            if ln in rows:
                if m.group(2) == "error" or rows[ln] not in bad:
                    bad.setdefault(rows[ln], m.group(3)[:300])
            elif m.group(2) == "error":
                other.append(line[:300])
        if rc != 0 and not bad and not other:
            other.append(out[-600:])
        return c, rc, bad, other

    nbad = 0
    seen = set()
    with ThreadPoolExecutor(max_workers=WORKERS) as ex:
        for c, rc, bad, other in ex.map(one, cfgs):
            ctx.notes.setdefault("signature_rows_checked", {})[c["name"]] = len(rows)
            if rc == 0:
                continue
            nbad += len(bad) + (1 if other else 0)
            key = (tuple(sorted(bad)), tuple(other[:1]))
            if key in seen:          # the same rows fail for every configuration: one report is enough
                continue
            seen.add(key)
            what = "; ".join("%s (%s)" % (r, msg) for r, msg in sorted(bad.items())[:8]) or "; ".join(other[:3])
            ctx.violation("signature table harness/fixedstring/sig_probe.cpp, configuration %s: %d row(s) fail, i.e. an overload the property's "
                          "calls need is missing or returns another type than std::basic_string's: %s" % (c["name"], len(bad) or 1, what),
                          replay_lines=[json.dumps({"_meta": {"kind": "sig", "cfg": {k: c[k] for k in ("ct", "n", "strlen", "thr", "fl")}, "rows": sorted(bad)}})])
    return nbad


def prepare(ctx, cfgs):
    """Signature table first, then the driver builds.  Returns {name: driver path} for the configurations whose
    driver exists.  A driver that does not compile:
      * after signature rows failed: expected (the driver calls what the rows call); the run goes on with the drivers
        that could be built and ends with exit 1 on the rows;
      * with an error inside xbasic_fixed_string.hpp (a member function body that does not instantiate for a call the
        specification enables): that call does not compile - a VIOLATION of its own;
      * otherwise the harness itself is broken: machinery error."""
    distinct = {}
    for c in cfgs:
        if not c["ref"]:
            distinct.setdefault((c["ct"], c["strlen"], c["thr"], c["layout"]), c)
    sig_probe(ctx, list(distinct.values()))
    drivers = build_drivers(ctx, cfgs, tolerate=True)
    fails = ctx.notes.get("driver_build_failures", {})
    if fails:
        by_name = {c["name"]: c for c in cfgs}
        lib = {n: e for n, e in fails.items() if re.search(r"xbasic_fixed_string\.hpp:\d+:\d+: error", e) and not by_name[n]["ref"]}
        if lib:
            n, e = sorted(lib.items())[0]
            first = [l for l in e.splitlines() if "error" in l][:3]
            c = by_name[n]
            ctx.violation("a call the specification enables does not compile for configuration %s (%d configurations affected): %s" % (
                n, len(lib), " | ".join(x.strip()[:300] for x in first)),
                replay_lines=[json.dumps({"_meta": {"kind": "build", "cfg": {k: c[k] for k in ("ct", "n", "strlen", "thr", "fl")}}})])
        if not ctx.violations:
            raise MachineryError("harness does not compile: %s" % next(iter(fails.values())))
        ctx.log("%d of %d drivers could not be built against this tree (%s); going on with the others" % (len(fails), len(fails) + len(drivers), ", ".join(sorted(fails))))
    return drivers


def wide_probe(ctx):
    """Does xbasic_fixed_string<wchar_t / char32_t, N> with the default storage compile at all?
    (success / failure of this compilation is itself the observation)"""
    rc, out = core.try_build(ctx, WPROBE_SRC, os.path.join(ctx.sub("bin"), "wide_probe"))
    return rc == 0, out


def run_driver(drv, script_path, trace_path, lean=False, timeout=1200):
    env = dict(os.environ); env.update(core.ASAN_ENV)
    # the strings live in heap frames and sources in heap buffers: the (slow) fake stack adds nothing here
    env["ASAN_OPTIONS"] = env["ASAN_OPTIONS"].replace("detect_stack_use_after_return=1", "detect_stack_use_after_return=0")
    if lean:
        env["FS_LEAN"] = "1"
    else:
        env.pop("FS_LEAN", None)
    with open(script_path) as fin, open(trace_path, "w") as fout:
        p = subprocess.run([drv], stdin=fin, stdout=fout, stderr=subprocess.PIPE, env=env, timeout=timeout)
    if p.returncode == 3:
        raise MachineryError("harness rejected script %s: %s" % (script_path, p.stderr.decode(errors="replace")[-500:]))
    return p.returncode, p.stderr.decode(errors="replace")


def retry_killed(fn, tries=3):
    """A TLC process that is killed from outside (rc -9 / 137: the kernel's out-of-memory killer on a machine shared with
    other JVMs) says nothing about the specification or the code: run it again after a pause instead of giving up."""
    for i in range(tries):
        try:
            return fn()
        except MachineryError as x:
            if i == tries - 1 or _CLOSING or not re.search(r"rc=(-9|137|-15|143)\b", str(x)):
                raise
            time.sleep(10 * (i + 1))


class stage:
    """with stage(ctx, "name"): ...  records the CPU seconds (this process and the children it waited for) and the wall
    seconds of a stage in the evidence (notes cpu_s / wall_s): on a shared machine only the CPU time says what a stage costs."""

    def __init__(self, ctx, name):
        self.ctx, self.name = ctx, name

    def __enter__(self):
        self.t, self.c = time.time(), sum(os.times()[:4])
        return self

    def __exit__(self, *a):
        self.ctx.notes.setdefault("cpu_s", {})[self.name] = round(self.ctx.notes.get("cpu_s", {}).get(self.name, 0) + sum(os.times()[:4]) - self.c, 1)
        self.ctx.notes.setdefault("stage_wall_s", {})[self.name] = round(self.ctx.notes.get("stage_wall_s", {}).get(self.name, 0) + time.time() - self.t, 1)
        return False


def _is_reset(line):
    return line.lstrip().startswith('{"op":"Reset"')


def run_script(drv, script_path, trace_path, max_restarts=25, timeout=1200):
    """run_driver for scripts of many executions: when the driver stops inside one execution (crash, sanitizer
    report, per-call CPU limit - the trace then ends with a Crash event that TLC rejects), it is started again
    on the remaining executions (from the next Reset), so one crash costs one execution, not the rest of the file.
    Returns the number of restarts."""
    with open(script_path) as f:
        script = [l for l in f if l.strip()]
    start, n = 0, 0
    out = open(trace_path, "w")
    try:
        while True:
            part_s, part_t = script_path + ".part", trace_path + ".part"
            if start == 0:
                part_s = script_path
            else:
                with open(part_s, "w") as f:
                    f.writelines(script[start:])
            try:
                run_driver(drv, part_s, part_t, timeout=timeout)
                hung = False
            except subprocess.TimeoutExpired:
                hung = True
            with open(part_t, errors="replace") as f:
                got = [l for l in f if l.strip()]
            crashed = bool(got) and '"op":"Crash"' in got[-1]
            if not crashed and (hung or len(got) < len(script) - start):
                # killed without a chance to say so: the trace must still end in an event no specification action matches
                got.append('{"op":"Crash","why":"%s"}\n' % ("driver did not finish within %ds" % timeout if hung else "driver stopped without a word"))
            done = len(got) - 1 if (got and '"op":"Crash"' in got[-1]) else len(got)
            if got and '"op":"Crash"' in got[-1] and start + done < len(script):
                # name the call the driver died in: a replay of this execution has to make it
                try:
                    cr = json.loads(got[-1])
                    cr["call"] = json.loads(script[start + done])
                    got[-1] = json.dumps(cr, separators=(",", ":")) + "\n"
                except Exception:
                    pass
            out.writelines(got)
            os.remove(part_t)
            if done >= len(script) - start:
                return n
            nxt = start + done + 1
            while nxt < len(script) and not _is_reset(script[nxt]):
                nxt += 1
            if nxt >= len(script) or n >= max_restarts:
                return n
            start, n = nxt, n + 1
    finally:
        out.close()


def write_script(path, lines):
    with open(path, "w") as f:
        for l in lines:
            f.write(json.dumps(l, separators=(",", ":")) + "\n")


def merge_by_cfg(prefix, scripts):
    """[(name, cfg, events)] -> one script per configuration (every script starts with its own Reset): one driver run and
    one TLC run per configuration instead of one per script"""
    by = {}
    for name, c, ev in scripts:
        by.setdefault(c["name"], (c, []))[1].extend(ev)
    return [("%s-%s" % (prefix, n), c, ev) for n, (c, ev) in sorted(by.items())]


def chunk_by_reset(lines, nchunks):
    starts = [i for i, l in enumerate(lines) if l["op"] == "Reset"]
    if not starts:
        return [lines]
    per = max(1, (len(starts) + nchunks - 1) // nchunks)
    cuts = starts[::per]
    return [lines[a:b] for a, b in zip(cuts, cuts[1:] + [len(lines)])]


# ------------------------------------------------------------------ TLC with streamed output
_LIVE = []          # TLC processes of background enumerations that are still running
_CLOSING = []       # non-empty once the run is ending: enumerations still running are killed, not waited for


def tlc_stream(ctx, module, cfg, name, workers=None, heap="2g", timeout=1500):
    return retry_killed(lambda: _tlc_stream(ctx, module, cfg, name, workers, heap, timeout))


def _tlc_stream(ctx, module, cfg, name, workers=None, heap="2g", timeout=1500):
    """Like core.tlc but TLC's output goes to a file (the Emit lines of an S->C enumeration are
    hundreds of megabytes).  Returns dict(outfile, generated, distinct, depth, wall_s)."""
    ctx._n += 1
    meta = ctx.sub("tlc-%02d-%s" % (ctx._n, name))
    outfile = os.path.join(meta, "out.txt")
    cmd = ["java", "-XX:+UseParallelGC", "-Xmx" + heap, "-cp", core.TLA_JAR, "tlc2.TLC", "-metadir", os.path.join(meta, "states"),
           "-workers", str(workers or WORKERS), "-config", os.path.join(core.SPECS, cfg), "-noGenerateSpecTE", "-deadlock",
           os.path.join(core.SPECS, module + ".tla")]
    t = time.time()
    with open(outfile, "w") as f:
        p = subprocess.Popen(cmd, stdout=f, stderr=subprocess.STDOUT, cwd=meta)
        _LIVE.append(p)
        try:
            rc = p.wait(timeout=timeout)
        except subprocess.TimeoutExpired:
            p.kill()
            p.wait()
            raise MachineryError("TLC timed out after %ss: %s (see %s)" % (timeout, name, outfile))
        finally:
            if p in _LIVE:
                _LIVE.remove(p)
    if _CLOSING:
        raise MachineryError("TLC enumeration %s abandoned (the run is ending)" % name)
    tail = subprocess.run(["tail", "-n", "40", outfile], stdout=subprocess.PIPE, text=True, errors="replace").stdout
    # the summary lines are not Emit lines
    tail = "\n".join(l for l in tail.splitlines() if not l.startswith('"@E@'))
    r = {"name": name, "module": module, "cfg": cfg, "rc": rc, "wall_s": round(time.time() - t, 2), "outfile": outfile,
         "generated": 0, "distinct": 0, "depth": 0, "violated": None}
    m = core._RE_STATES.findall(tail)
    if m:
        r["generated"], r["distinct"] = int(m[-1][0]), int(m[-1][1])
    m = core._RE_DEPTH.findall(tail)
    if m:
        r["depth"] = int(m[-1])
    if rc != 0 or not r["generated"]:
        head = subprocess.run(["grep", "-v", "-m", "60", '^"@E@', outfile], stdout=subprocess.PIPE, text=True, errors="replace").stdout
        raise MachineryError("TLC enumeration %s failed rc=%s, see %s\n%s\n...\n%s" % (name, rc, outfile, head[-2500:], tail[-1500:]))
    ctx.tlc_runs.append({k: r[k] for k in ("name", "module", "cfg", "rc", "wall_s", "generated", "distinct", "depth", "violated")})
    return r


# ------------------------------------------------------------------ S->C
_RE_PRE = re.compile(r'\\"p\\":(\[\[[^\]]*\],\[[^\]]*\]\])')
_RE_TOK = re.compile(r'\\"(\w+)\\":(\[[^\]]*\]|[^,{}\[\]]+)')


def _call_key(line):
    """A canonical text of (pre-state, call) of an Emit line, without parsing it: TLC prints the fields of one and the
    same record in different orders (normalised or not), e.g. in the two lines that give the two allowed outcomes of
    one call - they must fall on the same side of a sample."""
    cut = line.find('\\"res\\"')
    a = line.find('\\"l\\":')
    m = _RE_PRE.search(line)
    return (m.group(1) if m else "") + "|" + ",".join(sorted("%s:%s" % t for t in _RE_TOK.findall(line[a:cut])))


_RE_OP = re.compile(r'\\"l\\":\{\\"op\\":\\"(\w+)\\"')
KEEP_N4 = 0.2            # thorough tier, N = 4: share of the calls of a large stratum that is replayed
STRATUM_MIN = 120        # S->C samples: strata (pre-state, operation) up to this size are replayed completely
S2C_PARTS = 16           # fixed, so that samples and set-up histories do not depend on the number of workers


def split_emitted(outfile, nparts, workdir):
    """Distribute TLC's Emit lines over nparts files so that all transitions out of one abstract state
    are in the same part (cheap: no JSON parsing here)."""
    paths = [os.path.join(workdir, "emit-%02d.txt" % i) for i in range(nparts)]
    fs = [open(p, "w") for p in paths]
    n = 0
    with open(outfile, errors="replace") as f:
        for line in f:
            if not line.startswith('"@E@'):
                continue
            m = _RE_PRE.search(line)
            key = m.group(1) if m else ""
            h = 0
            for ch in key:
                h = (h * 131 + ord(ch)) & 0xFFFFFFF
            fs[h % nparts].write(line)
            n += 1
    for x in fs:
        x.close()
    return paths, n


def _setup(k, v):
    return {"op": "CtorSeq", "k": k, "a": {"sk": "ptrn", "src": v}}


def _dirty_setup(k, v, cfgd, rnd):
    """Events that bring object k to the abstract value v through a 'dirty' history, so that the cells
    behind the terminator are stale rather than freshly zeroed."""
    n = cfgd["n"]
    t = rnd.random()
    if t < 0.5 or n == 0:
        return [_setup(k, v)]
    filler = rnd.choice([1, 2])
    if t < 0.8:
        return [{"op": "CtorFill", "k": k, "a": {"n": n, "ch": filler}},
                {"op": "AssignSeq", "k": k, "a": {"ov": "assign", "sk": "ptrn", "src": v}}]
    if cfgd["layout"] == "strlen" and 0 not in v:
        cells = list(v) + [0] + [rnd.choice([0, 1, 2]) for _ in range(n - len(v))]
        return [{"op": "Overlay", "k": k, "a": {"cells": cells}}]
    return [{"op": "CtorFill", "k": k, "a": {"n": n, "ch": filler}},
            {"op": "Resize2", "k": k, "a": {"n": 0, "ch": 0 if cfgd["layout"] != "strlen" else 1}},
            {"op": "AppendSeq", "k": k, "a": {"ov": "append", "sk": "ptrn", "src": v}}]


def moved_objects(call):
    """0-based indices of the objects the call takes as rvalues: their state afterwards is valid but unspecified"""
    a, k = call.get("a", {}), call.get("k", 1) - 1
    out = set()
    if a.get("sk") == "objm" or a.get("rk") == "objm":
        out.add(1 - k)
    if a.get("lk") == "selfm":
        out.add(k)
    return out


def valid_projection(pj, n):
    """an object in a valid state, whatever its value: every observer agrees with every other"""
    c = pj.get("chars")
    if not (isinstance(c, list) and pj.get("size") == len(c) == pj.get("len") == pj.get("dist") and len(c) <= n and pj.get("term") == 0
            and pj.get("fwd") == c and pj.get("rev") == c[::-1] and pj.get("empty") == (len(c) == 0) and pj.get("g") is True and pj.get("max") == n):
        return False
    z = c.index(0) if 0 in c else len(c)
    return (pj.get("cd") == len(c) == pj.get("rd") == pj.get("rtn") and pj.get("slen") == z == pj.get("rts")
            and pj.get("cp") is True and pj.get("ib") is True and pj.get("rb") is True)


def same_outcome(call, o, res, q, n):
    """the observed event o equals the outcome (res, q) TLC printed; a moved-from operand may hold any valid string"""
    if o["res"] != res:
        return False
    mv = moved_objects(call) if res.get("exc") == "none" else ()
    if not mv:
        return o["st"] == q
    return all(valid_projection(o["st"]["o"][i], n) if i in mv else o["st"]["o"][i] == q["o"][i] for i in (0, 1))


def s2c_worker(args):
    """One part of an S->C replay: parse the Emit lines, build a script, run the driver, compare.
    Returns (stats, mismatches)."""
    part, drv, cfgd, workdir, seed, keep, tag = args
    smin = STRATUM_MIN
    if isinstance(keep, tuple):
        keep, smin = keep
    rnd = random.Random(seed)
    by_pre = {}
    projs = {}              # abstract string (tuple) -> expected projection of an object holding it
    ntrans = 0
    opcount = {}
    # Stratified sample (keep < 1): a stratum is (pre-state, operation).  Strata of at most STRATUM_MIN calls are
    # replayed completely, larger ones with probability max(keep, STRATUM_MIN / size) per call; the choice is a hash
    # of (seed, call text), so it does not depend on the order in which TLC's workers printed the lines and the two
    # allowed outcomes of one call stay together.  Only chosen lines are parsed.
    strata = {}
    if keep < 1.0:
        with open(part, errors="replace") as f:
            for line in f:
                m, mo = _RE_PRE.search(line), _RE_OP.search(line)
                key = (m.group(1) if m else "", mo.group(1) if mo else "")
                strata[key] = strata.get(key, 0) + 1
    nsampled = sum(1 for v in strata.values() if v > smin)
    with open(part, errors="replace") as f:
        for line in f:
            if keep < 1.0:
                m, mo = _RE_PRE.search(line), _RE_OP.search(line)
                size = strata[(m.group(1) if m else "", mo.group(1) if mo else "")]
                if size > smin:
                    pr = max(keep, smin / float(size))
                    if (zlib.crc32(("%d|" % seed + _call_key(line)).encode()) & 0xFFFFFF) / float(0x1000000) >= pr:
                        ntrans += 1
                        continue
            t = json.loads(line.rstrip()[4:-1].replace('\\"', '"'))          # "@E@{\"c\":..}" -> {"c":..}
            pre = (tuple(t["p"][0]), tuple(t["p"][1]))
            l = t["l"]
            for pj in t["q"]["o"]:
                projs.setdefault(tuple(pj["chars"]), pj)
            call = {"op": l["op"], "k": l["k"], "a": l["a"]}
            if avoid(call, (len(pre[0]), len(pre[1])), pre) or (call["op"] in IO_OPS and not cfgd["io"]):
                continue
            ntrans += 1
            key = json.dumps(call, sort_keys=True, separators=(",", ":"))
            d = by_pre.setdefault(pre, {})
            if key in d:
                d[key][1].append((l["res"], t["q"]))          # a second allowed outcome of the same call
            else:
                d[key] = (call, [(l["res"], t["q"])], key)
    script, expect = [reset_event(cfgd)], [None]
    texts = {}              # script index -> JSON text of the call (already serialised above)
    nfailing = 0
    gstarts = []            # script indices where a pre-state group begins (both objects are set up afresh there)
    for pre in sorted(by_pre):
        calls = sorted(by_pre[pre].values(), key=lambda c: (c[0]["op"] not in OBSERVERS, c[2]))
        gstarts.append(len(script))
        dirty = [True, True]
        last_setup = [[], []]
        for call, outcomes, calltext in calls:
            for k in (0, 1):
                if dirty[k]:
                    evs = _dirty_setup(k + 1, list(pre[k]), cfgd, rnd)
                    last_setup[k] = evs
                    for i, ev in enumerate(evs):
                        script.append(ev)
                        expect.append(("setup", k, pre[k]) if i == len(evs) - 1 else None)
                    dirty[k] = False
            script.append(call)
            texts[len(script) - 1] = calltext
            expect.append(("call", pre, outcomes, last_setup[0] + last_setup[1]))
            opcount[call["op"]] = opcount.get(call["op"], 0) + 1
            if call["a"].get("sk") in ALIAS_KINDS or call["a"].get("rk") == "self" or str(call["a"].get("ov", "")).endswith("self"):
                ak = "alias:%s/%s" % (call["op"], call["a"].get("sk") or call["a"].get("ov") or "self")
                opcount[ak] = opcount.get(ak, 0) + 1
            if outcomes[0][0]["exc"] != "none":
                nfailing += 1
            if call["op"] not in OBSERVERS:
                dirty[call["k"] - 1] = True
                a = call["a"]
                if call["op"] in PAIR_MUTATORS or a.get("sk") == "objm" or a.get("lk") == "selfm" or a.get("rk") == "objm":
                    dirty[0] = dirty[1] = True
    mism = []
    nev = 0
    start, restarts = 0, 0
    while start < len(script):
        sp = os.path.join(workdir, tag + ("" if not restarts else "-r%d" % restarts) + ".script")
        tp = sp[:-7] + ".ndjson"
        with open(sp, "w") as f:
            if start:
                f.write(json.dumps(reset_event(cfgd), separators=(",", ":")) + "\n")
            for i in range(start, len(script)):
                f.write((texts.get(i) or json.dumps(script[i], separators=(",", ":"))) + "\n")
        try:
            rc, err = run_driver(drv, sp, tp, lean=True)
        except subprocess.TimeoutExpired:
            rc, err = 124, "driver did not finish in time"
        with open(tp, errors="replace") as f:
            obs_lines = [x for x in f if x.strip()]
        if start:
            obs_lines = obs_lines[1:]            # the extra Reset
        stopped = None                          # script index of the event the driver died in
        for j, line in enumerate(obs_lines):
            i = start + j
            if i >= len(script):
                break
            exp = expect[i]
            su = exp[3] if exp and exp[0] == "call" else []
            if '"op":"Crash"' in line[:40]:
                try:
                    why = json.loads(line).get("why")
                except Exception:
                    why = "?"
                mism.append({"why": "driver crashed: %s %s" % (why, err[-400:]), "call": script[i], "setup": su, "obs": ""})
                stopped = i
                break
            if exp is None:
                continue
            try:
                o = json.loads(line)
            except Exception:
                mism.append({"why": "unparsable driver output", "call": script[i], "setup": su, "obs": line[:300]})
                stopped = i
                break
            nev += 1
            if exp[0] == "setup":
                want = projs.get(exp[2])
                if want is not None and o["st"]["o"][exp[1]] != want:
                    sus = last_setup_of(script, i)
                    mism.append({"why": "state after set-up differs", "call": sus[-1], "setup": sus[:-1], "obs": json.dumps(o["st"]["o"][exp[1]]), "want": json.dumps(want)})
                continue
            ok = any(same_outcome(script[i], o, res, q, cfgd["n"]) for res, q in exp[2])
            if not ok:
                mism.append({"why": "result or state differs from the specification", "call": script[i], "setup": exp[3],
                             "obs": json.dumps({"res": o["res"], "st": o["st"]}), "want": json.dumps({"res": exp[2][0][0], "st": exp[2][0][1]})})
                if len(mism) <= 2:
                    # everything the driver did since this pre-state group began: used when the minimal re-execution
                    # (set-up + call) does not reproduce, i.e. when an earlier call of the group left hidden damage
                    g0 = max([g for g in gstarts if g <= i] or [1])
                    mism[-1]["group"] = script[g0:i + 1]
        if stopped is None and start + len(obs_lines) < len(script):
            # the driver died without a Crash line: the event it died in is the finding
            i = start + len(obs_lines)
            exp = expect[i]
            mism.append({"why": "driver stopped (crash or sanitizer report): %s" % err[-400:], "call": script[i],
                         "setup": exp[3] if exp and exp[0] == "call" else [], "obs": obs_lines[-1][:300] if obs_lines else ""})
            stopped = i
        if stopped is None:
            break
        # go on with the next pre-state group in a fresh driver process (a crash costs one group, not the part)
        nxt = [g for g in gstarts if g > stopped]
        restarts += 1
        if not nxt or restarts > 6 or len(mism) >= 400:
            break
        start = nxt[0]
    return {"transitions": ntrans, "replayed": sum(v for k, v in opcount.items() if not k.startswith("alias:")), "events": nev, "failing": nfailing, "ops": opcount,
            "strata": len(strata), "strata_sampled": nsampled}, mism[:400]


def last_setup_of(script, i):
    """the set-up events (they start with a constructor) that end at script[i]"""
    j = i
    while j > 0 and script[j]["op"] not in ("CtorSeq", "CtorFill", "Overlay"):
        j -= 1
    return script[j:i + 1]


def signature(m):
    c = m["call"]
    a = c.get("a", {})
    return "%s/%s/%s/%s" % (c["op"], a.get("sk", a.get("ov", a.get("path", a.get("kind", "")))), a.get("fam", a.get("rop", a.get("lk", ""))), m["why"][:20])


def s2c_enumerate(ctx, cfg):
    """TLC writes every transition of FixedString.tla under cfg (Emit lines); they are distributed over S2C_PARTS files
    by pre-state.  Independent of the include tree, so the checks start these runs in the background at once."""
    # (TLC holds all successors of one abstract state at a time: tens of thousands at N = 4, with their JSON texts)
    r = tlc_stream(ctx, "FixedStringMC", cfg, name="s2c-" + cfg[:-4], workers=max(2, WORKERS // 3), heap="6g" if re.search(r"_[ps]4_", cfg) else "2g")
    wd = ctx.sub("s2c-" + cfg[:-4])
    parts, n = split_emitted(r["outfile"], S2C_PARTS, wd)
    os.remove(r["outfile"])
    with open(r["outfile"], "w") as f:
        f.write("(%d Emit lines were distributed to %s and removed after the replay)\n" % (n, wd))
    return r, parts, n


class Enumerations:
    """S->C enumerations started ahead of their use (at most `ahead` TLC processes at a time)"""

    def __init__(self, ctx, cfgs, ahead=3):
        self.pool = ThreadPoolExecutor(max_workers=ahead)
        self.fut = {cfg: self.pool.submit(s2c_enumerate, ctx, cfg) for cfg in cfgs}

    def get(self, cfg):
        return self.fut[cfg].result()

    def close(self):
        """Nothing of an enumeration may outlive the run (an exception on the way included): cancel what has not
        started, kill what is running."""
        _CLOSING.append(1)
        for f in self.fut.values():
            f.cancel()
        for p in list(_LIVE):
            try:
                p.kill()
            except Exception:
                pass
        self.pool.shutdown(wait=True)
        del _CLOSING[:]


def s2c(ctx, targets, tlc_cfgs, workers=None, enums=None):
    """Enumerate with TLC once, replay on every target (cfgd, driver, keep): everything, or a stratified
    sample (see s2c_worker), of the enumerated calls.  Returns {name: (stats, mismatches)}."""
    out = {c["name"]: ({"transitions": 0, "replayed": 0, "events": 0, "failing": 0, "ops": {}, "tlc_generated": 0, "strata": 0, "strata_sampled": 0}, [])
           for c, _, _ in targets}
    for cfg in tlc_cfgs:
        r, parts, n = enums.get(cfg) if enums else s2c_enumerate(ctx, cfg)
        ctx.cov["states"] += r["distinct"]
        ctx.cov["transitions"] += r["generated"]
        jobs = []
        for c, drv, keep in targets:
            twd = ctx.sub("s2c-" + cfg[:-4] + "/" + c["name"])
            jobs += [(p, drv, c, twd, ctx.seed * 7919 + i, keep, "part-%02d" % i) for i, p in enumerate(parts)]
        with ProcessPoolExecutor(max_workers=workers or WORKERS) as ex:
            for job, (st, mm) in zip(jobs, ex.map(s2c_worker, jobs)):
                tot, mism = out[job[2]["name"]]
                for k in ("transitions", "replayed", "events", "failing", "strata", "strata_sampled"):
                    tot[k] += st[k]
                for op, cnt in st["ops"].items():
                    tot["ops"][op] = tot["ops"].get(op, 0) + cnt
                mism.extend(mm)
        for p in parts:
            os.remove(p)
        for c, _, _ in targets:
            out[c["name"]][0]["tlc_generated"] += n
        ctx.log("S->C %s: TLC %d distinct states, %d transitions enumerated in %.1fs; replayed on %s: %s" % (
            cfg, r["distinct"], n, r["wall_s"], ", ".join(c["name"] for c, _, _ in targets),
            ", ".join("%d calls/%d mismatches" % (out[c["name"]][0]["replayed"], len(out[c["name"]][1])) for c, _, _ in targets)))
    return out


def confirm_mismatches(ctx, cfgd, drv, mism, classify, max_signatures=8):
    """Every S->C mismatch is re-run as a minimal execution (Reset, set-up, call) and validated by TLC
    against FixedStringTrace: only what TLC rejects there is reported (and it repeats by construction)."""
    if not mism:
        return
    by_sig = {}
    for m in mism:
        by_sig.setdefault(signature(m), []).append(m)
    ctx.notes.setdefault("s2c_mismatch_signatures", {}).update({k: len(v) for k, v in by_sig.items()})
    lines = []
    for sig in sorted(by_sig)[:max_signatures]:
        m = by_sig[sig][0]
        lines.append(reset_event(cfgd))
        lines.extend(m.get("setup", []))
        lines.append(m["call"])
    d = ctx.sub("confirm")
    sp = os.path.join(d, cfgd["name"] + "-%d.script" % ctx._n)
    tp = sp[:-7] + ".ndjson"
    write_script(sp, lines)
    run_script(drv, sp, tp)
    before = len(ctx.violations) + len(ctx.known)
    res = validate_many(ctx, [tp], classify, max_restarts=max_signatures + 2)
    if len(ctx.violations) + len(ctx.known) == before and not any(not r["accepted"] for _, r in res):
        # second attempt with the whole history of the pre-state group in which the first mismatches were seen
        lines = []
        for m in mism:
            if "group" in m:
                lines.append(reset_event(cfgd))
                lines.extend(m["group"])
        if lines:
            sp2 = sp[:-7] + "-group.script"
            tp2 = sp2[:-7] + ".ndjson"
            write_script(sp2, lines)
            run_script(drv, sp2, tp2)
            res = validate_many(ctx, [tp2], classify, max_restarts=3)
    if len(ctx.violations) + len(ctx.known) == before and not any(not r["accepted"] for _, r in res):
        raise MachineryError("S->C replay of %s found %d mismatches (%s) that trace validation does not confirm; first: %s" % (
            cfgd["name"], len(mism), ", ".join(sorted(by_sig)[:6]), json.dumps(mism[0])[:1500]))


# ------------------------------------------------------------------ C->S: seeded random scripts
class Gen:
    """Random script generator.  Tracks only the two lengths (to stay inside the C++ preconditions and,
    under the silent policy, inside the capacity); it predicts no results."""

    def __init__(self, rnd, cfgd, fail_bias=0.15, allow_known=False):
        self.r, self.c = rnd, cfgd
        # XTL_NO_EXCEPTIONS build: a failing check terminates the program, so no call may fail (positions stay in range)
        self.nothrow = cfgd.get("fl") == "x"
        if self.nothrow:
            fail_bias = 0.0
        self.N = cfgd["n"]
        self.thr = bool(cfgd["thr"])
        self.strlen = cfgd["layout"] == "strlen"
        self.len = [0, 0]
        self.fail_bias = fail_bias           # how often a call that must throw is kept
        self.allow_known = allow_known
        # code units as the driver logs them (see units<> in driver.cpp): wchar_t is signed (negative code units sort first, as
        # std::char_traits<wchar_t>::lt has it), char32_t's top quarter 0xC0000000.. is written 0x40000000..
        hi = {"char": [200, 255, 128], "char16_t": [0x3b1, 0xFFFF, 0x8000], "wchar_t": [0x3b1, -1, -2147483648, 0x10FFFF],
              "char32_t": [0x3b1, 0x7FFFFFFF, 0x40000000, 0x10FFFF]}[cfgd["ct"]]
        self.alpha = [97, 97, 98, 98, 99, 32] + hi
        self.pending = []

    # ---- argument pickers
    def chr(self, nul_ok=True):
        if nul_ok and not self.strlen and self.r.random() < 0.08:
            return 0
        return self.r.choice(self.alpha)

    def pos(self, n):
        c = [0, 0, 1, n - 1, n, n, n + 1, n + 2, NPOS, self.r.randint(0, max(n, 0)), n // 2]
        if self.nothrow:
            c = [x for x in c if 0 <= x <= n]
        return self.r.choice([x for x in c if x >= 0 or x == NPOS])

    def goodpos(self, n):
        return self.r.choice([0, n, n // 2, max(n - 1, 0), self.r.randint(0, n)])

    def cnt(self, rem, room):
        c = [0, 1, 1, 2, rem, rem + 1, max(rem - 1, 0), NPOS, room, room + 1, max(room - 1, 0), self.r.randint(0, max(rem, room, 1))]
        return self.r.choice([x for x in c if x >= 0 or x == NPOS])

    def count(self, room):
        """a plain character count (never npos: size()+count must not overflow)"""
        c = [0, 1, 1, 2, 3, room, room, room + 1, max(room - 1, 0), self.r.randint(0, max(room, 1)), self.N, self.N + 1]
        return self.r.choice([x for x in c if x >= 0])

    def seq(self, room, kind, store=True):
        """a source sequence for source kind `kind`; room = characters that still fit"""
        N = self.N
        c = [0, 1, 1, 2, 3, room, room, room + 1, max(room - 1, 0), self.r.randint(0, max(min(room + 1, N + 2), 1)), N, N + 1]
        n = self.r.choice([x for x in c if 0 <= x <= N + 2])
        if kind == "il" and n not in IL_LENS:
            n = min(n, 10)
        nul_ok = kind in ("ptrn", "il", "itv", "itl", "itp", "itpm", "its") and not (self.strlen and store)
        return [self.chr(nul_ok) for _ in range(n)]

    def ev(self, op, k, **a):
        return {"op": op, "k": k + 1, "a": a or {"z": 0}}

    def sub_len(self, srclen, p, n):
        if p == NPOS or p > srclen:
            return None
        rest = srclen - p
        return rest if (n in (NPOS, DFLT) or n > rest) else n

    # ---- outcome bookkeeping: returns True when the event may be emitted
    def settle(self, k, rng, newlen, other_newlen=None):
        """rng: a position argument is out of range (throws under both policies);
        newlen: resulting length of object k when the call succeeds (None when rng)."""
        N = self.N
        if rng:
            return self.r.random() < self.fail_bias * 2
        if newlen > N:
            if not self.thr:
                return False                         # precondition of the silent policy
            return self.r.random() < self.fail_bias * 3
        self.len[k] = newlen
        if other_newlen is not None:
            self.len[1 - k] = other_newlen
        return True

    def resync_other(self, k):
        """after an operation that passed the other object as an rvalue its state is unspecified:
        give it a known value again"""
        o = 1 - k
        v = self.seq(self.N, "ptrn")
        v = v[:self.N]
        self.len[o] = len(v)
        self.pending.append(self.ev("AssignSeq", o, ov="assign", sk="ptrn", src=v))

    def srckind(self, kinds):
        return self.r.choice(kinds)

    def step(self):
        if self.pending:
            return self.pending.pop(0)
        for _ in range(200):
            e = self.try_step()
            if e is not None:
                return e
        k = self.r.randrange(2)
        return self.ev("Iterate", k, kind="cstr")

    # ---- calls whose source is (part of) the object itself
    def alias_desc(self, la, sk):
        r = self.r
        if sk == "self":
            return []
        off = r.choice([0, 0, la, la // 2, max(la - 1, 0), r.randint(0, la)])
        if sk == "selfz":
            return [off]
        return [off, min(la - off, r.choice([0, 1, la - off, la - off, max(la - off - 1, 0), r.randint(0, la - off)]))]

    def alias_emit(self, ev, k, rng, newlen):
        """settle + avoidance of the open aliasing finding; for a C string inside the object the object is first
        given NUL-free contents of the same length (the generator tracks lengths, not characters)"""
        la = self.len[k]
        # (the predicate needs lengths and NUL positions only: a C string inside the object is made NUL-free below)
        if avoid(ev, self.len, ([1] * self.len[0], [1] * self.len[1])) and not self.allow_known:
            return None
        if not self.settle(k, rng, newlen):
            return None
        if ev["a"].get("sk") == "selfz" and not self.strlen:
            self.pending.append(ev)
            return self.ev("AssignSeq", k, ov="assign", sk="ptrn", src=[self.chr(False) for _ in range(la)])
        return ev

    def alias_step(self, k):
        r, N = self.r, self.N
        la = self.len[k]
        t = r.randrange(13)
        sub = lambda p, n: self.sub_len(la, p, n)
        if t == 0:
            p, n = self.pos(la), r.choice([DFLT, self.cnt(la, la)])
            g = sub(p, n)
            app = r.random() < 0.5
            return self.alias_emit(self.ev("AppendSub" if app else "AssignSub", k, sk="self", src=[], pos=p, n=n), k, g is None,
                                   None if g is None else (la + g if app else g))
        if t in (1, 2):
            sk = r.choice(["self", "selfp", "selfz", "selfit", "selfmit", "selfrit"])
            app = t == 2
            ov = r.choice(["assign", "op"]) if sk in ("self", "selfz") else "assign"
            d = self.alias_desc(la, sk)
            g = la if sk == "self" else la - d[0] if sk == "selfz" else d[1]
            if app:
                return self.alias_emit(self.ev("AppendSeq", k, ov="append" if ov == "assign" else "op", sk=sk, src=d), k, False, la + g)
            return self.alias_emit(self.ev("AssignSeq", k, ov=ov, sk=sk, src=d), k, False, g)
        if t == 3:
            sk = r.choice(["self", "selfp", "selfz"])
            d = self.alias_desc(la, sk)
            g = la if sk == "self" else la - d[0] if sk == "selfz" else d[1]
            idx = self.pos(la)
            return self.alias_emit(self.ev("InsertSeq", k, idx=idx, sk=sk, src=d), k, idx == NPOS or idx > la, la + g)
        if t == 4:
            idx, p, n = self.pos(la), self.pos(la), r.choice([DFLT, self.cnt(la, N - la)])
            g = sub(p, n)
            bad = idx == NPOS or idx > la or g is None
            if bad and g is not None and la + g > N and not self.thr:
                return None
            return self.alias_emit(self.ev("InsertSub", k, idx=idx, sk="self", src=[], pos=p, n=n), k, bad, la + (g or 0))
        if t == 5:
            d = self.alias_desc(la, "selfit")
            return self.alias_emit(self.ev("InsertItSeq", k, it=self.goodpos(la), sk=r.choice(SELF_IT_KINDS), src=d), k, False, la + d[1])
        if t in (6, 7, 8):
            p, n = self.pos(la), self.cnt(la, la)
            er = sub(p, n)
            if t == 6:
                sk = r.choice(["self", "selfp", "selfz"])
                d = self.alias_desc(la, sk)
                g = la if sk == "self" else la - d[0] if sk == "selfz" else d[1]
                return self.alias_emit(self.ev("Replace", k, pos=p, n=n, sk=sk, src=d), k, er is None, la - (er or 0) + g)
            if t == 7:
                p2, n2 = self.pos(la), r.choice([DFLT, self.cnt(la, N - la + (er or 0))])
                g = sub(p2, n2)
                return self.alias_emit(self.ev("ReplaceSub", k, pos=p, n=n, sk="self", src=[], pos2=p2, n2=n2), k, er is None or g is None,
                                       la - (er or 0) + (g or 0))
            f = self.goodpos(la)
            l = r.choice([f, f, la, min(f + 1, la), r.randint(f, la)])
            sk = r.choice(["self", "selfp", "selfz", "selfit", "selfmit", "selfrit"])
            d = self.alias_desc(la, sk)
            g = la if sk == "self" else la - d[0] if sk == "selfz" else d[1]
            return self.alias_emit(self.ev("ReplaceIt", k, f=f, l=l, sk=sk, src=d), k, False, la - (l - f) + g)
        if t == 9:
            sk = r.choice(["self", "selfp", "selfz"])
            d = self.alias_desc(la, sk)
            fam = r.choice(["find", "rfind", "ffo", "ffno", "flo", "flno"])
            p = self.pos(la) if sk == "selfp" else r.choice([DFLT, self.pos(la)])
            return self.alias_emit(self.ev("Find", k, fam=fam, sk=sk, src=d, pos=p), k, False, la)
        if t == 10:
            u = r.randrange(4)
            if u == 0:
                sk = r.choice(["self", "selfz"])
                return self.alias_emit(self.ev("Compare", k, sk=sk, src=self.alias_desc(la, sk)), k, False, la)
            if u == 1:
                sk = r.choice(["self", "selfp", "selfz"])
                return self.alias_emit(self.ev("Compare1", k, pos1=self.pos(la), n1=self.cnt(la, la), sk=sk, src=self.alias_desc(la, sk)), k, False, la)
            if u == 2:
                return self.alias_emit(self.ev("Compare2", k, pos1=self.pos(la), n1=self.cnt(la, la), sk="self", src=[], pos2=self.pos(la),
                                               n2=r.choice([DFLT, self.cnt(la, la)])), k, False, la)
            sk = r.choice(["self", "selfz"])
            return self.alias_emit(self.ev("Rel", k, rop=r.choice(["eq", "ne", "lt", "le", "gt", "ge"]), sk=sk, src=self.alias_desc(la, sk)), k, False, la)
        if t == 11:
            if 2 * la > N and (not self.thr or r.random() > self.fail_bias * 3):
                return None
            return self.ev("Concat", k, lk="self", rk="self", src=[])
        return self.ev("Swap", k, ov=r.choice(["memberself", "freeself"]))

    def try_step(self):
        r, N = self.r, self.N
        k = r.randrange(2)
        o = 1 - k
        la, lb = self.len[k], self.len[o]
        room = N - la
        if r.random() < 0.09:
            return self.alias_step(k)
        c = r.random()
        # ---------------- construction / assignment
        if c < 0.10:
            t = r.randrange(8)
            ctor = r.random() < 0.4
            if t == 0:
                if ctor:
                    self.len[k] = 0
                    return self.ev("CtorDefault", k)
                self.len[k] = 0
                return self.ev("Clear", k)
            if t == 1:
                n, ch = self.count(N), self.chr()
                if not self.settle(k, False, n): return None
                if ctor: return self.ev("CtorFill", k, n=n, ch=ch)
                if n == 1 and r.random() < 0.5: return self.ev("AssignFill", k, ov="opch", n=1, ch=ch)
                return self.ev("AssignFill", k, ov="assign", n=n, ch=ch)
            if t == 2:
                sk = r.choice(["obj", "str"])
                src = [] if sk == "obj" else self.seq(N, "str")
                sl = lb if sk == "obj" else len(src)
                p, n = self.pos(sl), r.choice([DFLT, self.cnt(max(sl - 1, 0), N)])
                sub = self.sub_len(sl, p, n)
                if not self.settle(k, sub is None, sub): return None
                return self.ev("CtorSub" if ctor else "AssignSub", k, sk=sk, src=src, pos=p, n=n)
            if t in (3, 4, 5):
                sk = r.choice(["ptrn", "ptr", "il", "str", "obj", "objm"] + IT_KINDS)
                ov = "assign" if ctor or sk in ["ptrn"] + IT_KINDS else r.choice(["assign", "op"])
                src = [] if sk in ("obj", "objm") else self.seq(N, sk)
                sl = lb if sk in ("obj", "objm") else len(src)
                if not self.settle(k, False, sl): return None
                if sk == "objm": self.resync_other(k)
                if ctor: return self.ev("CtorSeq", k, sk=sk, src=src)
                return self.ev("AssignSeq", k, ov=ov, sk=sk, src=src)
            if t == 6 and self.strlen and r.random() < 0.7:
                n = r.randint(0, N)
                cells = [self.chr(False) for _ in range(n)] + [0] + [r.choice(self.alpha + [0]) for _ in range(N - n)]
                self.len[k] = n
                return self.ev("Overlay", k, cells=cells)
            if t == 7:
                self.len[k], self.len[o] = lb, la
                return self.ev("Swap", k, ov=r.choice(["member", "free"]))
            return None
        # ---------------- element access
        if c < 0.17:
            t = r.randrange(6)
            cc = r.randrange(2)
            if t == 0:
                i = self.pos(la)
                if self.nothrow and i >= la: return None
                return self.ev("At", k, c=cc, i=i)
            if t == 1: return self.ev("Index", k, c=cc, i=r.choice([0, la, la // 2, max(la - 1, 0)]))
            if t == 2 and la > 0: return self.ev(r.choice(["Front", "Back"]), k, c=cc)
            if t == 3 and la > 0:
                path = r.choice(["index", "at", "front", "back", "iter", "riter", "data"])
                i = 0 if path == "front" else la - 1 if path == "back" else r.choice([0, la - 1, r.randrange(la)])
                return self.ev("Write", k, path=path, i=i, ch=self.chr())
            if t == 4: return self.ev("Iterate", k, kind=r.choice(["begin", "cbegin", "rbegin", "crbegin", "cstr", "data"]))
            return None
        # ---------------- push / pop / resize
        if c < 0.27:
            t = r.randrange(5)
            if t == 0:
                if not self.settle(k, False, la + 1): return None
                return self.ev("PushBack", k, ov=r.choice(["push_back", "opch"]), ch=self.chr())
            if t == 1 and la > 0:
                self.len[k] = la - 1
                return self.ev("PopBack", k)
            if t == 2:
                n = r.choice([0, la, max(la - 1, 0), la + 1, N, N + 1, max(N - 1, 0), r.randint(0, N)])
                ev = self.ev("Resize1", k, n=n)
                if n > la and (self.strlen or (avoid(ev, self.len) and not self.allow_known)): return None
                if not self.settle(k, False, n): return None
                return ev
            if t == 3:
                n = r.choice([0, la, max(la - 1, 0), la + 1, N, N + 1, max(N - 1, 0), r.randint(0, N), NPOS])
                ch = self.chr()
                if n == NPOS:
                    if not self.thr or r.random() > self.fail_bias: return None
                    return self.ev("Resize2", k, n=n, ch=ch)
                if not self.settle(k, False, n): return None
                return self.ev("Resize2", k, n=n, ch=ch)
            return None
        # ---------------- substr / copy / erase
        if c < 0.37:
            t = r.randrange(5)
            if t == 0:
                p = r.choice([DFLT, self.pos(la)])
                n = DFLT if p == DFLT and r.random() < 0.5 else r.choice([DFLT, self.cnt(la, la)])
                return self.ev("Substr", k, pos=p, n=n)
            if t == 1:
                p = r.choice([DFLT, self.pos(la)])
                n = self.cnt(la, la)
                pp = 0 if p == DFLT else p
                got = self.sub_len(la, pp, n)
                dn = (got if got is not None else 0) + r.choice([0, 0, 1, 3])
                return self.ev("Copy", k, n=n, pos=p, dn=dn, fill=126)
            if t == 2:
                p = r.choice([DFLT, self.pos(la)])
                n = DFLT if p == DFLT and r.random() < 0.5 else r.choice([DFLT, self.cnt(la, la)])
                pp = 0 if p == DFLT else p
                got = self.sub_len(la, pp, n)
                if not self.settle(k, got is None, la - (got or 0)): return None
                return self.ev("Erase", k, idx=p, n=n)
            if t == 3 and la > 0:
                it = r.choice([0, la - 1, r.randrange(la)])
                self.len[k] = la - 1
                return self.ev("EraseIt", k, it=it)
            if t == 4:
                f = self.goodpos(la)
                l = r.choice([f, la, min(f + 1, la), r.randint(f, la)])
                self.len[k] = la - (l - f)
                return self.ev("EraseRange", k, f=f, l=l)
            return None
        # ---------------- insert
        if c < 0.52:
            t = r.randrange(6)
            if t == 0:
                idx, n = self.pos(la), self.count(room)
                if not self.settle(k, idx == NPOS or idx > la, la + n): return None
                return self.ev("InsertFill", k, idx=idx, n=n, ch=self.chr())
            if t == 1:
                sk = r.choice(["ptr", "ptrn", "obj", "str"])
                src = [] if sk == "obj" else self.seq(room, sk)
                sl = lb if sk == "obj" else len(src)
                idx = self.pos(la)
                if not self.settle(k, idx == NPOS or idx > la, la + sl): return None
                return self.ev("InsertSeq", k, idx=idx, sk=sk, src=src)
            if t == 2:
                sk = r.choice(["obj", "str"])
                src = [] if sk == "obj" else self.seq(N, "str")
                sl = lb if sk == "obj" else len(src)
                idx, p, n = self.pos(la), self.pos(sl), r.choice([DFLT, self.cnt(sl, room)])
                sub = self.sub_len(sl, p, n)
                bad = idx == NPOS or idx > la or sub is None
                if bad and sub is not None and la + sub > N and not self.thr: return None
                if not self.settle(k, bad, la + (sub or 0)): return None
                return self.ev("InsertSub", k, idx=idx, sk=sk, src=src, pos=p, n=n)
            if t == 3:
                it = self.goodpos(la)
                if r.random() < 0.5:
                    if not self.settle(k, False, la + 1): return None
                    return self.ev("InsertIt", k, ov="ch", it=it, n=1, ch=self.chr())
                n = self.count(room)
                if not self.settle(k, False, la + n): return None
                return self.ev("InsertIt", k, ov="fill", it=it, n=n, ch=self.chr())
            if t == 4:
                sk = r.choice(["il"] + IT_KINDS)
                src = self.seq(room, sk)
                it = self.goodpos(la)
                if not self.settle(k, False, la + len(src)): return None
                return self.ev("InsertItSeq", k, it=it, sk=sk, src=src)
            return None
        # ---------------- append
        if c < 0.62:
            t = r.randrange(3)
            if t == 0:
                n = self.count(room)
                if not self.settle(k, False, la + n): return None
                return self.ev("AppendFill", k, n=n, ch=self.chr())
            if t == 1:
                ov = r.choice(["append", "op"])
                sk = r.choice(["obj", "str", "ptrn", "ptr", "il"] + IT_KINDS if ov == "append" else ["obj", "str", "ptr", "il"])
                src = [] if sk == "obj" else self.seq(room, sk)
                sl = lb if sk == "obj" else len(src)
                if not self.settle(k, False, la + sl): return None
                return self.ev("AppendSeq", k, ov=ov, sk=sk, src=src)
            sk = r.choice(["obj", "str"])
            src = [] if sk == "obj" else self.seq(N, "str")
            sl = lb if sk == "obj" else len(src)
            p, n = self.pos(sl), r.choice([DFLT, self.cnt(sl, room)])
            sub = self.sub_len(sl, p, n)
            if not self.settle(k, sub is None, la + (sub or 0)): return None
            return self.ev("AppendSub", k, sk=sk, src=src, pos=p, n=n)
        # ---------------- replace
        if c < 0.77:
            t = r.randrange(5)
            p, n = self.pos(la), self.cnt(la, la)
            er = self.sub_len(la, p, n)
            if t == 0:
                sk = r.choice(["obj", "str", "ptrn", "ptr"])
                src = [] if sk == "obj" else self.seq(room + (er or 0), sk)
                sl = lb if sk == "obj" else len(src)
                if not self.settle(k, er is None, la - (er or 0) + sl): return None
                return self.ev("Replace", k, pos=p, n=n, sk=sk, src=src)
            if t == 1:
                sk = r.choice(["obj", "str"])
                src = [] if sk == "obj" else self.seq(N, "str")
                sl = lb if sk == "obj" else len(src)
                p2, n2 = self.pos(sl), r.choice([DFLT, self.cnt(sl, room + (er or 0))])
                sub = self.sub_len(sl, p2, n2)
                bad = er is None or sub is None
                if not self.settle(k, bad, la - (er or 0) + (sub or 0)): return None
                return self.ev("ReplaceSub", k, pos=p, n=n, sk=sk, src=src, pos2=p2, n2=n2)
            if t == 2:
                n2 = self.count(room + (er or 0))
                if not self.settle(k, er is None, la - (er or 0) + n2): return None
                return self.ev("ReplaceFill", k, pos=p, n=n, n2=n2, ch=self.chr())
            f = self.goodpos(la)
            l = r.choice([f, f, la, min(f + 1, la), r.randint(f, la)])
            if t == 3:
                sk = r.choice(["obj", "str", "ptrn", "ptr", "il"] + IT_KINDS)
                src = [] if sk == "obj" else self.seq(room + (l - f), sk)
                sl = lb if sk == "obj" else len(src)
                if not self.settle(k, False, la - (l - f) + sl): return None
                return self.ev("ReplaceIt", k, f=f, l=l, sk=sk, src=src)
            n2 = self.count(room + (l - f))
            if not self.settle(k, False, la - (l - f) + n2): return None
            return self.ev("ReplaceItFill", k, f=f, l=l, n2=n2, ch=self.chr())
        # ---------------- search
        if c < 0.87:
            fam = r.choice(["find", "rfind", "ffo", "ffno", "flo", "flno"])
            sk = r.choice(["obj", "str", "ptrn", "ptr", "ch"])
            src = [] if sk == "obj" else [self.chr(False)] if sk == "ch" else self.seq(2, sk, store=False)[:3]
            p = self.pos(la) if sk == "ptrn" else r.choice([DFLT, DFLT, self.pos(la), self.pos(la)])
            return self.ev("Find", k, fam=fam, sk=sk, src=src, pos=p)
        # ---------------- compare / relational
        if c < 0.94:
            t = r.randrange(4)
            if t == 0:
                sk = r.choice(["obj", "str", "ptr"])
                return self.ev("Compare", k, sk=sk, src=[] if sk == "obj" else self.seq(la, sk, store=False))
            if t == 1:
                sk = r.choice(["obj", "str", "ptr", "ptrn"])
                return self.ev("Compare1", k, pos1=self.pos(la), n1=self.cnt(la, la), sk=sk, src=[] if sk == "obj" else self.seq(la, sk, store=False))
            if t == 2:
                sk = r.choice(["obj", "str"])
                src = [] if sk == "obj" else self.seq(la, "str", store=False)
                sl = lb if sk == "obj" else len(src)
                return self.ev("Compare2", k, pos1=self.pos(la), n1=self.cnt(la, la), sk=sk, src=src, pos2=self.pos(sl), n2=r.choice([DFLT, self.cnt(sl, sl)]))
            sk = r.choice(["obj", "ptr", "ptrL", "str", "strL"])
            return self.ev("Rel", k, rop=r.choice(["eq", "ne", "lt", "le", "gt", "ge"]), sk=sk, src=[] if sk == "obj" else self.seq(la, "ptr", store=False))
        # ---------------- operator+
        if c < 0.975:
            lk, rk = r.choice([("self", "obj"), ("self", "ptr"), ("self", "ch"), ("ptr", "obj"), ("ch", "obj"), ("selfm", "obj"), ("self", "objm"),
                               ("selfm", "objm"), ("selfm", "ptr"), ("selfm", "ch"), ("ptr", "objm"), ("ch", "objm")])
            both = lk in ("self", "selfm") and rk in ("obj", "objm")
            src = [] if both else [self.chr(False)] if "ch" in (lk, rk) else self.seq(N - (la if lk in ("self", "selfm") else lb), "ptr", store=False)
            total = (la if lk in ("self", "selfm") else len(src)) + (lb if rk in ("obj", "objm") else len(src))
            if total > N and (not self.thr or r.random() > self.fail_bias * 3): return None
            if lk == "selfm" and total <= N:
                # the left operand was an rvalue: give it a known value again (first), then the other
                v = self.seq(N, "ptrn")[:N]
                self.len[k] = len(v)
                self.pending.append(self.ev("AssignSeq", k, ov="assign", sk="ptrn", src=v))
            if rk == "objm" and total <= N: self.resync_other(k)
            return self.ev("Concat", k, lk=lk, rk=rk, src=src)
        # ---------------- std::string / streams (char only; contents must be NUL-free: they go through C strings)
        if not self.c["io"]:
            return None
        t = r.randrange(4)
        if t == 0:
            if r.random() >= 0.2: return None
            self.len[k] = 0
            return self.ev("Clear", k)
        if t == 1:
            # ToStd / StreamOut need a NUL-free string: make it one first when NULs are possible
            v = [self.chr(False) for _ in range(la)]
            self.pending.append(self.ev(r.choice(["ToStd", "StreamOut"]), k))
            return self.ev("AssignSeq", k, ov="assign", sk="ptrn", src=v)
        if t == 2:
            text = [x for x in self.seq(N, "ptr") if x != 32]
            if not text: return None
            if not self.settle(k, False, len(text)): return None
            return self.ev("StreamIn", k, text=text)
        text = self.seq(N, "ptr")
        delim = r.choice([DFLT, 98, 32])
        if r.random() < 0.5 and text: text[r.randrange(len(text))] = 10 if delim == DFLT else delim
        d = 10 if delim == DFLT else delim
        line = text[:text.index(d)] if d in text else text
        if not self.settle(k, False, len(line)): return None
        return self.ev("GetLine", k, text=text, delim=delim, rv=r.randrange(2))


def random_script(seed, cfgd, nexec, nops, fail_bias=0.15, allow_known=False):
    rnd = random.Random(seed * 1000003 + cfgd["n"] * 31 + cfgd["cw"] * 7 + cfgd["strlen"] * 3 + cfgd["thr"])
    lines = []
    N = cfgd["n"]
    for x in range(nexec):
        g = Gen(rnd, cfgd, fail_bias, allow_known)
        lines.append(reset_event(cfgd))
        if rnd.random() < 0.6 and N > 0:
            # fill to the boundary first, then work there
            for k in (0, 1):
                n = rnd.choice([N, N, max(N - 1, 0), max(N - 2, 0)]) if (k == 0 or rnd.random() < 0.3) else rnd.randint(0, min(N, 6))
                v = [g.chr(False) for _ in range(n)]
                g.len[k] = n
                lines.append(g.ev("AssignSeq", k, ov="assign", sk="ptrn", src=v))
        for _ in range(nops):
            lines.append(g.step())
        while g.pending:
            lines.append(g.pending.pop(0))
    return lines


# ------------------------------------------------------------------ TLC simulation walks (longer L1 behaviours)
def sim_scripts(ctx, tlc_cfg, cfgd, num, depth, name):
    """TLC -simulate writes random behaviours of FixedString.tla (both objects, all overload families) at
    a larger capacity; each becomes one execution: the sequence of `last` records is the call sequence."""
    from vlib import tlaval
    simdir = ctx.sub("sim-" + name)
    core.tlc(ctx, "FixedStringMC", tlc_cfg, name="simulate-" + name, simulate="file=%s/t,num=%d" % (simdir, num),
             extra=["-depth", str(depth), "-seed", str(ctx.seed)], workers=min(4, WORKERS), timeout=1800)
    lines, n = [], 0
    for fn in sorted(os.listdir(simdir)):
        states = tlaval.parse_sim_trace(os.path.join(simdir, fn))
        if len(states) < 2:
            continue
        lines.append(reset_event(cfgd))
        lens = [0, 0]
        ok = True
        for st in states[1:]:
            l = st["last"]
            ev = {"op": l["op"], "k": l["k"], "a": _plain(l["a"])}
            po = st["pre"]["obj"]
            if avoid(ev, (len(po[0]), len(po[1])), po) or ev["op"] == "Nav":
                ok = False        # the rest of this walk depends on a call that is not to be made: cut it here
                break
            lines.append(ev)
        n += 1
    return lines, n


def _plain(v):
    """tlaval gives sequences as lists and records as dicts already; sets do not occur in call arguments"""
    if isinstance(v, dict):
        return {k: _plain(x) for k, x in v.items()}
    if isinstance(v, list):
        return [_plain(x) for x in v]
    return v


# ------------------------------------------------------------------ classification / replay
def effective_findings(pid):
    """known_findings.json entries of this property plus the entries this check proposes (PROPOSED_OPEN) that are
    not listed there yet; the latter carry "pending": True."""
    listed = core.load_findings(pid)
    try:
        with open(os.path.join(core.ROOT, "known_findings.json")) as f:
            all_ids = {x.get("id") for x in json.load(f).get("open", [])}
    except Exception:
        all_ids = set()
    out = list(listed)
    for e in PROPOSED_OPEN:
        if e["id"] not in {x.get("id") for x in listed}:
            e2 = dict(e)
            e2["pending"] = e["id"] not in all_ids
            out.append(e2)
    return out


def probe_pending(ctx, findings, drivers):
    """Run the probes of the multi-probe entries (PROPOSED_OPEN format) on the tree under test and validate them
    against L1.  An entry with a rejected probe is ACTIVE (its class is avoided by the generators and reported as
    KNOWN-FINDING / PENDING-FINDING); an entry whose probes are all accepted is inactive: the defect is repaired
    on this tree, nothing is avoided, every rejection in its class is a VIOLATION."""
    ACTIVE.clear()
    items = []
    for e in findings:
        for i, pr in enumerate(e.get("probes", [])):
            items.append((e, i, pr, make_cfg(**pr["cfg"])))
    if not items:
        return
    need = [c for _, _, _, c in items if c["name"] not in drivers]
    if need:
        drivers.update(build_drivers(ctx, need, tolerate=True))
    d = ctx.sub("probes")

    def one(it):
        e, i, pr, c = it
        if c["name"] not in drivers:
            return it, None
        sp = os.path.join(d, "%s-%d.script" % (e["id"], i))
        tp = sp[:-7] + ".ndjson"
        write_script(sp, pr["script"])
        run_script(drivers[c["name"]], sp, tp)
        r = validate_one(ctx, tp, explain=False)
        return it, r["accepted"]

    res = {}
    with ThreadPoolExecutor(max_workers=max(1, WORKERS // 2)) as ex:
        for (e, i, pr, c), ok in ex.map(one, items):
            if ok is not None:
                res.setdefault(e["id"], []).append(ok)
    for e in findings:
        if "probes" not in e:
            continue
        oks = res.get(e["id"], [])
        ctx.notes.setdefault("finding_probes", {})[e["id"]] = {"accepted": sum(1 for x in oks if x), "rejected": sum(1 for x in oks if not x)}
        if any(not x for x in oks):
            ACTIVE.add(e["id"])
            text = "%s (%s)" % (e["key"], e["what"])
            if e.get("pending"):
                ctx.notes.setdefault("pending_findings", [])
                if text not in ctx.notes["pending_findings"]:
                    ctx.notes["pending_findings"].append(text)
            elif text not in ctx.known:
                ctx.known.append(text)
    ctx.log("finding probes: %s; active: %s" % (ctx.notes.get("finding_probes"), sorted(ACTIVE) or "none"))


def conclude(ctx, level, **kw):
    """core.finish plus the PENDING-FINDING lines (findings proposed by this check, not listed in known_findings.json)."""
    pend = ctx.notes.get("pending_findings", [])
    for k in list(ctx.known):
        if k.startswith("PENDING "):
            ctx.known.remove(k)
            if k[8:] not in pend:
                pend.append(k[8:])
    if pend:
        ctx.notes["pending_findings"] = pend
    rc = core.finish(ctx, level, **kw)
    for t in pend:
        print("PENDING-FINDING: property=%s %s" % (ctx.pid, t))
    return rc


def classify(findings):
    """A rejected event is a known finding only when it is exactly the listed call site / input:
    all `match` fields equal and, with "when": "grows", the call asks for more characters than the
    object held before it (taken from the state logged by the previous event)."""
    def f(ev, execution):
        for k in findings:
            m = k.get("match", {})
            if m.get("alias") == "unsafe":
                if k["id"] not in ACTIVE or ev.get("a", {}).get("sk") not in ALIAS_KINDS:
                    continue
                try:
                    prev = json.loads(execution[-2])
                    before = prev["st"]["o"][ev["k"] - 1]["chars"]
                    if alias_unsafe(ev, before):
                        return ("PENDING " if k.get("pending") else "") + "%s (%s)" % (k["key"], k["what"])
                except Exception:
                    pass
                continue
            if not m or not all(ev.get(x) == y or ev.get("a", {}).get(x) == y for x, y in m.items()):
                continue
            if "probes" in k:
                if k["id"] not in ACTIVE:
                    continue
                return ("PENDING " if k.get("pending") else "") + "%s (%s)" % (k["key"], k["what"])
            if k.get("when") == "grows":
                try:
                    prev = json.loads(execution[-2])
                    before = prev["st"]["o"][ev["k"] - 1]["size"]
                    if not (ev["a"]["n"] > before):
                        continue
                except Exception:
                    continue
            return "%s (%s)" % (k["key"], k["what"])
        return None
    return f


def _with_big_stack(fn):
    """TLC evaluates sequence operators recursively; the thread stack needed grows with the string length.  -Xss64m
    holds 300-character strings with a wide margin; should a StackOverflowError turn up nevertheless the run is
    repeated once with a 1 GB stack instead of ending as a machinery error."""
    try:
        return retry_killed(lambda: fn(TLC_ENV))
    except MachineryError as x:
        if "StackOverflowError" not in str(x):
            raise
        return fn({"JAVA_TOOL_OPTIONS": "-Xss1g"})


def validate_one(ctx, trace_path, explain=True):
    return _with_big_stack(lambda env: core.validate_trace(ctx, "FixedStringTrace", "FixedStringTrace.cfg", trace_path, env=env, explain=explain))


def validate_many(ctx, traces, classify_fn=None, max_restarts=3, parallel=None):
    return _with_big_stack(lambda env: core.validate_traces(ctx, "FixedStringTrace", "FixedStringTrace.cfg", traces, classify=classify_fn,
                                                            max_restarts=max_restarts, env=env, parallel=parallel or max(1, WORKERS // 2)))


def cfg_of_reset(ev, ref=False):
    a = ev["a"]
    ct = a.get("ct") or {1: "char", 2: "char16_t", 4: "wchar_t"}[a["cw"]]
    return make_cfg(ct, a["n"], 1 if a["layout"] == "strlen" else 0, 1 if a["policy"] == "throwing" else 0, 1 if ref else 0, a.get("fl", ""))


def replay(ctx, path, pid):
    """./verif replay <pid> <file>: re-run the recorded calls on the current tree and validate against L1."""
    # a replay file holds calls: keep (op, k, a) only, whatever else was recorded with them
    lines = []
    for l in core.read_ndjson(path):
        if "_meta" in l or "op" not in l:
            continue
        if l["op"] == "Crash":              # the recorded execution ended in the call named there
            l = l.get("call") or {}
            if "op" not in l:
                continue
        lines.append({"op": l["op"], "k": l.get("k", 1), "a": l.get("a", {"z": 0})})
    meta = [l for l in core.read_ndjson(path) if "_meta" in l]
    if meta and meta[0]["_meta"].get("kind") == "sig":
        before = len(ctx.violations)
        sig_probe(ctx, [make_cfg(**meta[0]["_meta"]["cfg"])])
        if len(ctx.violations) == before:
            print("replay accepted: every row of the signature table holds now")
            return 0
        print("VIOLATION property=%s replay=%s" % (pid, path))
        print("  " + ctx.violations[-1][1][:1500])
        return 1
    if meta and meta[0]["_meta"].get("kind") == "build":
        c = make_cfg(**meta[0]["_meta"]["cfg"])
        try:
            build_drivers(ctx, [c])
        except MachineryError as x:
            print("VIOLATION property=%s replay=%s" % (pid, path))
            print("  the conformance driver for %s still does not compile: %s" % (c["name"], str(x)[-1500:]))
            return 1
        print("replay accepted: the conformance driver for %s compiles now" % c["name"])
        return 0
    if meta and meta[0]["_meta"].get("kind") == "compile":
        ok, out = wide_probe(ctx)
        if ok:
            print("replay accepted: wchar_t / char32_t fixed strings with the default storage compile now")
            return 0
        print("VIOLATION property=%s replay=%s" % (pid, path))
        print("  " + out[-1500:])
        return 1
    rs = next((l for l in lines if l["op"] == "Reset"), None)
    if rs is None:
        raise MachineryError("replay file has no Reset event: %s" % path)
    c = cfg_of_reset(rs)
    drv = build_drivers(ctx, [c])[c["name"]]
    sp, tp = os.path.join(ctx.work, "replay.script"), os.path.join(ctx.work, "replay.ndjson")
    write_script(sp, lines)
    run_script(drv, sp, tp)
    r = validate_one(ctx, tp)
    if r["accepted"]:
        print("replay accepted: the recorded calls now conform to FixedString.tla")
        return 0
    print("VIOLATION property=%s replay=%s" % (pid, path))
    print("  rejected at event %d; spec expected: %s" % (r["fail_line"] + 1, r.get("expected")))
    return 1


def l2_cfg(ctx, cfg, mode):
    """A copy of an L2 configuration with another transcription of the aliasing paths (constant AliasMode of
    FixedStringImpl.tla: "repaired" = the code as it stands, "all" = the step order before d2d1dcc with every
    aliasing call, which TLC refutes; "safe" = that order restricted to the calls it handled).  Returns a cfg path."""
    with open(os.path.join(core.SPECS, cfg)) as f:
        text = re.sub(r'AliasMode = "\w+"', 'AliasMode = "%s"' % mode, f.read())
    out = os.path.join(ctx.sub("cfg"), cfg[:-4] + "_" + mode + ".cfg")
    with open(out, "w") as f:
        f.write(text)
    return out


def l2_model_check(ctx, cfgs, what):
    """TLC: FixedStringImpl.tla refines FixedString.tla (advisory: a failure is MODEL-DRIFT).  In the thorough tier
    also the converse self-test of the L2 model: with the step order the code had before d2d1dcc and every aliasing
    source enabled (AliasMode = "all") TLC must find the refinement violated - if it does not, L2 has lost the
    ability to see that class of defect."""
    if SKIP_MC:
        return
    for cfg in cfgs:
        if not os.path.exists(os.path.join(core.SPECS, cfg)):
            continue
        r2 = retry_killed(lambda: core.tlc_model_check(ctx, "FixedStringImplMC", cfg, what, heap="3g", timeout=2400, workers=WORKERS))
        if r2["violated"]:
            ctx.drift.append("FixedStringImpl.tla does not refine FixedString.tla or breaks its buffer invariants (%s); see %s" % (r2["violated"], r2["outfile"]))
    if not ctx.quick:
        r3 = core.tlc(ctx, "FixedStringImplMC", l2_cfg(ctx, cfgs[0], "all"), name="l2-selftest-pre-repair-aliasing", heap="4g", timeout=900, workers=WORKERS)
        ctx.notes["l2_selftest_pre_repair_step_order_refuted"] = bool(r3["violated"])
        if not r3["violated"]:
            ctx.drift.append("FixedStringImpl.tla with the pre-repair step order (AliasMode = \"all\") is no longer refuted by TLC")


def l2_drift(ctx, items):
    """Advisory: replay recorded traces (N <= 32: raw cells are logged) through the L2 model
    FixedStringImplTrace; a rejection means FixedStringImpl.tla no longer describes the code's buffer
    handling cell by cell.  MODEL-DRIFT only, never a verdict.  items: [(trace_path, cfgd)]."""
    l2cfg = "FixedStringImplTrace.cfg"

    def one(it):
        tp, c = it
        env = dict(TLC_ENV); env["FS_N"] = str(c["n"])
        try:
            r = core.validate_trace(ctx, "FixedStringImplTrace", l2cfg, tp, env=env, explain=False)
        except MachineryError as x:
            return (tp, c, None, str(x)[:400])
        return (tp, c, r, None)
    n = 0
    with ThreadPoolExecutor(max_workers=max(1, WORKERS // 2)) as ex:
        for tp, c, r, err in ex.map(one, items):
            if err is not None:
                ctx.drift.append("L2 trace replay of %s could not be run: %s" % (os.path.basename(tp), err))
            elif not r["accepted"]:
                with open(tp) as f:
                    lines = [x for x in f if x.strip()]
                ev = lines[r["fail_line"]][:500] if r["fail_line"] < len(lines) else "?"
                ctx.drift.append("FixedStringImpl.tla (L2) does not reproduce the cells / result the code produced at event %d of %s: %s" % (
                    r["fail_line"] + 1, os.path.basename(tp), ev))
            else:
                n += r["matched"]
    ctx.notes["l2_events_replayed_cell_by_cell"] = ctx.notes.get("l2_events_replayed_cell_by_cell", 0) + n
    return n


def vacuity(ctx, s2c_ops, scripts):
    """Which spec actions were never exercised on the real code in this run (S->C replays + C->S scripts)."""
    c2s = {}
    for name, c, lines in scripts:
        if c["ref"]:
            continue
        for l in lines:
            c2s[l["op"]] = c2s.get(l["op"], 0) + 1
    ctx.notes["c2s_events_per_action"] = c2s
    al = {}
    for name, c, lines in scripts:
        if c["ref"]:
            continue
        for l in lines:
            a = l.get("a", {})
            if a.get("sk") in ALIAS_KINDS or a.get("rk") == "self" or str(a.get("ov", "")).endswith("self"):
                ak = "%s/%s" % (l["op"], a.get("sk") or a.get("ov") or "self")
                al[ak] = al.get(ak, 0) + 1
    ctx.notes["c2s_aliasing_calls"] = al
    ctx.notes["s2c_aliasing_calls_replayed"] = {k[6:]: v for k, v in s2c_ops.items() if k.startswith("alias:")}
    ctx.notes["s2c_calls_replayed_per_action"] = {k: v for k, v in s2c_ops.items() if not k.startswith("alias:")}
    ctx.notes["vacuous_actions"] = sorted(op for op in ALL_OPS if not s2c_ops.get(op) and not c2s.get(op))
    ctx.notes["actions_not_enumerated_by_tlc"] = sorted(op for op in ALL_OPS if not s2c_ops.get(op))


def run_and_validate(ctx, scripts, drivers, findings, ref_ok=None):
    """scripts: list of (name, cfgd, lines).  Runs each on its driver, validates all traces with TLC.
    Scripts whose cfgd has ref=1 exercise std::basic_string: a rejection there is an error of the
    specification / harness (machinery), never a verdict about xtl."""
    tdir = ctx.sub("traces")
    traces, reftraces = [], []

    def one(item):
        name, c, lines = item
        sp = os.path.join(tdir, name + ".script")
        tp = os.path.join(tdir, name + ".ndjson")
        write_script(sp, lines)
        run_script(drivers[c["name"]], sp, tp)
        return tp

    with ThreadPoolExecutor(max_workers=WORKERS) as ex:
        for item, tp in zip(scripts, ex.map(one, scripts)):
            (reftraces if item[1]["ref"] else traces).append(tp)
            if not item[1]["ref"]:
                ctx.cov["traces_validated_against_impl"] += sum(1 for l in item[2] if l["op"] == "Reset")
    if reftraces:
        before = len(ctx.violations)
        res = validate_many(ctx, reftraces, None, max_restarts=1)
        bad = [(p, r) for p, r in res if not r["accepted"]]
        if bad:
            p, r = bad[0]
            del ctx.violations[before:]
            raise MachineryError("the specification rejects std::basic_string itself (oracle or harness bug): %s event %d: %s ; expected %s" % (
                os.path.basename(p), r["fail_line"] + 1, r["execution"][-1][:600], r.get("expected", "?")[:800]))
        ctx.notes["reference_events_validated_on_std_string"] = sum(r["matched"] for _, r in res)
        ctx.cov["events_validated"] -= ctx.notes["reference_events_validated_on_std_string"]
    before = len(ctx.violations)
    res = validate_many(ctx, traces, classify(findings), max_restarts=MAX_REJECTIONS_PER_TRACE)
    if len(ctx.violations) == before:
        small = [(os.path.join(tdir, name + ".ndjson"), c) for name, c, _ in scripts if not c["ref"] and c["n"] <= 32 and not name.startswith("probe-")]
        if ctx.quick:
            # advisory stage: in the quick tier one trace per (layout, character width) is enough
            seen, pick = set(), []
            for tp, c in small:
                if (c["layout"], c["cw"], tp.count("directed")) not in seen:
                    seen.add((c["layout"], c["cw"], tp.count("directed")))
                    pick.append((tp, c))
            small = pick
        l2_drift(ctx, small)
    # events_validated counts L1 validation only
    return res

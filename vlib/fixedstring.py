"""Shared machinery of the fixed-string checks C01 / C02 (specs/FixedString*.tla, harness/fixedstring).

 * configurations (layout x policy x character type x N) and how their drivers are built
 * S->C: TLC enumerates every transition of FixedString.tla (Emit lines: pre-state, call, expected
   result, expected projection); the calls are replayed on the real objects and the observed result /
   projection are compared for equality with what TLC printed (no oracle here: a join and '==')
 * C->S: seeded random scripts (boundary biased, only a shadow of the two lengths is tracked to stay
   inside the C++ preconditions); the recorded traces are validated by TLC (FixedStringTrace.tla)
 * known-finding avoidance / classification, replay
"""
import json, os, random, re, subprocess, time, zlib
from concurrent.futures import ProcessPoolExecutor, ThreadPoolExecutor
from vlib import core
from vlib.core import MachineryError

NPOS, DFLT = -1, -2
# TLC evaluates sequence operations on 256..301-element strings with recursion proportional to the length;
# the default 1 MB thread stack of the JVM overflows now and then (a StackOverflowError, reported by TLC
# as a run failure, never as a rejection).  core.tlc cannot be given JVM options, the environment can.
TLC_ENV = {"JAVA_TOOL_OPTIONS": "-Xss64m"}
# degree of parallelism (TLC workers, replay processes); VERIF_WORKERS lowers it on a shared machine
# development aids (both off by default): stop after the first stage that found a violation; skip the two
# model-checking stages that do not depend on the include tree (used when screening mutated trees)
FAILFAST = bool(os.environ.get("VERIF_FAILFAST"))
SKIP_MC = bool(os.environ.get("VERIF_SKIP_MC"))
WORKERS = max(1, int(os.environ.get("VERIF_WORKERS", "0") or 0) or core.NCPU)
HARNESS_SRC = os.path.join(core.HARNESS, "fixedstring", "driver.cpp")
WPROBE_SRC = os.path.join(core.HARNESS, "fixedstring", "wide_probe.cpp")
CW = {"char": 1, "char16_t": 2, "wchar_t": 4, "char32_t": 4}
CTAG = {"char": "", "char16_t": "u", "wchar_t": "w", "char32_t": "U"}
IL_LENS = set(range(0, 11)) | {17}

OBSERVERS = {"At", "Index", "Front", "Back", "Iterate", "Substr", "Copy", "Compare", "Compare1", "Compare2",
             "Find", "Rel", "ToStd", "StreamOut"}
ALL_OPS = ["CtorDefault", "CtorFill", "CtorSub", "CtorSeq", "Overlay", "AssignFill", "AssignSub", "AssignSeq", "At", "Index",
           "Front", "Back", "Write", "Iterate", "Clear", "PushBack", "PopBack", "Substr", "Copy", "Resize1", "Resize2",
           "Swap", "InsertFill", "InsertSeq", "InsertSub", "InsertIt", "InsertItSeq", "Erase", "EraseIt", "EraseRange",
           "AppendFill", "AppendSeq", "AppendSub", "Compare", "Compare1", "Compare2", "Replace", "ReplaceSub",
           "ReplaceFill", "ReplaceIt", "ReplaceItFill", "Find", "Rel", "Concat", "ToStd", "StreamOut", "StreamIn", "GetLine"]
IO_OPS = {"StreamOut", "StreamIn", "GetLine"}     # the stream operators exist for char only
PAIR_MUTATORS = {"Swap"}          # may change the other object too (besides anything with an "objm" operand)

# Open known findings the generators must not walk into (see DESIGN.md section 5; the entry itself lives in
# known_findings.json, the probe that keeps it visible is run by the checks when the entry is listed there).
#   one-argument resize(n) growing the string pads with ' ' instead of CharT() (deliberate, documented in the source)
def avoid(ev, lens):
    """True when the call is exactly an open known finding's call site/input."""
    if ev["op"] == "Resize1":
        n = ev["a"]["n"]
        return n != NPOS and n > lens[ev["k"] - 1]
    return False


# ------------------------------------------------------------------ configurations
def make_cfg(ct="char", n=3, strlen=0, thr=0, ref=0):
    cw = CW[ct]
    layout = "strlen" if strlen else ("packed" if n < (1 << (8 * cw)) else "sizefield")
    name = ("ref" + CTAG[ct] + str(n)) if ref else "%s%s%d%s" % (CTAG[ct], {"strlen": "s", "packed": "p", "sizefield": "f"}[layout], n, "t" if thr else "s")
    return {"name": name, "ct": ct, "cw": cw, "n": n, "strlen": strlen, "thr": thr, "ref": ref, "layout": layout,
            "policy": "throwing" if thr else "silent", "io": 1 if ct == "char" else 0}


def reset_event(c):
    return {"op": "Reset", "k": 1, "a": {"n": c["n"], "policy": c["policy"], "layout": c["layout"], "cw": c["cw"]}}


def flags_of(c):
    return ["-DFS_CT=" + c["ct"], "-DFS_N=%d" % c["n"], "-DFS_STRLEN=%d" % c["strlen"], "-DFS_THROW=%d" % c["thr"],
            "-DFS_REF=%d" % c["ref"], "-DFS_IO=%d" % c["io"]]


def build_drivers(ctx, cfgs):
    """Compile one driver per configuration in parallel; returns {name: path}."""
    bdir = ctx.sub("bin")
    jobs, out = [], {}
    for c in cfgs:
        if c["name"] in out:
            continue
        out[c["name"]] = os.path.join(bdir, "fs_" + c["name"])
        jobs.append({"src": HARNESS_SRC, "out": out[c["name"]], "flags": flags_of(c)})
    core.build_many(ctx, jobs, max_workers=WORKERS)
    return out


def wide_probe(ctx):
    """Does xbasic_fixed_string<wchar_t / char32_t, N> with the default storage compile at all?
    (success / failure of this compilation is itself the observation)"""
    rc, out = core.try_build(ctx, WPROBE_SRC, os.path.join(ctx.sub("bin"), "wide_probe"))
    return rc == 0, out


def run_driver(drv, script_path, trace_path, lean=False, timeout=1200):
    env = dict(os.environ); env.update(core.ASAN_ENV)
    # the strings live in heap frames and sources in heap buffers: the (slow) fake stack adds nothing here
    env["ASAN_OPTIONS"] = env["ASAN_OPTIONS"].replace("detect_stack_use_after_return=1", "detect_stack_use_after_return=0")
    if lean:
        env["FS_LEAN"] = "1"
    else:
        env.pop("FS_LEAN", None)
    with open(script_path) as fin, open(trace_path, "w") as fout:
        p = subprocess.run([drv], stdin=fin, stdout=fout, stderr=subprocess.PIPE, env=env, timeout=timeout)
    if p.returncode == 3:
        raise MachineryError("harness rejected script %s: %s" % (script_path, p.stderr.decode(errors="replace")[-500:]))
    return p.returncode, p.stderr.decode(errors="replace")


def write_script(path, lines):
    with open(path, "w") as f:
        for l in lines:
            f.write(json.dumps(l, separators=(",", ":")) + "\n")


def chunk_by_reset(lines, nchunks):
    starts = [i for i, l in enumerate(lines) if l["op"] == "Reset"]
    if not starts:
        return [lines]
    per = max(1, (len(starts) + nchunks - 1) // nchunks)
    cuts = starts[::per]
    return [lines[a:b] for a, b in zip(cuts, cuts[1:] + [len(lines)])]


# ------------------------------------------------------------------ TLC with streamed output
def tlc_stream(ctx, module, cfg, name, workers=None, heap="6g", timeout=1500):
    """Like core.tlc but TLC's output goes to a file (the Emit lines of an S->C enumeration are
    hundreds of megabytes).  Returns dict(outfile, generated, distinct, depth, wall_s)."""
    ctx._n += 1
    meta = ctx.sub("tlc-%02d-%s" % (ctx._n, name))
    outfile = os.path.join(meta, "out.txt")
    cmd = ["java", "-XX:+UseParallelGC", "-Xmx" + heap, "-cp", core.TLA_JAR, "tlc2.TLC", "-metadir", os.path.join(meta, "states"),
           "-workers", str(workers or WORKERS), "-config", os.path.join(core.SPECS, cfg), "-noGenerateSpecTE", "-deadlock",
           os.path.join(core.SPECS, module + ".tla")]
    t = time.time()
    with open(outfile, "w") as f:
        try:
            p = subprocess.run(cmd, stdout=f, stderr=subprocess.STDOUT, timeout=timeout, cwd=meta)
            rc = p.returncode
        except subprocess.TimeoutExpired:
            raise MachineryError("TLC timed out after %ss: %s (see %s)" % (timeout, name, outfile))
    tail = subprocess.run(["tail", "-n", "40", outfile], stdout=subprocess.PIPE, text=True, errors="replace").stdout
    # the summary lines are not Emit lines
    tail = "\n".join(l for l in tail.splitlines() if not l.startswith('"@E@'))
    r = {"name": name, "module": module, "cfg": cfg, "rc": rc, "wall_s": round(time.time() - t, 2), "outfile": outfile,
         "generated": 0, "distinct": 0, "depth": 0, "violated": None}
    m = core._RE_STATES.findall(tail)
    if m:
        r["generated"], r["distinct"] = int(m[-1][0]), int(m[-1][1])
    m = core._RE_DEPTH.findall(tail)
    if m:
        r["depth"] = int(m[-1])
    if rc != 0 or not r["generated"]:
        head = subprocess.run(["grep", "-v", "-m", "60", '^"@E@', outfile], stdout=subprocess.PIPE, text=True, errors="replace").stdout
        raise MachineryError("TLC enumeration %s failed rc=%s, see %s\n%s\n...\n%s" % (name, rc, outfile, head[-2500:], tail[-1500:]))
    ctx.tlc_runs.append({k: r[k] for k in ("name", "module", "cfg", "rc", "wall_s", "generated", "distinct", "depth", "violated")})
    return r


# ------------------------------------------------------------------ S->C
_RE_PRE = re.compile(r'\\"p\\":(\[\[[^\]]*\],\[[^\]]*\]\])')


def split_emitted(outfile, nparts, workdir):
    """Distribute TLC's Emit lines over nparts files so that all transitions out of one abstract state
    are in the same part (cheap: no JSON parsing here)."""
    paths = [os.path.join(workdir, "emit-%02d.txt" % i) for i in range(nparts)]
    fs = [open(p, "w") for p in paths]
    n = 0
    with open(outfile, errors="replace") as f:
        for line in f:
            if not line.startswith('"@E@'):
                continue
            m = _RE_PRE.search(line)
            key = m.group(1) if m else ""
            h = 0
            for ch in key:
                h = (h * 131 + ord(ch)) & 0xFFFFFFF
            fs[h % nparts].write(line)
            n += 1
    for x in fs:
        x.close()
    return paths, n


def _setup(k, v):
    return {"op": "CtorSeq", "k": k, "a": {"sk": "ptrn", "src": v}}


def _dirty_setup(k, v, cfgd, rnd):
    """Events that bring object k to the abstract value v through a 'dirty' history, so that the cells
    behind the terminator are stale rather than freshly zeroed."""
    n = cfgd["n"]
    t = rnd.random()
    if t < 0.5 or n == 0:
        return [_setup(k, v)]
    filler = rnd.choice([1, 2])
    if t < 0.8:
        return [{"op": "CtorFill", "k": k, "a": {"n": n, "ch": filler}},
                {"op": "AssignSeq", "k": k, "a": {"ov": "assign", "sk": "ptrn", "src": v}}]
    if cfgd["layout"] == "strlen" and 0 not in v:
        cells = list(v) + [0] + [rnd.choice([0, 1, 2]) for _ in range(n - len(v))]
        return [{"op": "Overlay", "k": k, "a": {"cells": cells}}]
    return [{"op": "CtorFill", "k": k, "a": {"n": n, "ch": filler}},
            {"op": "Resize2", "k": k, "a": {"n": 0, "ch": 0 if cfgd["layout"] != "strlen" else 1}},
            {"op": "AppendSeq", "k": k, "a": {"ov": "append", "sk": "ptrn", "src": v}}]


def s2c_worker(args):
    """One part of an S->C replay: parse the Emit lines, build a script, run the driver, compare.
    Returns (stats, mismatches)."""
    part, drv, cfgd, workdir, seed, keep, tag = args
    rnd = random.Random(seed)
    by_pre = {}
    projs = {}              # abstract string (tuple) -> expected projection of an object holding it
    ntrans = 0
    opcount = {}
    with open(part, errors="replace") as f:
        for line in f:
            t = json.loads(line.rstrip()[4:-1].replace('\\"', '"'))          # "@E@{\"c\":..}" -> {"c":..}
            pre = (tuple(t["p"][0]), tuple(t["p"][1]))
            l = t["l"]
            for pj in t["q"]["o"]:
                projs.setdefault(tuple(pj["chars"]), pj)
            call = {"op": l["op"], "k": l["k"], "a": l["a"]}
            if avoid(call, (len(pre[0]), len(pre[1]))) or (call["op"] in IO_OPS and not cfgd["io"]):
                continue
            ntrans += 1
            key = json.dumps(call, sort_keys=True, separators=(",", ":"))
            d = by_pre.setdefault(pre, {})
            if key in d:
                d[key][1].append((l["res"], t["q"]))          # a second allowed outcome of the same call
            else:
                # a seeded sample that does not depend on the order in which TLC's workers printed the lines
                if keep < 1.0 and (zlib.crc32(("%d|%s|%s" % (seed, pre, key)).encode()) & 0xFFFFFF) / float(0x1000000) >= keep:
                    continue
                d[key] = (call, [(l["res"], t["q"])], key)
    script, expect = [reset_event(cfgd)], [None]
    texts = {}              # script index -> JSON text of the call (already serialised above)
    nfailing = 0
    for pre in sorted(by_pre):
        calls = sorted(by_pre[pre].values(), key=lambda c: (c[0]["op"] not in OBSERVERS, c[2]))
        dirty = [True, True]
        last_setup = [[], []]
        for call, outcomes, calltext in calls:
            for k in (0, 1):
                if dirty[k]:
                    evs = _dirty_setup(k + 1, list(pre[k]), cfgd, rnd)
                    last_setup[k] = evs
                    for i, ev in enumerate(evs):
                        script.append(ev)
                        expect.append(("setup", k, pre[k]) if i == len(evs) - 1 else None)
                    dirty[k] = False
            script.append(call)
            texts[len(script) - 1] = calltext
            expect.append(("call", pre, outcomes, last_setup[0] + last_setup[1]))
            opcount[call["op"]] = opcount.get(call["op"], 0) + 1
            if outcomes[0][0]["exc"] != "none":
                nfailing += 1
            if call["op"] not in OBSERVERS:
                dirty[call["k"] - 1] = True
                a = call["a"]
                if call["op"] in PAIR_MUTATORS or a.get("sk") == "objm" or a.get("lk") == "selfm" or a.get("rk") == "objm":
                    dirty[0] = dirty[1] = True
    sp = os.path.join(workdir, tag + ".script")
    tp = os.path.join(workdir, tag + ".ndjson")
    with open(sp, "w") as f:
        for i, ev in enumerate(script):
            f.write((texts.get(i) or json.dumps(ev, separators=(",", ":"))) + "\n")
    rc, err = run_driver(drv, sp, tp, lean=True)
    mism = []
    nev = 0
    with open(tp, errors="replace") as f:
        obs_lines = [x for x in f if x.strip()]
    for i, exp in enumerate(expect):
        if i >= len(obs_lines):
            # the driver died (sanitizer report / crash): the event it died in is the finding
            ev = script[i]
            mism.append({"why": "driver stopped (crash or sanitizer report): %s" % err[-400:], "call": ev, "setup": exp[3] if exp and exp[0] == "call" else [],
                         "obs": obs_lines[-1][:300] if obs_lines else ""})
            break
        if exp is None:
            continue
        try:
            o = json.loads(obs_lines[i])
        except Exception:
            mism.append({"why": "unparsable driver output", "call": script[i], "setup": exp[3] if exp[0] == "call" else [], "obs": obs_lines[i][:300]})
            break
        if o.get("op") == "Crash":
            mism.append({"why": "driver crashed: %s %s" % (o.get("why"), err[-400:]), "call": script[i], "setup": exp[3] if exp[0] == "call" else [], "obs": ""})
            break
        nev += 1
        if exp[0] == "setup":
            want = projs.get(exp[2])
            if want is not None and o["st"]["o"][exp[1]] != want:
                su = last_setup_of(script, i)
                mism.append({"why": "state after set-up differs", "call": su[-1], "setup": su[:-1], "obs": json.dumps(o["st"]["o"][exp[1]]), "want": json.dumps(want)})
            continue
        ok = any(o["res"] == res and o["st"] == q for res, q in exp[2])
        if not ok:
            mism.append({"why": "result or state differs from the specification", "call": script[i], "setup": exp[3],
                         "obs": json.dumps({"res": o["res"], "st": o["st"]}), "want": json.dumps({"res": exp[2][0][0], "st": exp[2][0][1]})})
    return {"transitions": ntrans, "replayed": sum(opcount.values()), "events": nev, "failing": nfailing, "ops": opcount}, mism[:400]


def last_setup_of(script, i):
    """the set-up events (they start with a constructor) that end at script[i]"""
    j = i
    while j > 0 and script[j]["op"] not in ("CtorSeq", "CtorFill", "Overlay"):
        j -= 1
    return script[j:i + 1]


def signature(m):
    c = m["call"]
    a = c.get("a", {})
    return "%s/%s/%s/%s" % (c["op"], a.get("sk", a.get("ov", a.get("path", a.get("kind", "")))), a.get("fam", a.get("rop", a.get("lk", ""))), m["why"][:20])


def s2c(ctx, targets, tlc_cfgs, workers=None):
    """Enumerate with TLC once, replay on every target (cfgd, driver, keep): everything, or a seeded
    fraction `keep`, of the enumerated calls.  Returns {name: (stats, mismatches)}."""
    nparts = workers or WORKERS
    out = {c["name"]: ({"transitions": 0, "replayed": 0, "events": 0, "failing": 0, "ops": {}, "tlc_generated": 0}, []) for c, _, _ in targets}
    for cfg in tlc_cfgs:
        r = tlc_stream(ctx, "FixedStringMC", cfg, name="s2c-" + cfg[:-4])
        wd = ctx.sub("s2c-" + cfg[:-4])
        parts, n = split_emitted(r["outfile"], nparts, wd)
        os.remove(r["outfile"])
        with open(r["outfile"], "w") as f:
            f.write("(%d Emit lines were distributed to %s and removed after the replay)\n" % (n, wd))
        ctx.cov["states"] += r["distinct"]
        ctx.cov["transitions"] += r["generated"]
        jobs = []
        for c, drv, keep in targets:
            twd = ctx.sub("s2c-" + cfg[:-4] + "/" + c["name"])
            jobs += [(p, drv, c, twd, ctx.seed * 7919 + i, keep, "part-%02d" % i) for i, p in enumerate(parts)]
        with ProcessPoolExecutor(max_workers=nparts) as ex:
            for job, (st, mm) in zip(jobs, ex.map(s2c_worker, jobs)):
                tot, mism = out[job[2]["name"]]
                for k in ("transitions", "replayed", "events", "failing"):
                    tot[k] += st[k]
                for op, cnt in st["ops"].items():
                    tot["ops"][op] = tot["ops"].get(op, 0) + cnt
                mism.extend(mm)
        for p in parts:
            os.remove(p)
        for c, _, _ in targets:
            out[c["name"]][0]["tlc_generated"] += n
        ctx.log("S->C %s: TLC %d distinct states, %d transitions enumerated in %.1fs; replayed on %s: %s" % (
            cfg, r["distinct"], n, r["wall_s"], ", ".join(c["name"] for c, _, _ in targets),
            ", ".join("%d calls/%d mismatches" % (out[c["name"]][0]["replayed"], len(out[c["name"]][1])) for c, _, _ in targets)))
    return out


def confirm_mismatches(ctx, cfgd, drv, mism, classify, max_signatures=30):
    """Every S->C mismatch is re-run as a minimal execution (Reset, set-up, call) and validated by TLC
    against FixedStringTrace: only what TLC rejects there is reported (and it repeats by construction)."""
    if not mism:
        return
    by_sig = {}
    for m in mism:
        by_sig.setdefault(signature(m), []).append(m)
    ctx.notes.setdefault("s2c_mismatch_signatures", {}).update({k: len(v) for k, v in by_sig.items()})
    lines = []
    for sig in sorted(by_sig)[:max_signatures]:
        m = by_sig[sig][0]
        lines.append(reset_event(cfgd))
        lines.extend(m.get("setup", []))
        lines.append(m["call"])
    d = ctx.sub("confirm")
    sp = os.path.join(d, cfgd["name"] + "-%d.script" % ctx._n)
    tp = sp[:-7] + ".ndjson"
    write_script(sp, lines)
    run_driver(drv, sp, tp)
    before = len(ctx.violations) + len(ctx.known)
    res = core.validate_traces(ctx, "FixedStringTrace", "FixedStringTrace.cfg", [tp], classify=classify, max_restarts=max_signatures + 2, env=TLC_ENV)
    if len(ctx.violations) + len(ctx.known) == before and not any(not r["accepted"] for _, r in res):
        raise MachineryError("S->C replay of %s found %d mismatches (%s) that trace validation does not confirm; first: %s" % (
            cfgd["name"], len(mism), ", ".join(sorted(by_sig)[:6]), json.dumps(mism[0])[:1500]))


# ------------------------------------------------------------------ C->S: seeded random scripts
class Gen:
    """Random script generator.  Tracks only the two lengths (to stay inside the C++ preconditions and,
    under the silent policy, inside the capacity); it predicts no results."""

    def __init__(self, rnd, cfgd, fail_bias=0.15, allow_known=False):
        self.r, self.c = rnd, cfgd
        self.N = cfgd["n"]
        self.thr = bool(cfgd["thr"])
        self.strlen = cfgd["layout"] == "strlen"
        self.len = [0, 0]
        self.fail_bias = fail_bias           # how often a call that must throw is kept
        self.allow_known = allow_known
        hi = 200 if cfgd["cw"] == 1 else 0x3b1
        self.alpha = [97, 97, 98, 98, 99, hi, 32]
        self.pending = []

    # ---- argument pickers
    def chr(self, nul_ok=True):
        if nul_ok and not self.strlen and self.r.random() < 0.08:
            return 0
        return self.r.choice(self.alpha)

    def pos(self, n):
        c = [0, 0, 1, n - 1, n, n, n + 1, n + 2, NPOS, self.r.randint(0, max(n, 0)), n // 2]
        return self.r.choice([x for x in c if x >= 0 or x == NPOS])

    def goodpos(self, n):
        return self.r.choice([0, n, n // 2, max(n - 1, 0), self.r.randint(0, n)])

    def cnt(self, rem, room):
        c = [0, 1, 1, 2, rem, rem + 1, max(rem - 1, 0), NPOS, room, room + 1, max(room - 1, 0), self.r.randint(0, max(rem, room, 1))]
        return self.r.choice([x for x in c if x >= 0 or x == NPOS])

    def count(self, room):
        """a plain character count (never npos: size()+count must not overflow)"""
        c = [0, 1, 1, 2, 3, room, room, room + 1, max(room - 1, 0), self.r.randint(0, max(room, 1)), self.N, self.N + 1]
        return self.r.choice([x for x in c if x >= 0])

    def seq(self, room, kind, store=True):
        """a source sequence for source kind `kind`; room = characters that still fit"""
        N = self.N
        c = [0, 1, 1, 2, 3, room, room, room + 1, max(room - 1, 0), self.r.randint(0, max(min(room + 1, N + 2), 1)), N, N + 1]
        n = self.r.choice([x for x in c if 0 <= x <= N + 2])
        if kind == "il" and n not in IL_LENS:
            n = min(n, 10)
        nul_ok = kind in ("ptrn", "il", "itv", "itl") and not (self.strlen and store)
        return [self.chr(nul_ok) for _ in range(n)]

    def ev(self, op, k, **a):
        return {"op": op, "k": k + 1, "a": a or {"z": 0}}

    def sub_len(self, srclen, p, n):
        if p == NPOS or p > srclen:
            return None
        rest = srclen - p
        return rest if (n in (NPOS, DFLT) or n > rest) else n

    # ---- outcome bookkeeping: returns True when the event may be emitted
    def settle(self, k, rng, newlen, other_newlen=None):
        """rng: a position argument is out of range (throws under both policies);
        newlen: resulting length of object k when the call succeeds (None when rng)."""
        N = self.N
        if rng:
            return self.r.random() < self.fail_bias * 2
        if newlen > N:
            if not self.thr:
                return False                         # precondition of the silent policy
            return self.r.random() < self.fail_bias * 3
        self.len[k] = newlen
        if other_newlen is not None:
            self.len[1 - k] = other_newlen
        return True

    def resync_other(self, k):
        """after an operation that passed the other object as an rvalue its state is unspecified:
        give it a known value again"""
        o = 1 - k
        v = self.seq(self.N, "ptrn")
        v = v[:self.N]
        self.len[o] = len(v)
        self.pending.append(self.ev("AssignSeq", o, ov="assign", sk="ptrn", src=v))

    def srckind(self, kinds):
        return self.r.choice(kinds)

    def step(self):
        if self.pending:
            return self.pending.pop(0)
        for _ in range(200):
            e = self.try_step()
            if e is not None:
                return e
        k = self.r.randrange(2)
        return self.ev("Iterate", k, kind="cstr")

    def try_step(self):
        r, N = self.r, self.N
        k = r.randrange(2)
        o = 1 - k
        la, lb = self.len[k], self.len[o]
        room = N - la
        c = r.random()
        # ---------------- construction / assignment
        if c < 0.10:
            t = r.randrange(8)
            ctor = r.random() < 0.4
            if t == 0:
                if ctor:
                    self.len[k] = 0
                    return self.ev("CtorDefault", k)
                self.len[k] = 0
                return self.ev("Clear", k)
            if t == 1:
                n, ch = self.count(N), self.chr()
                if not self.settle(k, False, n): return None
                if ctor: return self.ev("CtorFill", k, n=n, ch=ch)
                if n == 1 and r.random() < 0.5: return self.ev("AssignFill", k, ov="opch", n=1, ch=ch)
                return self.ev("AssignFill", k, ov="assign", n=n, ch=ch)
            if t == 2:
                sk = r.choice(["obj", "str"])
                src = [] if sk == "obj" else self.seq(N, "str")
                sl = lb if sk == "obj" else len(src)
                p, n = self.pos(sl), r.choice([DFLT, self.cnt(max(sl - 1, 0), N)])
                sub = self.sub_len(sl, p, n)
                if not self.settle(k, sub is None, sub): return None
                return self.ev("CtorSub" if ctor else "AssignSub", k, sk=sk, src=src, pos=p, n=n)
            if t in (3, 4, 5):
                sk = r.choice(["ptrn", "ptr", "il", "itv", "itl", "str", "obj", "objm"])
                ov = "assign" if ctor or sk in ("ptrn", "itv", "itl") else r.choice(["assign", "op"])
                src = [] if sk in ("obj", "objm") else self.seq(N, sk)
                sl = lb if sk in ("obj", "objm") else len(src)
                if not self.settle(k, False, sl): return None
                if sk == "objm": self.resync_other(k)
                if ctor: return self.ev("CtorSeq", k, sk=sk, src=src)
                return self.ev("AssignSeq", k, ov=ov, sk=sk, src=src)
            if t == 6 and self.strlen and r.random() < 0.7:
                n = r.randint(0, N)
                cells = [self.chr(False) for _ in range(n)] + [0] + [r.choice(self.alpha + [0]) for _ in range(N - n)]
                self.len[k] = n
                return self.ev("Overlay", k, cells=cells)
            if t == 7:
                self.len[k], self.len[o] = lb, la
                return self.ev("Swap", k, ov=r.choice(["member", "free"]))
            return None
        # ---------------- element access
        if c < 0.17:
            t = r.randrange(6)
            cc = r.randrange(2)
            if t == 0: return self.ev("At", k, c=cc, i=self.pos(la))
            if t == 1: return self.ev("Index", k, c=cc, i=r.choice([0, la, la // 2, max(la - 1, 0)]))
            if t == 2 and la > 0: return self.ev(r.choice(["Front", "Back"]), k, c=cc)
            if t == 3 and la > 0:
                path = r.choice(["index", "at", "front", "back", "iter", "riter", "data"])
                i = 0 if path == "front" else la - 1 if path == "back" else r.choice([0, la - 1, r.randrange(la)])
                return self.ev("Write", k, path=path, i=i, ch=self.chr())
            if t == 4: return self.ev("Iterate", k, kind=r.choice(["begin", "cbegin", "rbegin", "crbegin", "cstr", "data"]))
            return None
        # ---------------- push / pop / resize
        if c < 0.27:
            t = r.randrange(5)
            if t == 0:
                if not self.settle(k, False, la + 1): return None
                return self.ev("PushBack", k, ov=r.choice(["push_back", "opch"]), ch=self.chr())
            if t == 1 and la > 0:
                self.len[k] = la - 1
                return self.ev("PopBack", k)
            if t == 2:
                n = r.choice([0, la, max(la - 1, 0), la + 1, N, N + 1, max(N - 1, 0), r.randint(0, N)])
                ev = self.ev("Resize1", k, n=n)
                if n > la and (self.strlen or (avoid(ev, self.len) and not self.allow_known)): return None
                if not self.settle(k, False, n): return None
                return ev
            if t == 3:
                n = r.choice([0, la, max(la - 1, 0), la + 1, N, N + 1, max(N - 1, 0), r.randint(0, N), NPOS])
                ch = self.chr()
                if n == NPOS:
                    if not self.thr or r.random() > self.fail_bias: return None
                    return self.ev("Resize2", k, n=n, ch=ch)
                if not self.settle(k, False, n): return None
                return self.ev("Resize2", k, n=n, ch=ch)
            return None
        # ---------------- substr / copy / erase
        if c < 0.37:
            t = r.randrange(5)
            if t == 0:
                p = r.choice([DFLT, self.pos(la)])
                n = DFLT if p == DFLT and r.random() < 0.5 else r.choice([DFLT, self.cnt(la, la)])
                return self.ev("Substr", k, pos=p, n=n)
            if t == 1:
                p = r.choice([DFLT, self.pos(la)])
                n = self.cnt(la, la)
                pp = 0 if p == DFLT else p
                got = self.sub_len(la, pp, n)
                dn = (got if got is not None else 0) + r.choice([0, 0, 1, 3])
                return self.ev("Copy", k, n=n, pos=p, dn=dn, fill=126)
            if t == 2:
                p = r.choice([DFLT, self.pos(la)])
                n = DFLT if p == DFLT and r.random() < 0.5 else r.choice([DFLT, self.cnt(la, la)])
                pp = 0 if p == DFLT else p
                got = self.sub_len(la, pp, n)
                if not self.settle(k, got is None, la - (got or 0)): return None
                return self.ev("Erase", k, idx=p, n=n)
            if t == 3 and la > 0:
                it = r.choice([0, la - 1, r.randrange(la)])
                self.len[k] = la - 1
                return self.ev("EraseIt", k, it=it)
            if t == 4:
                f = self.goodpos(la)
                l = r.choice([f, la, min(f + 1, la), r.randint(f, la)])
                self.len[k] = la - (l - f)
                return self.ev("EraseRange", k, f=f, l=l)
            return None
        # ---------------- insert
        if c < 0.52:
            t = r.randrange(6)
            if t == 0:
                idx, n = self.pos(la), self.count(room)
                if not self.settle(k, idx == NPOS or idx > la, la + n): return None
                return self.ev("InsertFill", k, idx=idx, n=n, ch=self.chr())
            if t == 1:
                sk = r.choice(["ptr", "ptrn", "obj", "str"])
                src = [] if sk == "obj" else self.seq(room, sk)
                sl = lb if sk == "obj" else len(src)
                idx = self.pos(la)
                if not self.settle(k, idx == NPOS or idx > la, la + sl): return None
                return self.ev("InsertSeq", k, idx=idx, sk=sk, src=src)
            if t == 2:
                sk = r.choice(["obj", "str"])
                src = [] if sk == "obj" else self.seq(N, "str")
                sl = lb if sk == "obj" else len(src)
                idx, p, n = self.pos(la), self.pos(sl), r.choice([DFLT, self.cnt(sl, room)])
                sub = self.sub_len(sl, p, n)
                bad = idx == NPOS or idx > la or sub is None
                if bad and sub is not None and la + sub > N and not self.thr: return None
                if not self.settle(k, bad, la + (sub or 0)): return None
                return self.ev("InsertSub", k, idx=idx, sk=sk, src=src, pos=p, n=n)
            if t == 3:
                it = self.goodpos(la)
                if r.random() < 0.5:
                    if not self.settle(k, False, la + 1): return None
                    return self.ev("InsertIt", k, ov="ch", it=it, n=1, ch=self.chr())
                n = self.count(room)
                if not self.settle(k, False, la + n): return None
                return self.ev("InsertIt", k, ov="fill", it=it, n=n, ch=self.chr())
            if t == 4:
                sk = r.choice(["il", "itv", "itl"])
                src = self.seq(room, sk)
                it = self.goodpos(la)
                if not self.settle(k, False, la + len(src)): return None
                return self.ev("InsertItSeq", k, it=it, sk=sk, src=src)
            return None
        # ---------------- append
        if c < 0.62:
            t = r.randrange(3)
            if t == 0:
                n = self.count(room)
                if not self.settle(k, False, la + n): return None
                return self.ev("AppendFill", k, n=n, ch=self.chr())
            if t == 1:
                ov = r.choice(["append", "op"])
                sk = r.choice(["obj", "str", "ptrn", "ptr", "il", "itv", "itl"] if ov == "append" else ["obj", "str", "ptr", "il"])
                src = [] if sk == "obj" else self.seq(room, sk)
                sl = lb if sk == "obj" else len(src)
                if not self.settle(k, False, la + sl): return None
                return self.ev("AppendSeq", k, ov=ov, sk=sk, src=src)
            sk = r.choice(["obj", "str"])
            src = [] if sk == "obj" else self.seq(N, "str")
            sl = lb if sk == "obj" else len(src)
            p, n = self.pos(sl), r.choice([DFLT, self.cnt(sl, room)])
            sub = self.sub_len(sl, p, n)
            if not self.settle(k, sub is None, la + (sub or 0)): return None
            return self.ev("AppendSub", k, sk=sk, src=src, pos=p, n=n)
        # ---------------- replace
        if c < 0.77:
            t = r.randrange(5)
            p, n = self.pos(la), self.cnt(la, la)
            er = self.sub_len(la, p, n)
            if t == 0:
                sk = r.choice(["obj", "str", "ptrn", "ptr"])
                src = [] if sk == "obj" else self.seq(room + (er or 0), sk)
                sl = lb if sk == "obj" else len(src)
                if not self.settle(k, er is None, la - (er or 0) + sl): return None
                return self.ev("Replace", k, pos=p, n=n, sk=sk, src=src)
            if t == 1:
                sk = r.choice(["obj", "str"])
                src = [] if sk == "obj" else self.seq(N, "str")
                sl = lb if sk == "obj" else len(src)
                p2, n2 = self.pos(sl), r.choice([DFLT, self.cnt(sl, room + (er or 0))])
                sub = self.sub_len(sl, p2, n2)
                bad = er is None or sub is None
                if not self.settle(k, bad, la - (er or 0) + (sub or 0)): return None
                return self.ev("ReplaceSub", k, pos=p, n=n, sk=sk, src=src, pos2=p2, n2=n2)
            if t == 2:
                n2 = self.count(room + (er or 0))
                if not self.settle(k, er is None, la - (er or 0) + n2): return None
                return self.ev("ReplaceFill", k, pos=p, n=n, n2=n2, ch=self.chr())
            f = self.goodpos(la)
            l = r.choice([f, f, la, min(f + 1, la), r.randint(f, la)])
            if t == 3:
                sk = r.choice(["obj", "str", "ptrn", "ptr", "il", "itv", "itl"])
                src = [] if sk == "obj" else self.seq(room + (l - f), sk)
                sl = lb if sk == "obj" else len(src)
                if not self.settle(k, False, la - (l - f) + sl): return None
                return self.ev("ReplaceIt", k, f=f, l=l, sk=sk, src=src)
            n2 = self.count(room + (l - f))
            if not self.settle(k, False, la - (l - f) + n2): return None
            return self.ev("ReplaceItFill", k, f=f, l=l, n2=n2, ch=self.chr())
        # ---------------- search
        if c < 0.87:
            fam = r.choice(["find", "rfind", "ffo", "ffno", "flo", "flno"])
            sk = r.choice(["obj", "str", "ptrn", "ptr", "ch"])
            src = [] if sk == "obj" else [self.chr(False)] if sk == "ch" else self.seq(2, sk, store=False)[:3]
            p = self.pos(la) if sk == "ptrn" else r.choice([DFLT, DFLT, self.pos(la), self.pos(la)])
            return self.ev("Find", k, fam=fam, sk=sk, src=src, pos=p)
        # ---------------- compare / relational
        if c < 0.94:
            t = r.randrange(4)
            if t == 0:
                sk = r.choice(["obj", "str", "ptr"])
                return self.ev("Compare", k, sk=sk, src=[] if sk == "obj" else self.seq(la, sk, store=False))
            if t == 1:
                sk = r.choice(["obj", "str", "ptr", "ptrn"])
                return self.ev("Compare1", k, pos1=self.pos(la), n1=self.cnt(la, la), sk=sk, src=[] if sk == "obj" else self.seq(la, sk, store=False))
            if t == 2:
                sk = r.choice(["obj", "str"])
                src = [] if sk == "obj" else self.seq(la, "str", store=False)
                sl = lb if sk == "obj" else len(src)
                return self.ev("Compare2", k, pos1=self.pos(la), n1=self.cnt(la, la), sk=sk, src=src, pos2=self.pos(sl), n2=r.choice([DFLT, self.cnt(sl, sl)]))
            sk = r.choice(["obj", "ptr", "ptrL", "str", "strL"])
            return self.ev("Rel", k, rop=r.choice(["eq", "ne", "lt", "le", "gt", "ge"]), sk=sk, src=[] if sk == "obj" else self.seq(la, "ptr", store=False))
        # ---------------- operator+
        if c < 0.975:
            lk, rk = r.choice([("self", "obj"), ("self", "ptr"), ("self", "ch"), ("ptr", "obj"), ("ch", "obj"), ("selfm", "obj"), ("self", "objm"),
                               ("selfm", "objm"), ("selfm", "ptr"), ("selfm", "ch"), ("ptr", "objm"), ("ch", "objm")])
            both = lk in ("self", "selfm") and rk in ("obj", "objm")
            src = [] if both else [self.chr(False)] if "ch" in (lk, rk) else self.seq(N - (la if lk in ("self", "selfm") else lb), "ptr", store=False)
            total = (la if lk in ("self", "selfm") else len(src)) + (lb if rk in ("obj", "objm") else len(src))
            if total > N and (not self.thr or r.random() > self.fail_bias * 3): return None
            if lk == "selfm" and total <= N:
                # the left operand was an rvalue: give it a known value again (first), then the other
                v = self.seq(N, "ptrn")[:N]
                self.len[k] = len(v)
                self.pending.append(self.ev("AssignSeq", k, ov="assign", sk="ptrn", src=v))
            if rk == "objm" and total <= N: self.resync_other(k)
            return self.ev("Concat", k, lk=lk, rk=rk, src=src)
        # ---------------- std::string / streams (char only; contents must be NUL-free: they go through C strings)
        if not self.c["io"]:
            return None
        t = r.randrange(4)
        if t == 0:
            if r.random() >= 0.2: return None
            self.len[k] = 0
            return self.ev("Clear", k)
        if t == 1:
            # ToStd / StreamOut need a NUL-free string: make it one first when NULs are possible
            v = [self.chr(False) for _ in range(la)]
            self.pending.append(self.ev(r.choice(["ToStd", "StreamOut"]), k))
            return self.ev("AssignSeq", k, ov="assign", sk="ptrn", src=v)
        if t == 2:
            text = [x for x in self.seq(N, "ptr") if x != 32]
            if not text: return None
            if not self.settle(k, False, len(text)): return None
            return self.ev("StreamIn", k, text=text)
        text = self.seq(N, "ptr")
        delim = r.choice([DFLT, 98, 32])
        if r.random() < 0.5 and text: text[r.randrange(len(text))] = 10 if delim == DFLT else delim
        d = 10 if delim == DFLT else delim
        line = text[:text.index(d)] if d in text else text
        if not self.settle(k, False, len(line)): return None
        return self.ev("GetLine", k, text=text, delim=delim, rv=r.randrange(2))


def random_script(seed, cfgd, nexec, nops, fail_bias=0.15, allow_known=False):
    rnd = random.Random(seed * 1000003 + cfgd["n"] * 31 + cfgd["cw"] * 7 + cfgd["strlen"] * 3 + cfgd["thr"])
    lines = []
    N = cfgd["n"]
    for x in range(nexec):
        g = Gen(rnd, cfgd, fail_bias, allow_known)
        lines.append(reset_event(cfgd))
        if rnd.random() < 0.6 and N > 0:
            # fill to the boundary first, then work there
            for k in (0, 1):
                n = rnd.choice([N, N, max(N - 1, 0), max(N - 2, 0)]) if (k == 0 or rnd.random() < 0.3) else rnd.randint(0, min(N, 6))
                v = [g.chr(False) for _ in range(n)]
                g.len[k] = n
                lines.append(g.ev("AssignSeq", k, ov="assign", sk="ptrn", src=v))
        for _ in range(nops):
            lines.append(g.step())
        while g.pending:
            lines.append(g.pending.pop(0))
    return lines


# ------------------------------------------------------------------ TLC simulation walks (longer L1 behaviours)
def sim_scripts(ctx, tlc_cfg, cfgd, num, depth, name):
    """TLC -simulate writes random behaviours of FixedString.tla (both objects, all overload families) at
    a larger capacity; each becomes one execution: the sequence of `last` records is the call sequence."""
    from vlib import tlaval
    simdir = ctx.sub("sim-" + name)
    core.tlc(ctx, "FixedStringMC", tlc_cfg, name="simulate-" + name, simulate="file=%s/t,num=%d" % (simdir, num),
             extra=["-depth", str(depth), "-seed", str(ctx.seed)], workers=min(4, WORKERS), timeout=1800)
    lines, n = [], 0
    for fn in sorted(os.listdir(simdir)):
        states = tlaval.parse_sim_trace(os.path.join(simdir, fn))
        if len(states) < 2:
            continue
        lines.append(reset_event(cfgd))
        lens = [0, 0]
        ok = True
        for st in states[1:]:
            l = st["last"]
            ev = {"op": l["op"], "k": l["k"], "a": _plain(l["a"])}
            po = st["pre"]["obj"]
            if avoid(ev, (len(po[0]), len(po[1]))) or ev["op"] == "Nav":
                ok = False        # the rest of this walk depends on a call that is not to be made: cut it here
                break
            lines.append(ev)
        n += 1
    return lines, n


def _plain(v):
    """tlaval gives sequences as lists and records as dicts already; sets do not occur in call arguments"""
    if isinstance(v, dict):
        return {k: _plain(x) for k, x in v.items()}
    if isinstance(v, list):
        return [_plain(x) for x in v]
    return v


# ------------------------------------------------------------------ classification / replay
def classify(findings):
    """A rejected event is a known finding only when it is exactly the listed call site / input:
    all `match` fields equal and, with "when": "grows", the call asks for more characters than the
    object held before it (taken from the state logged by the previous event)."""
    def f(ev, execution):
        for k in findings:
            m = k.get("match", {})
            if not m or not all(ev.get(x) == y or ev.get("a", {}).get(x) == y for x, y in m.items()):
                continue
            if k.get("when") == "grows":
                try:
                    prev = json.loads(execution[-2])
                    before = prev["st"]["o"][ev["k"] - 1]["size"]
                    if not (ev["a"]["n"] > before):
                        continue
                except Exception:
                    continue
            return "%s (%s)" % (k["key"], k["what"])
        return None
    return f


def cfg_of_reset(ev, ref=False):
    a = ev["a"]
    ct = {1: "char", 2: "char16_t", 4: "wchar_t"}[a["cw"]]      # (char32_t replays as wchar_t: same width and layout)
    return make_cfg(ct, a["n"], 1 if a["layout"] == "strlen" else 0, 1 if a["policy"] == "throwing" else 0, 1 if ref else 0)


def replay(ctx, path, pid):
    """./verif replay <pid> <file>: re-run the recorded calls on the current tree and validate against L1."""
    # a replay file holds calls: keep (op, k, a) only, whatever else was recorded with them
    lines = [{"op": l["op"], "k": l.get("k", 1), "a": l.get("a", {"z": 0})} for l in core.read_ndjson(path) if "_meta" not in l and "op" in l]
    meta = [l for l in core.read_ndjson(path) if "_meta" in l]
    if meta and meta[0]["_meta"].get("kind") == "compile":
        ok, out = wide_probe(ctx)
        if ok:
            print("replay accepted: wchar_t / char32_t fixed strings with the default storage compile now")
            return 0
        print("VIOLATION property=%s replay=%s" % (pid, path))
        print("  " + out[-1500:])
        return 1
    rs = next((l for l in lines if l["op"] == "Reset"), None)
    if rs is None:
        raise MachineryError("replay file has no Reset event: %s" % path)
    c = cfg_of_reset(rs)
    drv = build_drivers(ctx, [c])[c["name"]]
    sp, tp = os.path.join(ctx.work, "replay.script"), os.path.join(ctx.work, "replay.ndjson")
    write_script(sp, lines)
    run_driver(drv, sp, tp)
    r = core.validate_trace(ctx, "FixedStringTrace", "FixedStringTrace.cfg", tp, env=TLC_ENV)
    if r["accepted"]:
        print("replay accepted: the recorded calls now conform to FixedString.tla")
        return 0
    print("VIOLATION property=%s replay=%s" % (pid, path))
    print("  rejected at event %d; spec expected: %s" % (r["fail_line"] + 1, r.get("expected")))
    return 1


def l2_drift(ctx, items):
    """Advisory: replay recorded traces (N <= 32: raw cells are logged) through the L2 model
    FixedStringImplTrace; a rejection means FixedStringImpl.tla no longer describes the code's buffer
    handling cell by cell.  MODEL-DRIFT only, never a verdict.  items: [(trace_path, cfgd)]."""
    def one(it):
        tp, c = it
        env = dict(TLC_ENV); env["FS_N"] = str(c["n"])
        try:
            r = core.validate_trace(ctx, "FixedStringImplTrace", "FixedStringImplTrace.cfg", tp, env=env, explain=False)
        except MachineryError as x:
            return (tp, c, None, str(x)[:400])
        return (tp, c, r, None)
    n = 0
    with ThreadPoolExecutor(max_workers=max(1, WORKERS // 2)) as ex:
        for tp, c, r, err in ex.map(one, items):
            if err is not None:
                ctx.drift.append("L2 trace replay of %s could not be run: %s" % (os.path.basename(tp), err))
            elif not r["accepted"]:
                with open(tp) as f:
                    lines = [x for x in f if x.strip()]
                ev = lines[r["fail_line"]][:500] if r["fail_line"] < len(lines) else "?"
                ctx.drift.append("FixedStringImpl.tla (L2) does not reproduce the cells / result the code produced at event %d of %s: %s" % (
                    r["fail_line"] + 1, os.path.basename(tp), ev))
            else:
                n += r["matched"]
    ctx.notes["l2_events_replayed_cell_by_cell"] = ctx.notes.get("l2_events_replayed_cell_by_cell", 0) + n
    return n


def vacuity(ctx, s2c_ops, scripts):
    """Which spec actions were never exercised on the real code in this run (S->C replays + C->S scripts)."""
    c2s = {}
    for name, c, lines in scripts:
        if c["ref"]:
            continue
        for l in lines:
            c2s[l["op"]] = c2s.get(l["op"], 0) + 1
    ctx.notes["c2s_events_per_action"] = c2s
    ctx.notes["vacuous_actions"] = sorted(op for op in ALL_OPS if not s2c_ops.get(op) and not c2s.get(op))
    ctx.notes["actions_not_enumerated_by_tlc"] = sorted(op for op in ALL_OPS if not s2c_ops.get(op))


def run_and_validate(ctx, scripts, drivers, findings, ref_ok=None):
    """scripts: list of (name, cfgd, lines).  Runs each on its driver, validates all traces with TLC.
    Scripts whose cfgd has ref=1 exercise std::basic_string: a rejection there is an error of the
    specification / harness (machinery), never a verdict about xtl."""
    tdir = ctx.sub("traces")
    traces, reftraces = [], []

    def one(item):
        name, c, lines = item
        sp = os.path.join(tdir, name + ".script")
        tp = os.path.join(tdir, name + ".ndjson")
        write_script(sp, lines)
        run_driver(drivers[c["name"]], sp, tp)
        return tp

    with ThreadPoolExecutor(max_workers=WORKERS) as ex:
        for item, tp in zip(scripts, ex.map(one, scripts)):
            (reftraces if item[1]["ref"] else traces).append(tp)
            if not item[1]["ref"]:
                ctx.cov["traces_validated_against_impl"] += sum(1 for l in item[2] if l["op"] == "Reset")
    if reftraces:
        before = len(ctx.violations)
        res = core.validate_traces(ctx, "FixedStringTrace", "FixedStringTrace.cfg", reftraces, env=TLC_ENV, parallel=max(1, WORKERS // 2))
        bad = [(p, r) for p, r in res if not r["accepted"]]
        if bad:
            p, r = bad[0]
            del ctx.violations[before:]
            raise MachineryError("the specification rejects std::basic_string itself (oracle or harness bug): %s event %d: %s ; expected %s" % (
                os.path.basename(p), r["fail_line"] + 1, r["execution"][-1][:600], r.get("expected", "?")[:800]))
        ctx.notes["reference_events_validated_on_std_string"] = sum(r["matched"] for _, r in res)
        ctx.cov["events_validated"] -= ctx.notes["reference_events_validated_on_std_string"]
    before = len(ctx.violations)
    res = core.validate_traces(ctx, "FixedStringTrace", "FixedStringTrace.cfg", traces, classify=classify(findings), env=TLC_ENV, parallel=max(1, WORKERS // 2))
    if len(ctx.violations) == before:
        small = [(os.path.join(tdir, name + ".ndjson"), c) for name, c, _ in scripts if not c["ref"] and c["n"] <= 32 and not name.startswith("probe-")]
        l2_drift(ctx, small)
    # events_validated counts L1 validation only
    return res

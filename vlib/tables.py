"""Pure-function conformance (C->S) shared by C13, C14, C15: the harness turns a script of inputs
into a table of (input, output) cases, and a TLA+ checking spec evaluates the L1 definition on every
recorded case.  Each case is one TLC state <<l, j>> (line, case in line) of a chain; the chain ends
at the first case L1 does not allow, where the spec prints what it expected.

Contract between script, harness and table:
  * script line k  = {"op":..., <shared parameters>, "c":[case input, ...]}
  * table line k   = the same line with every case extended by what the real code returned
  * a harness that dies (sanitizer report, signal) stops writing; the runner then closes the table with
    a {"op":"Crash",...} line, which no checking spec accepts.
A rejection is reported only after it repeated on a fresh harness run of that single case."""
import json, os, re, subprocess
from concurrent.futures import ThreadPoolExecutor
from . import core
from .core import MachineryError

_RE_REJECT = re.compile(r'<<\s*"REJECT",\s*(\d+),\s*(\d+),\s*(.*?)>>\s*\n(?=[A-Z0-9]|$)', re.S)


def write_lines(path, lines):
    with open(path, "w") as f:
        for l in lines:
            f.write((l if isinstance(l, str) else json.dumps(l, separators=(",", ":"))) + "\n")


def run_harness(ctx, drv, script_path, table_path, argv=(), timeout=1800):
    """script -> table.  Returns dict(rc, stderr, lines_out, crashed)."""
    env = dict(os.environ)
    env.update(core.ASAN_ENV)
    with open(script_path) as fin, open(table_path, "wb") as fout:
        try:
            p = subprocess.run([drv] + list(argv), stdin=fin, stdout=fout, stderr=subprocess.PIPE, env=env, timeout=timeout)
            rc, err = p.returncode, p.stderr.decode(errors="replace")
        except subprocess.TimeoutExpired:
            rc, err = 124, "[harness timed out after %ss]" % timeout
    if rc == 3:
        raise MachineryError("harness rejected script %s: %s" % (script_path, err[-800:]))
    with open(script_path) as f:
        nscript = sum(1 for l in f if l.strip())
    with open(table_path, "rb") as f:
        raw = f.read().decode(errors="replace")
    complete = raw.split("\n")
    tail = complete.pop()          # text after the last newline: a partial line, dropped
    lines = []
    crashed = False
    for l in complete:
        if not l.strip():
            continue
        if l.startswith('{"op":"Crash"'):
            crashed = True
            break
        lines.append(l)
    if len(lines) >= nscript and not crashed and rc != 0:
        raise MachineryError("harness %s printed all %d lines but ended with status %s: %s" % (drv, nscript, rc, err[-1500:]))
    if len(lines) < nscript or crashed:
        crashed = True
        why = "harness ended with status %s after %d of %d lines" % (rc, len(lines), nscript)
        lines = lines[:nscript - 1]
        lines.append(json.dumps({"op": "Crash", "why": why, "c": [[0]]}, separators=(",", ":")))
    write_lines(table_path, lines)
    return {"rc": rc, "stderr": err, "lines_out": len(lines), "crashed": crashed}


def sanitizer_summary(err):
    """The interesting lines of an ASan/UBSan report."""
    keep = [l.strip() for l in err.splitlines()
            if "runtime error" in l or "ERROR: AddressSanitizer" in l or "SUMMARY" in l or re.match(r"\s*#[0-3] ", l)]
    return " | ".join(keep[:8])[:1200]


def count_cases(table_path):
    n, per = 0, []
    with open(table_path) as f:
        for l in f:
            if not l.strip():
                continue
            if l.startswith('{"op":"Crash"'):
                per.append(0)
                continue
            k = len(json.loads(l)["c"])
            per.append(k)
            n += k
    return n, per


def check_table(ctx, module, cfg, table_path, name=None, timeout=1500, heap="6g", env=None):
    """TLC over one table.  Returns dict(accepted, total, matched, reject=None|{l, j, expected})."""
    total, per = count_cases(table_path)
    e = {"TRACE": table_path}
    if env:
        e.update(env)
    r = core.tlc(ctx, module, cfg, name=name or ("tab-" + os.path.basename(table_path)), workers=1,
                 timeout=timeout, env=e, heap=heap)
    if r["rc"] != 0 or r["violated"]:
        raise MachineryError("table check %s failed (rc=%s), see %s\n%s" % (module, r["rc"], r["outfile"], r["out"][-2000:]))
    matched = max(0, r["depth"] - 1) if total else 0
    out = r["out"]
    res = {"total": total, "matched": matched, "reject": None, "tlc": r,
           "drift": re.findall(r'<<\s*"DRIFT",\s*(.*?)>>\s*\n(?=[A-Z0-9<]|$)', out, re.S)}
    m = _RE_REJECT.search(out + "\n")
    if m:
        res["reject"] = {"l": int(m.group(1)), "j": int(m.group(2)),
                         "expected": re.sub(r"\s+", " ", m.group(3)).strip()[:3000]}
        # the chain has one state per accepted case plus the state of the rejected one
        res["matched"] = max(0, r["depth"] - 1)
    has_crash = any(k == 0 for k in per)
    res["accepted"] = (res["reject"] is None) and (matched == total) and not has_crash
    if not res["accepted"] and res["reject"] is None:
        raise MachineryError("table check %s: %d of %d cases matched but no REJECT was printed, see %s" % (
            module, matched, total, r["outfile"]))
    return res


def single_case(line, j):
    d = dict(line)
    d["c"] = [line["c"][j]]
    return d


class Job:
    def __init__(self, name, drv, lines, argv=()):
        self.name, self.drv, self.lines, self.argv = name, drv, lines, list(argv)


MAX_CONFIRM = 6        # rejections confirmed (re-run alone) and reported per validate() call; the rest are only counted


def _parallel(default):
    try:
        return max(1, int(os.environ.get("VERIF_PARALLEL", "") or default))
    except ValueError:
        return default


def tlc_workers():
    """workers for the model-checking runs of the specs themselves (env VERIF_TLC_WORKERS while developing)"""
    try:
        return max(1, int(os.environ.get("VERIF_TLC_WORKERS", "") or core.NCPU))
    except ValueError:
        return core.NCPU


def validate(ctx, module, cfg, jobs, describe=None, classify=None, max_restarts=1, parallel=None, env=None):
    """Run every job's script through its harness and check the tables with TLC (in parallel).
    Rejected cases are re-run alone; if the rejection repeats it is a violation (or a known finding
    when classify(single_line) returns a key).  Returns the number of accepted cases."""
    tdir = ctx.sub("tables")
    accepted_cases = [0]
    problems = []        # (job, single script line, text)

    def one(job):
        lines = job.lines
        attempt = 0
        out = []
        while lines and attempt <= max_restarts:
            tag = job.name if attempt == 0 else "%s.rest%d" % (job.name, attempt)
            sp, tp = os.path.join(tdir, tag + ".script"), os.path.join(tdir, tag + ".ndjson")
            write_lines(sp, lines)
            h = run_harness(ctx, job.drv, sp, tp, job.argv)
            r = check_table(ctx, module, cfg, tp, name="tab-" + tag, env=env)
            out.append((r["matched"], r["drift"]))
            if r["accepted"]:
                break
            l, j = r["reject"]["l"], r["reject"]["j"]
            sline = lines[l - 1]
            with open(tp) as f:
                tline = json.loads([x for x in f if x.strip()][l - 1])
            problems.append((job, sline, j - 1, tline, r["reject"]["expected"], h))
            lines = lines[l:]            # continue after the offending script line
            attempt += 1
        return out

    with ThreadPoolExecutor(max_workers=_parallel(parallel or max(1, core.NCPU // 2))) as ex:
        for job, outs in zip(jobs, ex.map(one, jobs)):
            for n, drift in outs:
                accepted_cases[0] += n
                for d in drift:
                    note = "%s: %s" % (module, re.sub(r"\s+", " ", d)[:400])
                    if note not in ctx.drift and len(ctx.drift) < 10:
                        ctx.drift.append(note)

    # ---- confirm rejections on a fresh run of the single case (the first MAX_CONFIRM; a broken function
    #      fails in every table, and each confirmation costs a harness run and a TLC run)
    if len(problems) > MAX_CONFIRM:
        ctx.notes["rejections_not_examined"] = len(problems) - MAX_CONFIRM
        ctx.log("%d further rejected cases were not re-run (first %d are reported)" % (len(problems) - MAX_CONFIRM, MAX_CONFIRM))
    for n, (job, sline, j, tline, expected, h) in enumerate(problems[:MAX_CONFIRM]):
        if tline.get("op") == "Crash":
            # the harness died somewhere inside script line sline: run its cases one per line
            singles = [single_case(sline, k) for k in range(len(sline["c"]))]
        else:
            singles = [single_case(sline, j)]
        sp, tp = os.path.join(tdir, "confirm-%d.script" % n), os.path.join(tdir, "confirm-%d.ndjson" % n)
        write_lines(sp, singles)
        h2 = run_harness(ctx, job.drv, sp, tp, job.argv)
        r2 = check_table(ctx, module, cfg, tp, name="confirm-%d" % n, env=env)
        if r2["accepted"]:
            raise MachineryError("non-reproducible rejection in %s (script line %s): accepted when re-run alone" % (
                job.name, json.dumps(sline)[:300]))
        bad = singles[r2["reject"]["l"] - 1]
        if "precondition" in r2["reject"]["expected"]:
            raise MachineryError("%s: the generator/harness left the contract (%s) on %s" % (
                module, r2["reject"]["expected"][:200], json.dumps(bad)[:300]))
        with open(tp) as f:
            observed = [x for x in f if x.strip()][r2["reject"]["l"] - 1].strip()
        crash = observed.startswith('{"op":"Crash"')
        key = classify(bad) if classify else None
        if crash:
            text = "%s: harness died on %s -- %s" % (module, json.dumps(bad, separators=(",", ":"))[:600],
                                                     sanitizer_summary(h2["stderr"]) or observed[:300])
        else:
            text = "%s rejects recorded case %s ; L1 expected: %s" % (module, observed[:900], r2["reject"]["expected"][:1200])
        if describe:
            text = describe(bad) + " :: " + text
        if key:
            if key not in ctx.known:
                ctx.known.append(key)
        else:
            ctx.violation(text, replay_lines=[json.dumps(bad, separators=(",", ":"))])
    ctx.cov["events_validated"] += accepted_cases[0]
    ctx.cov["evaluations"] += accepted_cases[0]
    return accepted_cases[0]


def replay(ctx, path, module, cfg, drv, argv=(), pid="?"):
    lines = [l for l in core.read_ndjson(path) if "_meta" not in l]
    sp, tp = os.path.join(ctx.work, "replay.script"), os.path.join(ctx.work, "replay.ndjson")
    write_lines(sp, lines)
    h = run_harness(ctx, drv, sp, tp, argv)
    r = check_table(ctx, module, cfg, tp, name="replay")
    if r["accepted"]:
        print("replay accepted: the recorded inputs now conform to %s (%d cases)" % (module, r["total"]))
        return 0
    print("VIOLATION property=%s replay=%s" % (pid, path))
    with open(tp) as f:
        observed = [x for x in f if x.strip()][r["reject"]["l"] - 1].strip()
    print("  rejected: %s ; L1 expected: %s %s" % (observed[:600], r["reject"]["expected"][:800],
                                                   sanitizer_summary(h["stderr"])))
    return 1


def selftest_corrupt(ctx, module, cfg, drv, lines, corrupt, where, argv=(), pid="?"):
    """Binding demonstration: record a small table from the real code, check TLC accepts it, corrupt one recorded
    field of case `where` = (line, case) (1-based) with corrupt(table_line_dict, case_index0) and check TLC rejects
    exactly there."""
    sp, tp = os.path.join(ctx.work, "selftest.script"), os.path.join(ctx.work, "selftest.ndjson")
    write_lines(sp, lines)
    run_harness(ctx, drv, sp, tp, argv)
    r = check_table(ctx, module, cfg, tp, name="selftest-clean")
    if not r["accepted"]:
        print("selftest %s: the clean table is rejected at %s" % (pid, r["reject"]))
        return 1
    tab = core.read_ndjson(tp)
    corrupt(tab[where[0] - 1], where[1] - 1)
    tp2 = os.path.join(ctx.work, "selftest-corrupt.ndjson")
    write_lines(tp2, tab)
    r2 = check_table(ctx, module, cfg, tp2, name="selftest-corrupt")
    got = (r2["reject"]["l"], r2["reject"]["j"]) if r2["reject"] else None
    print("selftest %s: clean table accepted (%d cases); corrupted field at line %d case %d -> TLC %s" % (
        pid, r["total"], where[0], where[1], "rejects at line %d case %d, expected %s" % (got[0], got[1], r2["reject"]["expected"][:200]) if got else "ACCEPTS"))
    return 0 if got == tuple(where) else 1

"""Pure-function conformance (C->S) shared by C13, C14, C15: the harness turns a script of inputs
into a table of (input, output) cases, and a TLA+ checking spec evaluates the L1 definition on every
recorded case.  Each case is one TLC state <<l, j>> (line, case in line) of a chain; the chain ends
at the first case L1 does not allow, where the spec prints what it expected.

Contract between script, harness and table:
  * script line k  = {"op":..., <shared parameters>, "c":[case input, ...]}
  * table line k   = the same line with every case extended by what the real code returned
  * a harness that dies (sanitizer report, signal) stops writing; the runner then closes the table with
    a {"op":"Crash",...} line, which no checking spec accepts.
A rejection is reported only after it repeated on a fresh harness run of that single case."""
import json, os, re, shutil, subprocess, time
from concurrent.futures import ThreadPoolExecutor
from . import core
from .core import MachineryError

_RE_REJECT = re.compile(r'<<\s*"REJECT",\s*(\d+),\s*(\d+),\s*(.*?)>>\s*\n(?=[A-Z0-9]|$)', re.S)


def write_lines(path, lines):
    with open(path, "w") as f:
        for l in lines:
            f.write((l if isinstance(l, str) else json.dumps(l, separators=(",", ":"))) + "\n")


def harness_timeout(ctx):
    """Wall-clock backstop for one harness run (the drivers end a call that does not return themselves, after
    5 s of CPU time per script line); a run that hits it is closed with a Crash line like any other death."""
    return 300 if ctx.quick else 1200


def run_harness(ctx, drv, script_path, table_path, argv=(), timeout=None):
    """script -> table.  Returns dict(rc, stderr, lines_out, crashed)."""
    timeout = timeout or harness_timeout(ctx)
    env = dict(os.environ)
    env.update(core.ASAN_ENV)
    # unbounded recursion in the code under test must end at the stack limit (a Crash line), not in the OOM killer:
    # no fake (heap-allocated) stack frames, and a hard limit on the resident set as a safety net
    env["ASAN_OPTIONS"] = env["ASAN_OPTIONS"].replace("detect_stack_use_after_return=1", "detect_stack_use_after_return=0") + ":hard_rss_limit_mb=4096"
    with open(script_path) as fin, open(table_path, "wb") as fout:
        try:
            p = subprocess.run([drv] + list(argv), stdin=fin, stdout=fout, stderr=subprocess.PIPE, env=env, timeout=timeout)
            rc, err = p.returncode, p.stderr.decode(errors="replace")
        except subprocess.TimeoutExpired:
            rc, err = 124, "[harness timed out after %ss]" % timeout
    if rc == 3:
        raise MachineryError("harness rejected script %s: %s" % (script_path, err[-800:]))
    with open(script_path) as f:
        nscript = sum(1 for l in f if l.strip())
    with open(table_path, "rb") as f:
        raw = f.read().decode(errors="replace")
    complete = raw.split("\n")
    tail = complete.pop()          # text after the last newline: a partial line, dropped
    lines = []
    crashed = False
    said = ""
    for l in complete:
        if not l.strip():
            continue
        if l.startswith('{"op":"Crash"'):
            crashed = True
            try:
                said = " (%s)" % json.loads(l).get("why", "")
            except ValueError:
                pass
            break
        lines.append(l)
    if len(lines) >= nscript and not crashed and rc != 0:
        raise MachineryError("harness %s printed all %d lines but ended with status %s: %s" % (drv, nscript, rc, err[-1500:]))
    if len(lines) < nscript or crashed:
        crashed = True
        why = "harness ended with status %s after %d of %d lines%s" % (rc, len(lines), nscript, said)
        lines = lines[:nscript - 1]
        lines.append(json.dumps({"op": "Crash", "why": why, "c": [[0]]}, separators=(",", ":")))
    write_lines(table_path, lines)
    return {"rc": rc, "stderr": err, "lines_out": len(lines), "crashed": crashed}


def sanitizer_summary(err):
    """The interesting lines of an ASan/UBSan report."""
    keep = [l.strip() for l in err.splitlines()
            if "runtime error" in l or "ERROR: AddressSanitizer" in l or "SUMMARY" in l or re.match(r"\s*#[0-3] ", l)]
    return " | ".join(keep[:8])[:1200]


def count_cases(table_path):
    n, per = 0, []
    with open(table_path) as f:
        for l in f:
            if not l.strip():
                continue
            if l.startswith('{"op":"Crash"'):
                per.append(0)
                continue
            k = len(json.loads(l)["c"])
            per.append(k)
            n += k
    return n, per


def check_table(ctx, module, cfg, table_path, name=None, timeout=1500, heap="3g", env=None):
    """TLC over one table.  Returns dict(accepted, total, matched, reject=None|{l, j, expected})."""
    total, per = count_cases(table_path)
    e = {"TRACE": table_path}
    if env:
        e.update(env)
    r = None
    for attempt in (1, 2, 3):
        try:
            r = core.tlc(ctx, module, cfg, name=(name or ("tab-" + os.path.basename(table_path))) + ("" if attempt == 1 else ".retry%d" % attempt),
                         workers=1, timeout=timeout, env=e, heap=heap)
            break
        except MachineryError as x:
            # a JVM killed from outside (rc -9 / 137: the kernel's OOM killer on a shared machine) says nothing about the table
            if attempt < 3 and re.search(r"rc=(-9|137)\b", str(x)):
                ctx.log("TLC was killed from outside (%s); trying again" % str(x)[:80])
                time.sleep(20 * attempt)
                continue
            raise
    if r["rc"] != 0 or r["violated"]:
        raise MachineryError("table check %s failed (rc=%s), see %s\n%s" % (module, r["rc"], r["outfile"], r["out"][-2000:]))
    matched = max(0, r["depth"] - 1) if total else 0
    out = r["out"]
    res = {"total": total, "matched": matched, "reject": None, "tlc": r,
           "drift": re.findall(r'<<\s*"DRIFT",\s*(.*?)>>\s*\n(?=[A-Z0-9<]|$)', out, re.S)}
    m = _RE_REJECT.search(out + "\n")
    if m:
        res["reject"] = {"l": int(m.group(1)), "j": int(m.group(2)),
                         "expected": re.sub(r"\s+", " ", m.group(3)).strip()[:3000]}
        # the chain has one state per accepted case plus the state of the rejected one
        res["matched"] = max(0, r["depth"] - 1)
    has_crash = any(k == 0 for k in per)
    res["accepted"] = (res["reject"] is None) and (matched == total) and not has_crash
    if not res["accepted"] and res["reject"] is None:
        raise MachineryError("table check %s: %d of %d cases matched but no REJECT was printed, see %s" % (
            module, matched, total, r["outfile"]))
    return res


def single_case(line, j):
    d = dict(line)
    d["c"] = [line["c"][j]]
    return d


class Job:
    def __init__(self, name, drv, lines, argv=(), bld=None):
        """bld: name of the build flavour of drv; it is written into every script line (key "bld", ignored by the
        drivers and the checking specs) so that a replay file names the build it was recorded with."""
        if bld:
            lines = [dict(l, bld=bld) for l in lines]
        self.name, self.drv, self.lines, self.argv, self.bld = name, drv, lines, list(argv), bld


class Flavour:
    """One way of compiling a driver: a configuration axis of the property (compiler, optimisation level,
    signedness of plain char, ...)."""
    def __init__(self, name, cxx=None, flags=(), asan=True):
        self.name, self.cxx, self.flags, self.asan = name, cxx, list(flags), asan


def build_driver(ctx, pid, src, out, probe, flags=(), flavour=None):
    """Build a conformance driver.  If it does not compile, compile the interface probe (the calls exactly as the
    property statement / the upstream test write them) with the same compiler: if that fails too, the property's
    functions cannot be called as stated - a VIOLATION whose replay is the probe; otherwise the driver is at fault
    (machinery error).  Returns the path of the binary, or None after a violation."""
    fl = flavour or Flavour("default")
    try:
        return core.build(ctx, src, out, flags=list(flags) + fl.flags, asan=fl.asan, cxx=fl.cxx)
    except MachineryError as e:
        cmd = [fl.cxx or core.CXX] + core.BASE_FLAGS + ["-I", core.INCLUDE, "-I", os.path.join(core.HARNESS, "common"), probe, "-o", out + ".probe"]
        rc, o = core.sh(cmd, timeout=600)
        if rc == 0:
            raise MachineryError("the interface probe %s compiles but the driver does not: %s" % (os.path.basename(probe), str(e)[-3000:]))
        os.makedirs(ctx.replays, exist_ok=True)
        rp = os.path.join(ctx.replays, "api_probe_%s.cpp" % fl.name)
        shutil.copyfile(probe, rp)
        errs = [l.strip() for l in o.splitlines() if "error" in l][:4]
        ctx.violation("%s: the functions of the property cannot be called as the statement (and the upstream test) call them [%s]: %s"
                      % (pid, " ".join(cmd[:1] + fl.flags), " | ".join(errs)[:1200]), replay_path=rp)
        return None


def replay_probe(ctx, path, pid):
    """./verif replay <ID> <replays/.../api_probe_*.cpp>"""
    cmd = [core.CXX] + core.BASE_FLAGS + ["-I", core.INCLUDE, "-I", os.path.join(core.HARNESS, "common"), path, "-o", os.path.join(ctx.work, "probe.bin")]
    rc, o = core.sh(cmd, timeout=600)
    if rc == 0:
        print("replay accepted: the interface probe compiles")
        return 0
    print("VIOLATION property=%s replay=%s" % (pid, path))
    print("  " + "\n  ".join([l for l in o.splitlines() if "error" in l][:5]))
    return 1


MAX_CONFIRM = 6        # rejections confirmed (re-run alone) and reported per validate() call; the rest are only counted


def _parallel(default):
    try:
        return max(1, int(os.environ.get("VERIF_PARALLEL", "") or default))
    except ValueError:
        return default


def tlc_workers():
    """workers for the model-checking runs of the specs themselves (env VERIF_TLC_WORKERS while developing)"""
    try:
        return max(1, int(os.environ.get("VERIF_TLC_WORKERS", "") or core.NCPU))
    except ValueError:
        return core.NCPU


def validate(ctx, module, cfg, jobs, describe=None, classify=None, max_restarts=1, parallel=None, env=None):
    """Run every job's script through its harness and check the tables with TLC (in parallel).
    Rejected cases are re-run alone; if the rejection repeats it is a violation (or a known finding
    when classify(single_line) returns a key).  Returns the number of accepted cases."""
    tdir = ctx.sub("tables")
    accepted_cases = [0]

    def one(job):
        lines = job.lines
        attempt = 0
        out = []
        problems = []
        while lines and attempt <= max_restarts:
            tag = job.name if attempt == 0 else "%s.rest%d" % (job.name, attempt)
            sp, tp = os.path.join(tdir, tag + ".script"), os.path.join(tdir, tag + ".ndjson")
            write_lines(sp, lines)
            h = run_harness(ctx, job.drv, sp, tp, job.argv)
            r = check_table(ctx, module, cfg, tp, name="tab-" + tag, env=env)
            out.append((r["matched"], r["drift"]))
            if r["accepted"]:
                break
            l, j = r["reject"]["l"], r["reject"]["j"]
            sline = lines[l - 1]
            with open(tp) as f:
                tline = json.loads([x for x in f if x.strip()][l - 1])
            problems.append((job, sline, j - 1, tline, r["reject"]["expected"], h, lines[:l]))
            lines = lines[l:]            # continue after the offending script line
            attempt += 1
        return out, problems

    groups = {}          # (family of the job, op, crashed?) -> rejected cases, in job order
    with ThreadPoolExecutor(max_workers=_parallel(parallel or max(1, core.NCPU // 2))) as ex:
        for job, (outs, probs) in zip(jobs, ex.map(one, jobs)):
            for pr in probs:
                fam = re.sub(r"-\d+$", "", job.name)
                groups.setdefault((fam, pr[1].get("op"), pr[3].get("op") == "Crash"), []).append(pr)
            for n, drift in outs:
                accepted_cases[0] += n
                for d in drift:
                    note = "%s: %s" % (module, re.sub(r"\s+", " ", d)[:400])
                    if note not in ctx.drift and len(ctx.drift) < 10:
                        ctx.drift.append(note)

    # ---- confirm rejections on a fresh run of the single case (MAX_CONFIRM of them; a broken function
    #      fails in every table, and each confirmation costs a harness run and a TLC run).  They are taken
    #      round-robin over (script family, operation, crash or wrong result), in job order: a crash in one
    #      family must not crowd out a wrong result in another, and the choice must not depend on thread timing
    problems, k = [], 0
    while any(len(g) > k for g in groups.values()):
        problems += [g[k] for g in groups.values() if len(g) > k]
        k += 1
    if len(problems) > MAX_CONFIRM:
        ctx.notes["rejections_not_examined"] = len(problems) - MAX_CONFIRM
        ctx.log("%d further rejected cases were not re-run (first %d are reported)" % (len(problems) - MAX_CONFIRM, MAX_CONFIRM))
    for n, (job, sline, j, tline, expected, h, history) in enumerate(problems[:MAX_CONFIRM]):
        if tline.get("op") == "Crash":
            # the harness died somewhere inside script line sline: run its cases one per line
            singles = [single_case(sline, k) for k in range(len(sline["c"]))]
        else:
            singles = [single_case(sline, j)]
        sp, tp = os.path.join(tdir, "confirm-%d.script" % n), os.path.join(tdir, "confirm-%d.ndjson" % n)
        write_lines(sp, singles)
        h2 = run_harness(ctx, job.drv, sp, tp, job.argv)
        r2 = check_table(ctx, module, cfg, tp, name="confirm-%d" % n, env=env)
        if r2["accepted"]:
            # accepted alone: the functions are meant to be pure, so a result that depends on the calls made before
            # it is itself a violation - provided it repeats when the same calls are made again in a fresh process
            sp, tp = os.path.join(tdir, "confirm-%d-history.script" % n), os.path.join(tdir, "confirm-%d-history.ndjson" % n)
            write_lines(sp, history)
            h2 = run_harness(ctx, job.drv, sp, tp, job.argv)
            r2 = check_table(ctx, module, cfg, tp, name="confirm-%d-history" % n, env=env)
            if r2["accepted"] or r2["reject"]["l"] != len(history):
                raise MachineryError("non-reproducible rejection in %s (script line %s): accepted when re-run alone and when re-run "
                                     "after the %d lines before it" % (job.name, json.dumps(sline)[:300], len(history) - 1))
            with open(tp) as f:
                observed = [x for x in f if x.strip()][len(history) - 1].strip()
            try:
                observed = json.dumps(single_case(json.loads(observed), r2["reject"]["j"] - 1), separators=(",", ":"))
            except (ValueError, KeyError, IndexError):
                pass
            text = "%s rejects recorded case %d of %s ONLY AFTER the %d script lines before it (accepted when the case is run alone: the " \
                   "result depends on earlier calls) ; L1 expected: %s" % (module, r2["reject"]["j"], observed[:700], len(history) - 1,
                                                                         r2["reject"]["expected"][:1000])
            if describe:
                text = describe(single_case(sline, j)) + " :: " + text
            ctx.violation(text, replay_lines=[json.dumps(x, separators=(",", ":")) for x in history])
            continue
        bad = singles[r2["reject"]["l"] - 1]
        if "precondition" in r2["reject"]["expected"]:
            raise MachineryError("%s: the generator/harness left the contract (%s) on %s" % (
                module, r2["reject"]["expected"][:200], json.dumps(bad)[:300]))
        with open(tp) as f:
            observed = [x for x in f if x.strip()][r2["reject"]["l"] - 1].strip()
        crash = observed.startswith('{"op":"Crash"')
        key = classify(bad) if classify else None
        if crash:
            text = "%s: harness died on %s -- %s" % (module, json.dumps(bad, separators=(",", ":"))[:600],
                                                     sanitizer_summary(h2["stderr"]) or observed[:300])
        else:
            text = "%s rejects recorded case %s ; L1 expected: %s" % (module, observed[:900], r2["reject"]["expected"][:1200])
        if describe:
            text = describe(bad) + " :: " + text
        if key:
            if key not in ctx.known:
                ctx.known.append(key)
        else:
            ctx.violation(text, replay_lines=[json.dumps(bad, separators=(",", ":"))])
    ctx.cov["events_validated"] += accepted_cases[0]
    ctx.cov["evaluations"] += accepted_cases[0]
    return accepted_cases[0]


def replay(ctx, path, module, cfg, drv, argv=(), pid="?"):
    """drv: path of the driver, or a function (build flavour name or None) -> path"""
    if path.endswith(".cpp"):
        return replay_probe(ctx, path, pid)
    lines = [l for l in core.read_ndjson(path) if "_meta" not in l]
    if callable(drv):
        blds = {l.get("bld") for l in lines}
        if len(blds) > 1:
            raise MachineryError("replay file %s mixes build flavours %s" % (path, sorted(map(str, blds))))
        drv = drv(blds.pop() if blds else None)
        if drv is None:
            print("VIOLATION property=%s replay=%s\n  the driver does not build (see above)" % (pid, path))
            return 1
    sp, tp = os.path.join(ctx.work, "replay.script"), os.path.join(ctx.work, "replay.ndjson")
    write_lines(sp, lines)
    h = run_harness(ctx, drv, sp, tp, argv)
    r = check_table(ctx, module, cfg, tp, name="replay")
    if r["accepted"]:
        print("replay accepted: the recorded inputs now conform to %s (%d cases)" % (module, r["total"]))
        return 0
    print("VIOLATION property=%s replay=%s" % (pid, path))
    with open(tp) as f:
        observed = [x for x in f if x.strip()][r["reject"]["l"] - 1].strip()
    print("  rejected: %s ; L1 expected: %s %s" % (observed[:600], r["reject"]["expected"][:800],
                                                   sanitizer_summary(h["stderr"])))
    return 1


def selftest_corrupt(ctx, module, cfg, drv, lines, corrupt, where, argv=(), pid="?"):
    """Binding demonstration: record a small table from the real code, check TLC accepts it, corrupt one recorded
    field of case `where` = (line, case) (1-based) with corrupt(table_line_dict, case_index0) and check TLC rejects
    exactly there."""
    sp, tp = os.path.join(ctx.work, "selftest.script"), os.path.join(ctx.work, "selftest.ndjson")
    write_lines(sp, lines)
    run_harness(ctx, drv, sp, tp, argv)
    r = check_table(ctx, module, cfg, tp, name="selftest-clean")
    if not r["accepted"]:
        print("selftest %s: the clean table is rejected at %s" % (pid, r["reject"]))
        return 1
    tab = core.read_ndjson(tp)
    corrupt(tab[where[0] - 1], where[1] - 1)
    tp2 = os.path.join(ctx.work, "selftest-corrupt.ndjson")
    write_lines(tp2, tab)
    r2 = check_table(ctx, module, cfg, tp2, name="selftest-corrupt")
    got = (r2["reject"]["l"], r2["reject"]["j"]) if r2["reject"] else None
    print("selftest %s: clean table accepted (%d cases); corrupted field at line %d case %d -> TLC %s" % (
        pid, r["total"], where[0], where[1], "rejects at line %d case %d, expected %s" % (got[0], got[1], r2["reject"]["expected"][:200]) if got else "ACCEPTS"))
    return 0 if got == tuple(where) else 1

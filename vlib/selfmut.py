"""Self-test helper (C18, C20): apply small semantic mutations to a scratch copy of the include tree, one at a
time, and show that `./verif check <id> --tier quick` exits 1 with a VIOLATION line for each.
A mutation is (name, header relative to include/xtl, old text, new text, expected)  with expected in
{"violation", "drift"} (drift: advisory MODEL-DRIFT line, exit 0)."""
import os, shutil, subprocess, sys
from vlib import core


def run_mutations(pid, mutations, only=None):
    scratch = "/var/tmp/xtl-scratch-%s-mut" % pid
    missed = []
    try:
        for name, header, old, new, expected in mutations:
            if only and name not in only:
                continue
            shutil.rmtree(scratch, ignore_errors=True)
            shutil.copytree(os.path.join(core.REPO, "include"), os.path.join(scratch, "include"))
            path = os.path.join(scratch, "include", "xtl", header)
            with open(path) as f:
                s = f.read()
            if s.count(old) != 1:
                print("selftest %s: mutation %s does not apply (%d matches)" % (pid, name, s.count(old)))
                missed.append(name)
                continue
            with open(path, "w") as f:
                f.write(s.replace(old, new))
            env = dict(os.environ)
            env["VERIF_REPO_INCLUDE"] = os.path.join(scratch, "include")
            p = subprocess.run([sys.executable, os.path.join(core.ROOT, "verif"), "check", pid, "--tier", "quick"],
                               stdout=subprocess.PIPE, stderr=subprocess.STDOUT, env=env, text=True, errors="replace")
            viol = [l for l in p.stdout.splitlines() if l.startswith("VIOLATION")]
            drift = [l for l in p.stdout.splitlines() if l.startswith("MODEL-DRIFT")]
            ok = (expected == "violation" and p.returncode == 1 and viol) or (expected == "drift" and p.returncode == 0 and drift)
            print("selftest %s: %-34s exit=%d violations=%d drift=%d -> %s" % (pid, name, p.returncode, len(viol), len(drift), "caught" if ok else "MISSED"))
            if not ok:
                missed.append(name)
                print(p.stdout[-1500:])
    finally:
        shutil.rmtree(scratch, ignore_errors=True)
        shutil.rmtree(os.path.join(core.ROOT, "replays", pid), ignore_errors=True)     # replays of mutated trees
    print("selftest %s: %d mutation(s) missed%s" % (pid, len(missed), (": " + ", ".join(missed)) if missed else ""))
    return 1 if missed else 0

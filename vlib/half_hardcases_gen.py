"""Development aid, not part of any check's verdict path: lists, per function, the binary16 arguments whose exact result lies
closest to a rounding boundary of binary16 (the "hard cases" of correct rounding).  The list (vlib/half_hardcases.json) is used
only to CHOOSE arguments for the quick tier of C09 - the reference values are computed by TLC from specs/HalfTrans.tla, and the
thorough tier enumerates all 65 536 arguments anyway.  Run with python3-vt (needs mpmath): python3-vt vlib/half_hardcases_gen.py"""
import json, os, sys
import mpmath
from mpmath import mp, mpf
mp.prec = 90

FN = {"atan": mpmath.atan, "exp": mpmath.exp, "exp2": lambda x: mpf(2) ** x, "expm1": mpmath.expm1, "log": mpmath.log, "log10": mpmath.log10,
      "log2": lambda x: mpmath.log(x, 2), "log1p": mpmath.log1p, "sin": mpmath.sin, "cos": mpmath.cos, "tan": mpmath.tan, "asin": mpmath.asin,
      "acos": mpmath.acos, "sinh": mpmath.sinh, "cosh": mpmath.cosh, "tanh": mpmath.tanh, "asinh": mpmath.asinh, "acosh": mpmath.acosh, "atanh": mpmath.atanh}


def h2mp(b):
    e = (b >> 10) & 31
    f = b & 1023
    v = mpf(f) * mpf(2) ** -24 if e == 0 else mpf(1024 + f) * mpf(2) ** (e - 25)
    return -v if b & 0x8000 else v


def hardness(v):
    """distance of |v| from the nearest midpoint between two adjacent binary16 values, in units of the local ulp"""
    a = abs(v)
    if a == 0 or a >= 65520 or a < mpf(2) ** -25:
        return None
    m, e = mpmath.frexp(a)              # a = m 2^e, 0.5 <= m < 1
    q = max(e - 11, -24)                # ulp exponent
    n = a / mpf(2) ** q
    fr = n - mpmath.floor(n)
    return abs(fr - mpf(1) / 2)


def main(keep=40):
    out = {}
    for f, fn in sorted(FN.items()):
        cand = []
        for b in range(65536):
            if (b & 0x7FFF) >= 0x7C00 or (b & 0x7FFF) == 0:
                continue
            try:
                v = fn(h2mp(b))
            except Exception:
                continue
            if isinstance(v, mpmath.mpc) or not mpmath.isfinite(v):
                continue
            hd = hardness(v)
            if hd is not None:
                cand.append((hd, b))
        cand.sort()
        out[f] = [b for _, b in cand[:keep]]
        print(f, ["0x%04X" % b for _, b in cand[:6]], file=sys.stderr)
    with open(os.path.join(os.path.dirname(os.path.abspath(__file__)), "half_hardcases.json"), "w") as fh:
        json.dump({"_note": "inputs only: per function the 40 binary16 arguments whose exact result lies closest to a rounding midpoint "
                            "(chosen offline with mpmath by vlib/half_hardcases_gen.py); used to choose quick-tier arguments of C09", "cases": out}, fh, indent=0)


if __name__ == "__main__":
    main()

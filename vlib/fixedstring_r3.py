"""Round-3 stages of the fixed-string checks C01 / C02 (specs/FixedString.tla "Round 3" section, harness/fixedstring).

 * ext_stage (ADVISORY): the actions the property sentences do not name - operator>> / getline with white space, width(),
   skipws and the stream state, operator<< with width / fill / adjustfield, xjson conversions, the objects as keys of
   std::map / std::unordered_map, as payloads of xtl::variant / xtl::any, conversions to and from fixed strings of another
   capacity / layout / policy (incl. char16_t with N = 65536: the length-field layout of a 2-byte character).  TLC
   model-checks them (FixedString_mc_ext*.cfg, per-action coverage recorded), seeded scripts are run on drivers built
   with -DFS_EXT=1 and every step is validated by TLC; a rejection is reported as MODEL-DRIFT "ADVISORY ...", never as a
   violation.
 * advisory_table (ADVISORY): harness/fixedstring/noexcept_probe.cpp - noexcept, layout and character-type rows.
 * nox_stage (C02): XTL_NO_EXCEPTIONS builds.  Every execution ends with its first failing call, made in a process of its
   own; the driver's terminate handler logs what is observable at that moment.  Verdict: the guards around the objects are
   intact (C02: "no operation, successful or failing, writes outside ...").  Advisory: the call terminates where L1
   demands an exception, and nothing observable changed before.
"""
import json, os, random, re, subprocess
from concurrent.futures import ThreadPoolExecutor
from vlib import core, fixedstring as fx
from vlib.core import MachineryError

NOEXCEPT_SRC = os.path.join(core.HARNESS, "fixedstring", "noexcept_probe.cpp")
JSON_FLAGS = ["-DFS_JSON=1", "-DHAVE_NLOHMANN_JSON", "-isystem", "/root/miniconda/include"]
fx.FLAVOURS.update({
    "e": (None, ["-DFS_EXT=1"]),                           # round-3 operations
    "ej": (None, ["-DFS_EXT=1"] + JSON_FLAGS),             # ... with the xjson.hpp conversions (char only)
    "g": (None, ["-DFS_PAGE=1"]),                          # the object ends where a PROT_NONE page begins
    "h": ("clang++", ["-DFS_PAGE=2", "-O2"]),              # ... begins where one ends
})
EXT_OPS = ("Extract", "GetLineX", "Put", "JsonOut", "JsonIn", "MapKey", "Payload", "CrossTo", "CrossFrom")
WS = (32, 9, 10)
PAYLOADS = ["variant_copy", "variant_move", "variant_assign", "variant_emplace", "any_copy", "any_move", "any_assign"]
# Deviations of the unchanged tree from the round-3 actions, found when the actions were written (all outside the
# sentences of C01 / C02): kept as directed executions so that every run reports them once, by name.
KNOWN_ADVISORY = [
    ("operator>> on blank input clears the string (std::basic_string: the sentry fails, the string is left alone)",
     [{"op": "AssignSeq", "k": 1, "a": {"ov": "assign", "sk": "ptrn", "src": [97, 98]}},
      {"op": "Extract", "k": 1, "a": {"text": [32, 32], "w": 0, "skip": True, "ok": True}}]),
    ("operator>> on a stream that has already failed clears the string (std::basic_string: unchanged)",
     [{"op": "AssignSeq", "k": 1, "a": {"ov": "assign", "sk": "ptrn", "src": [97, 98]}},
      {"op": "Extract", "k": 1, "a": {"text": [120], "w": 0, "skip": True, "ok": False}}]),
    ("getline on a stream that has already failed clears the string (std::basic_string: unchanged)",
     [{"op": "AssignSeq", "k": 1, "a": {"ov": "assign", "sk": "ptrn", "src": [97, 98]}},
      {"op": "GetLineX", "k": 1, "a": {"text": [120], "delim": fx.DFLT, "ok": False}}]),
    ("operator<< stops at an embedded NUL and pads for strlen(), not size() (it inserts c_str())",
     [{"op": "AssignSeq", "k": 1, "a": {"ov": "assign", "sk": "ptrn", "src": [97, 0, 98]}},
      {"op": "Put", "k": 1, "a": {"w": 5, "fill": 42, "adj": "right"}}]),
]


def _seq(r, n, alpha):
    return [r.choice(alpha) for _ in range(n)]


def ext_script(seed, c, nexec, nops):
    """Seeded script mixing ordinary calls (to move the objects through their states) with the round-3 operations.
    Only the two lengths are tracked (fx.Gen); inputs known to deviate on the unchanged tree (KNOWN_ADVISORY) are left to
    the directed executions."""
    rnd = random.Random(seed * 7907 + c["n"] * 13 + c["cw"] + c["strlen"] * 5 + c["thr"] * 3)
    N, io, js = c["n"], bool(c["io"]), c.get("fl") == "ej"
    lines = []
    for _ in range(nexec):
        g = fx.Gen(rnd, c, 0.15)
        lines.append(fx.reset_event(c))
        if rnd.random() < 0.5 and N > 0:
            n = rnd.choice([N, max(N - 1, 0), N // 2])
            g.len[0] = n
            lines.append(g.ev("AssignSeq", 0, ov="assign", sk="ptrn", src=[g.chr(False) for _ in range(n)]))
        for _ in range(nops):
            if rnd.random() < 0.45:
                lines.append(g.step())
                while g.pending:
                    lines.append(g.pending.pop(0))
                continue
            k = rnd.randrange(2)
            la = g.len[k]
            nulfree = lambda: lines.append(g.ev("AssignSeq", k, ov="assign", sk="ptrn", src=[g.chr(False) for _ in range(la)]))
            t = rnd.choice(["Extract", "Extract", "GetLineX", "Put", "JsonOut", "JsonIn", "MapKey", "Payload", "CrossTo", "CrossFrom", "CrossFrom"])
            if t in ("Extract", "GetLineX", "Put") and not io:
                t = rnd.choice(["MapKey", "Payload", "CrossTo", "CrossFrom"])
            if t in ("JsonOut", "JsonIn") and not js:
                t = rnd.choice(["MapKey", "Payload", "CrossTo"])
            if t == "Extract":
                text = _seq(rnd, rnd.choice([1, 2, 3, N, N + 1, N + 2, rnd.randint(1, N + 3)]), [97, 98, 120, 121, 122, 32, 9, 10, 200])
                skip = rnd.random() < 0.7
                w = rnd.choice([0, 0, 0, 1, 2, N, N + 1, max(N - 1, 0)])
                lead = 0
                if skip:
                    while lead < len(text) and text[lead] in WS:
                        lead += 1
                rest = text[lead:]
                if skip and not rest:
                    continue                          # blank input: known advisory deviation
                tl = 0
                while tl < len(rest) and rest[tl] not in WS:
                    tl += 1
                n = min(w, tl) if w > 0 else tl
                if n > N and (not g.thr or rnd.random() > 0.3):
                    continue                          # over-long word: only with the throwing policy, now and then
                if n <= N:
                    g.len[k] = n
                lines.append(g.ev("Extract", k, text=text, w=w, skip=skip, ok=True))
            elif t == "GetLineX":
                text = _seq(rnd, rnd.choice([0, 1, 3, N, N + 1, N + 2, rnd.randint(0, N + 3)]), [97, 98, 120, 32, 10, 98])
                delim = rnd.choice([fx.DFLT, 98, 32])
                d = 10 if delim == fx.DFLT else delim
                line = text[:text.index(d)] if d in text else text
                if len(line) > N and (not g.thr or rnd.random() > 0.3):
                    continue
                if len(line) <= N:
                    g.len[k] = len(line)
                lines.append(g.ev("GetLineX", k, text=text, delim=delim, ok=True))
            elif t == "Put":
                nulfree()
                lines.append(g.ev("Put", k, w=rnd.choice([0, 1, la, la + 1, la + 4, max(la - 1, 0)]), fill=rnd.choice([42, 32, 48]),
                                  adj=rnd.choice(["none", "left", "right", "internal"])))
            elif t == "JsonOut":
                lines.append(g.ev("AssignSeq", k, ov="assign", sk="ptrn", src=_seq(rnd, la, [97, 98, 34, 92, 123, 32])))
                lines.append(g.ev("JsonOut", k))
            elif t == "JsonIn":
                text = _seq(rnd, rnd.choice([0, 1, N, N + 1, rnd.randint(0, N + 2)]), [97, 98, 34, 92, 123, 32])
                if not g.settle(k, False, len(text)):
                    continue
                lines.append(g.ev("JsonIn", k, text=text))
            elif t == "MapKey":
                if rnd.random() < 0.4:               # make the two keys equal (through different histories)
                    v = [g.chr() for _ in range(min(la, g.len[1 - k] if rnd.random() < 0.5 else la))]
                    for kk in (k, 1 - k):
                        g.len[kk] = len(v)
                        if kk != k and rnd.random() < 0.5:          # the second key reaches the value through a dirty history
                            lines.append(g.ev("CtorFill", kk, n=N, ch=g.chr(False)))
                            lines.append(g.ev("AssignSeq", kk, ov="assign", sk="ptrn", src=v))
                        else:
                            lines.append(g.ev("Clear", kk))
                            lines.append(g.ev("AppendSeq", kk, ov="append", sk="ptrn", src=v))
                lines.append(g.ev("MapKey", k))
            elif t == "Payload":
                lines.append(g.ev("Payload", k, kind=rnd.choice(PAYLOADS)))
            elif t == "CrossTo":
                dst, route = rnd.choice(["big", "strlen", "field"]), rnd.choice(["z", "pn", "it", "str"])
                if dst == "strlen" or route in ("z", "str") or g.strlen:
                    nulfree()
                lines.append(g.ev("CrossTo", k, dst=dst, route=route))
            else:
                dst, route = rnd.choice(["big", "strlen", "field"]), rnd.choice(["z", "pn", "it", "str"])
                n = rnd.choice([0, 1, N, N, N + 1, N + 2, max(N - 1, 0), rnd.randint(0, N + 2)])
                v = [g.chr(not (dst == "strlen" or route in ("z", "str") or g.strlen)) for _ in range(n)]
                if not g.settle(k, False, n):
                    continue
                lines.append(g.ev("CrossFrom", k, dst=dst, route=route, src=v))
    return lines


def _validate_advisory(ctx, tp, what, max_rejections=6):
    """TLC validation whose rejections are advisory: returns (events matched, [(event text, expected)])."""
    matched, rej = 0, []
    cur = tp
    for attempt in range(max_rejections + 1):
        r = fx.validate_one(ctx, cur)
        matched += r["matched"]
        if r["accepted"]:
            break
        with open(cur) as f:
            lines = [l.rstrip("\n") for l in f if l.strip()]
        idx = r["fail_line"]
        rej.append((lines[idx] if idx < len(lines) else "?", r.get("expected", "?"), core.execution_of(lines, idx)))
        nxt = idx + 1
        while nxt < len(lines) and not lines[nxt].lstrip().startswith('{"op":"Reset"'):
            nxt += 1
        if nxt >= len(lines):
            break
        cur = "%s.rest%d" % (tp, attempt + 1)
        with open(cur, "w") as f:
            f.write("\n".join(lines[nxt:]) + "\n")
    return matched, rej


def _sig(evtext):
    try:
        e = json.loads(evtext)
    except Exception:
        return evtext[:60]
    a = e.get("a", {})
    return "%s/%s" % (e.get("op"), a.get("kind") or a.get("route") or a.get("adj") or a.get("sk") or "")


def _ext_coverage(r):
    """per-action counts of the ext class from TLC's -coverage output: the NextT disjuncts on the lines of the 'ext' class"""
    with open(os.path.join(core.SPECS, "FixedString.tla")) as f:
        spec = f.read().splitlines()
    out = {}
    for m in re.finditer(r"<NextT line \d+, col \d+ to line \d+, col \d+ of module FixedString \((\d+) \d+ \d+ \d+\)>: (\d+):(\d+)", r["out"]):
        ln = int(m.group(1))
        text = spec[ln - 1] if ln - 1 < len(spec) else ""
        if 'C("ext")' in text:
            for op in EXT_OPS:
                if op + "(" in text:
                    out[op] = out.get(op, 0) + int(m.group(3))
    return out


def ext_stage(ctx, cfgs, seed_off=0):
    """cfgs: configurations with flavour "e" / "ej".  Everything here is advisory."""
    q = ctx.quick
    if not fx.SKIP_MC:
        r = fx.retry_killed(lambda: core.tlc_model_check(ctx, "FixedStringMC", "FixedString_mc_ext.cfg" if q else "FixedString_mc_ext_thorough.cfg",
                                                         "L1 round-3 actions (streams, json, containers, payloads, other fixed-string types): laws, purity",
                                                         coverage=True, heap="3g", timeout=2400, workers=fx.WORKERS))
        if r["violated"]:
            raise MachineryError("the round-3 part of FixedString.tla violates its own theorem %s (oracle bug), see %s" % (r["violated"], r["outfile"]))
        cov = _ext_coverage(r)
        ctx.notes["ext_actions_generated_by_tlc"] = cov
        ctx.notes["ext_vacuous_actions"] = sorted(op for op in EXT_OPS if not cov.get(op))
    drivers = fx.build_drivers(ctx, cfgs, tolerate=True)
    fails = ctx.notes.get("driver_build_failures", {})
    for c in cfgs:
        if c["name"] not in drivers:
            ctx.drift.append("ADVISORY the round-3 conformance driver (variant / any payloads, containers, json, other fixed-string types) does not "
                             "compile for %s: %s" % (c["name"], " | ".join(l.strip()[:200] for l in fails.get(c["name"], "").splitlines() if "error" in l)[:600]))
            fails.pop(c["name"], None)
    tdir = ctx.sub("ext")
    items = []
    for c in cfgs:
        if c["name"] not in drivers:
            continue
        lines = ext_script(ctx.seed + seed_off, c, 10 if q else 40, 30 if q else 40)
        items.append(("ext-" + c["name"], c, lines, None))
        if c["ct"] == "char" and c["io"]:
            for i, (what, evs) in enumerate(KNOWN_ADVISORY):
                if c["strlen"] and any(0 in (e["a"].get("src") or []) for e in evs):
                    continue
                items.append(("extknown-%s-%d" % (c["name"], i), c, [fx.reset_event(c)] + evs, what))

    def one(it):
        name, c, lines, known = it
        sp, tp = os.path.join(tdir, name + ".script"), os.path.join(tdir, name + ".ndjson")
        fx.write_script(sp, lines)
        fx.run_script(drivers[c["name"]], sp, tp)
        return it, _validate_advisory(ctx, tp, name)

    opcount, nev, classes, known_seen = {}, 0, {}, {}
    before = ctx.cov["events_validated"]
    with ThreadPoolExecutor(max_workers=max(1, fx.WORKERS // 2)) as ex:
        for (name, c, lines, known), (matched, rej) in ex.map(one, items):
            nev += matched
            for l in lines:
                if l["op"] in EXT_OPS:
                    opcount[l["op"]] = opcount.get(l["op"], 0) + 1
            if known is not None:
                known_seen[known] = known_seen.get(known, False) or bool(rej)
                continue
            for evtext, expected, _ in rej:
                classes.setdefault(_sig(evtext), []).append((c["name"], evtext, expected))
    ctx.cov["events_validated"] = before            # advisory events are counted apart
    ctx.notes["advisory_events_validated"] = ctx.notes.get("advisory_events_validated", 0) + nev
    ctx.notes["advisory_calls_per_action"] = opcount
    ctx.notes["advisory_known_deviations_still_present"] = {k: v for k, v in known_seen.items()}
    for what, seen in sorted(known_seen.items()):
        if seen:
            ctx.drift.append("ADVISORY (known, outside the statements of C01 / C02) " + what)
    for sig, lst in sorted(classes.items()):
        name, evtext, expected = lst[0]
        ctx.drift.append("ADVISORY %s deviates from FixedString.tla (round-3 actions; %d rejection(s), first on %s): %s ; spec expected: %s" % (
            sig, len(lst), name, evtext[:500], str(expected)[:500]))
    ctx.log("advisory stage: %d events validated, calls per round-3 action %s, %d deviating classes, known deviations present: %d" % (
        nev, opcount, len(classes), sum(1 for v in known_seen.values() if v)))


def advisory_table(ctx, cfgs):
    """harness/fixedstring/noexcept_probe.cpp for one configuration per (character type, layout, policy)"""
    with open(NOEXCEPT_SRC) as f:
        rows = {i + 1: m.group(1) for i, line in enumerate(f) for m in [re.match(r"^SIGV\((\w+),", line)] if m}
    distinct = {}
    for c in cfgs:
        if not c["ref"]:
            distinct.setdefault((c["ct"], c["layout"], c["thr"]), c)

    def one(c):
        cmd = [core.CXX, "-std=c++14", "-fsyntax-only", "-fmax-errors=0", "-ftrack-macro-expansion=0", "-I", core.INCLUDE,
               "-DFS_CT=" + c["ct"], "-DFS_N=%d" % c["n"], "-DFS_STRLEN=%d" % c["strlen"], "-DFS_THROW=%d" % c["thr"], NOEXCEPT_SRC]
        rc, out = core.sh(cmd, timeout=600)
        bad = sorted({rows[int(m.group(1))] for m in re.finditer(r"noexcept_probe\.cpp:(\d+):", out) if int(m.group(1)) in rows})
        return c, rc, bad, out

    failing = {}
    with ThreadPoolExecutor(max_workers=fx.WORKERS) as ex:
        for c, rc, bad, out in ex.map(one, list(distinct.values())):
            if rc != 0:
                for b in bad or ["(translation unit does not compile: %s)" % " | ".join(l[:160] for l in out.splitlines() if "error" in l)[:400]]:
                    failing.setdefault(b, []).append(c["name"])
    ctx.notes["advisory_table_rows"] = {"rows": len(rows), "configurations": len(distinct), "failing": {k: v[:4] for k, v in failing.items()}}
    for row, names in sorted(failing.items()):
        ctx.drift.append("ADVISORY compile-time table harness/fixedstring/noexcept_probe.cpp: row %s fails for %s" % (row, ", ".join(names[:4])))


# ------------------------------------------------------------------ XTL_NO_EXCEPTIONS: a failing call ends the program
def nox_stage(ctx, pid, cfgs, drivers, nexec):
    """cfgs: throwing-policy configurations (default flavour, driver in `drivers`).  The same configuration is built with
    -DXTL_NO_EXCEPTIONS; every execution of a seeded script is cut behind its first failing call (found by running it on
    the ordinary driver - script shaping, no oracle) and run in a process of its own on the no-exceptions driver."""
    twins = [fx.make_cfg(c["ct"], c["n"], c["strlen"], 1, fl="x") for c in cfgs]
    xdrv = fx.build_drivers(ctx, twins, tolerate=True)
    tdir = ctx.sub("nox")
    env = dict(os.environ); env.update(core.ASAN_ENV)
    total = {"executions": 0, "terminated": 0, "events": 0}

    def one(pair):
        c, x = pair
        if c["name"] not in drivers or x["name"] not in xdrv:
            return c, None
        lines = fx.random_script(ctx.seed + 911, c, nexec, 25, fail_bias=0.45)
        sp, tp = os.path.join(tdir, c["name"] + ".script"), os.path.join(tdir, c["name"] + ".ndjson")
        fx.write_script(sp, lines)
        fx.run_script(drivers[c["name"]], sp, tp)
        obs = [json.loads(l) for l in open(tp) if l.strip()]
        execs, cur, skipping = [], None, False
        for ev, o in zip(lines, obs):
            if o.get("op") == "Crash":
                break                                  # (the ordinary driver died: what follows is no longer aligned)
            if ev["op"] == "Reset":
                if cur:
                    execs.append(cur)
                cur, skipping = [ev], False
                continue
            if skipping or cur is None:
                continue
            cur.append(ev)
            if o.get("res", {}).get("exc", "none") != "none":
                skipping = True                        # the first failing call ends the execution
        if cur:
            execs.append(cur)
        out_tp = os.path.join(tdir, x["name"] + ".ndjson")
        nterm, bad_guard, seen_bad = 0, [], []
        with open(out_tp, "w") as fout:
            for i, e in enumerate(execs):
                rs = fx.reset_event(x)
                text = "\n".join(json.dumps(l, separators=(",", ":")) for l in [rs] + e[1:]) + "\n"
                try:
                    p = subprocess.run([xdrv[x["name"]]], input=text.encode(), stdout=subprocess.PIPE, stderr=subprocess.PIPE, env=env, timeout=120)
                    got = [l for l in p.stdout.decode(errors="replace").splitlines() if l.strip()]
                except subprocess.TimeoutExpired:
                    got = ['{"op":"Crash","why":"no-exceptions driver did not finish"}']
                for l in got:
                    if '"exc":"terminated"' in l:
                        nterm += 1
                    if '"g":false' in l and not any(b is e for b in seen_bad):        # guards written: at the failing check or anywhere before
                        seen_bad.append(e)
                        bad_guard.append([rs] + e[1:])
                fout.write("\n".join(got) + "\n")
        matched, rej = _validate_advisory(ctx, out_tp, "nox-" + x["name"])
        return c, (x, len(execs), nterm, matched, rej, bad_guard)

    before = ctx.cov["events_validated"]
    with ThreadPoolExecutor(max_workers=max(1, fx.WORKERS // 2)) as ex:
        for c, res in ex.map(one, list(zip(cfgs, twins))):
            if res is None:
                continue
            x, ne, nterm, matched, rej, bad_guard = res
            total["executions"] += ne; total["terminated"] += nterm; total["events"] += matched
            for script in bad_guard[:2]:
                ctx.violation("XTL_NO_EXCEPTIONS build %s: the memory next to the object was written (seen when the failing check ended the program, or before it) "
                              "(C02: no operation, successful or failing, writes outside the object's own buffer)" % x["name"], replay_lines=script)
            seen = set()
            for evtext, expected, _ in rej:
                if _sig(evtext) in seen:
                    continue
                seen.add(_sig(evtext))
                ctx.drift.append("ADVISORY XTL_NO_EXCEPTIONS build %s: a call does not end as FixedString.tla says (it must terminate exactly where the "
                                 "exception is due, with nothing observable changed before): %s ; spec expected: %s" % (x["name"], evtext[:400], str(expected)[:300]))
    ctx.cov["events_validated"] = before
    ctx.notes["no_exceptions_builds"] = total
    ctx.log("XTL_NO_EXCEPTIONS: %(executions)d executions in processes of their own, %(terminated)d ended by a failing check, %(events)d events validated" % total)

"""Parser for the value syntax TLC prints (dump files, simulation traces, error traces).
Records -> dict, sequences/tuples -> list, sets -> list (tagged), functions -> dict,
strings -> str, integers -> int, TRUE/FALSE -> bool, model values -> str."""
import re

_TOK = re.compile(r'\s*(\|->|:>|@@|<<|>>|\[|\]|\{|\}|\(|\)|,|"(?:[^"\\]|\\.)*"|-?\d+|[A-Za-z_][A-Za-z0-9_!]*)')


def tokenize(s):
    pos, out = 0, []
    n = len(s)
    while pos < n:
        m = _TOK.match(s, pos)
        if not m:
            if s[pos:].strip() == "":
                break
            raise ValueError("cannot tokenize at %r" % s[pos:pos + 40])
        out.append(m.group(1))
        pos = m.end()
    return out


class _P:
    def __init__(self, toks):
        self.t, self.i = toks, 0

    def peek(self):
        return self.t[self.i] if self.i < len(self.t) else None

    def eat(self, x=None):
        tok = self.t[self.i]
        if x is not None and tok != x:
            raise ValueError("expected %s got %s" % (x, tok))
        self.i += 1
        return tok

    def value(self):
        tok = self.peek()
        if tok == "<<":
            self.eat()
            xs = []
            while self.peek() != ">>":
                xs.append(self.value())
                if self.peek() == ",":
                    self.eat()
            self.eat(">>")
            return xs
        if tok == "{":
            self.eat()
            xs = []
            while self.peek() != "}":
                xs.append(self.value())
                if self.peek() == ",":
                    self.eat()
            self.eat("}")
            return {"__set__": xs}
        if tok == "[":
            self.eat()
            d = {}
            while self.peek() != "]":
                k = self.eat()
                self.eat("|->")
                d[k] = self.value()
                if self.peek() == ",":
                    self.eat()
            self.eat("]")
            return d
        if tok == "(":
            self.eat()
            d = {}
            while self.peek() != ")":
                k = self.value()
                self.eat(":>")
                d[k if not isinstance(k, list) else tuple(k)] = self.value()
                if self.peek() == "@@":
                    self.eat()
            self.eat(")")
            return d
        self.eat()
        if tok.startswith('"'):
            return bytes(tok[1:-1], "utf-8").decode("unicode_escape")
        if re.fullmatch(r"-?\d+", tok):
            return int(tok)
        if tok == "TRUE":
            return True
        if tok == "FALSE":
            return False
        return tok


def parse_value(s):
    p = _P(tokenize(s))
    v = p.value()
    return v


_VAR = re.compile(r"^/\\ (\w+) = ", re.M)


def parse_state(block):
    """block: text of one state '/\\ x = ...\n/\\ y = ...' -> dict var -> value"""
    out = {}
    ms = list(_VAR.finditer(block))
    for a, b in zip(ms, ms[1:] + [None]):
        txt = block[a.end(): b.start() if b else len(block)]
        out[a.group(1)] = parse_value(txt)
    return out


def parse_dump(path):
    """TLC -dump file: 'State N:\n/\\ ...' blocks -> list of state dicts"""
    with open(path) as f:
        txt = f.read()
    parts = re.split(r"^State \d+:\s*$", txt, flags=re.M)
    return [parse_state(p) for p in parts if p.strip()]


def parse_sim_trace(path):
    """One file written by -simulate file=...: 'STATE_n == \n/\\ ...' blocks"""
    with open(path) as f:
        txt = f.read()
    parts = re.split(r"^STATE_\d+ ==\s*$", txt, flags=re.M)
    states = []
    for p in parts[1:]:
        p = p.split("\n\n")[0] if "\n\n" in p else p
        states.append(parse_state(p))
    return states

"""The upstream unit tests of xbasic_fixed_string (/repo/test/test_xbasic_fixed_string.cpp) re-expressed as
scripts for harness/fixedstring/driver.cpp ("existing tests with stronger assertions").

Every call an upstream test makes on a fixed string is replayed on the real object, in the order of the
test; the recorded trace (result / exception of every call and the full projection of both objects after
it) is then validated by TLC against specs/FixedString.tla through FixedStringTrace.tla.  So instead of
the few EXPECT_* of a test, every result and every intermediate state of its call sequence is checked.

    scripts() -> [(name, cfg_kwargs, events)]      name = "up-<suite>-<test>"

One execution (Reset event: two fresh empty objects) per upstream block `{ ... }` (tests without blocks are
one execution).  The strings of a test are mapped to the two objects k = 1, k = 2:

 * strings declared outside the blocks of a test (`ref`, `s1`, `s2`, `s3`) are constructed again in every
   execution: the first time that is the test's own constructor call, afterwards it is set-up;
 * a slot is given to the next string once the string it held is not referred to any more (e.g. `s = ref`
   copies out of k = 2, afterwards k = 2 becomes `ins`); where the test declares such a string earlier than
   that, its constructor call is moved behind the last use of its predecessor (REORDERED);
 * std::string / const char* / initializer_list operands are literal sources (sk "str" / "ptr" / "ptrn" /
   "il"); iterator pairs of a std::string or const char* are sk "itv"; `x.c_str()` / `x.data()` / iterators
   of a fixed string used as an argument are an Iterate event on x followed by the call with the literal;
 * size() / length() / empty() / max_size() are in the state logged after every event;
 * EXPECT_THROW(call) is the call: the driver logs the exception class.

What cannot be said in the driver's vocabulary is left out and listed in NOT_EXPRESSIBLE.
"""
from vlib import fixedstring as fx

NPOS, DFLT = fx.NPOS, fx.DFLT

XFS = {"ct": "char", "n": 16, "strlen": 0, "thr": 1}      # upstream string_type: char, 16, buffer | store_size, throwing_error
NPY = {"ct": "char", "n": 16, "strlen": 1, "thr": 1}      # upstream numpy_string: char, 16, buffer, throwing_error
LIM = {"ct": "char", "n": 255, "strlen": 0, "thr": 1}     # the local string_type of TEST(xfixed_string, limit)

# (test, what): calls of the upstream tests that are not in the scripts
NOT_EXPRESSIBLE = [
    ("xfixed_string.move_semantic", "string_type ref2_tmp(ref2) and the later ref2.c_str(): three live strings (s, ref2, ref2_tmp); "
                                    "ref2_tmp is constructed from the literal instead (set-up)"),
    ("xfixed_string.assign", "s.assign({18 characters}) (EXPECT_THROW length_error): the driver builds initializer_lists of 0..10 or 17 elements only"),
    ("xfixed_string.assign", "block 'From rvalue reference': string_type s1_tmp(s1) and the later s1.c_str(): three live strings (s, s1, s1_tmp); "
                             "the object constructed as s1 is the one that is moved from"),
    ("xfixed_string.copy", "ref.copy(dst1.data(), ..) / ref.copy(dst2.data(), ..): the destination is the buffer of another fixed string; replayed with a "
                           "plain destination buffer of the same size and contents, so dst1.c_str() / dst2.c_str() after the copy are left out"),
    ("xfixed_string.compare", "s1.compare(s1), s1.compare(s1.c_str()), s1.compare(2, 3, s1, 2, 3), s1.compare(2, 3, s1.c_str() + 2, 3): the object is its own "
                              "argument - replayed in the separate script up-xfixed_string-self-arguments"),
    ("xfixed_string.replace", "ref.c_str() (6 times, after rep1 was declared): three live strings (s, ref, rep1/rep2/rep3)"),
    ("xfixed_string.find_first_not_of", "ref.find_first_not_of(ref, 4), ref.find_first_not_of(ref.c_str(), 4), ref.find_first_not_of(ref.c_str(), 4, 12): "
                                        "the object is its own argument - replayed in up-xfixed_string-self-arguments"),
    ("xfixed_string.concatenation", "string_type ref = \"operations\" and ref.c_str() (8 times): three live strings (s1, s2, ref)"),
    ("xfixed_string.concatenation", "string_type s1bu = s1, string_type s2bu = s2, s1bu = s1 (3 times), s2bu = s2 (3 times): three / four live strings; "
                                    "the slot of s1 / s2 itself is the rvalue operand and is given its value back afterwards (set-up: assign(ptr, n) to the moved-from object)"),
    ("xfixed_string.comparison_operators", "s1 <= s1, s1 == s1, s1 >= s1 and the same three with s1.c_str() on the left and on the right (9 calls): the object is its own argument - "
                                           "6 of them replayed in up-xfixed_string-self-arguments (s1.c_str() as the LEFT operand has no source kind)"),
    ("xfixed_string.hash", "std::hash<string_type>()(\"test\") != 0: no hash event; the driver logs std::hash of both objects after every event (field h) and the "
                           "trace spec checks that it is a function of the characters only, so the script constructs the temporary the call hashes"),
    ("numpy_string.constructor", "EXPECT_EQ(buf[4], '!'): a read of the caller's memory, not a call (the cells are in the logged field raw); "
                                 "char buf[16] is one cell shorter than the object laid over it, the Overlay event supplies all N + 1 cells"),
    ("xfixed_string.json", "nlohmann::json j1 = s1; j1.get<std::string>(): no json in the driver (the test is compiled with HAVE_NLOHMANN_JSON only)"),
    ("xfixed_string.limit", "static_assert(sizeof(s1) == 256): compile time, no call"),
]

# (test, what): constructor calls that are made later than in the test because both slots were still in use
REORDERED = [
    ("xfixed_string.constructors", "block 'From substring': s3 takes the slot of s2 (s2 is not referred to after s3 is declared)"),
    ("xfixed_string.copy_semantic", "string_type ref2(\"operator=\") is constructed after s(ref) and the reads of ref, in the slot of ref"),
    ("xfixed_string.move_semantic", "ref.c_str() is read before s(std::move(ref_tmp)) is constructed in the slot of ref; ref2 / ref2_tmp after that"),
    ("xfixed_string.assign", "block 'From substring': to_assign(\"constructor\") is constructed after s(ref), in the slot of ref"),
    ("xfixed_string.copy", "dst2 = \"bbbbbb\" is constructed after the first copy, in the slot of dst1"),
    ("xfixed_string.compare", "s3 is constructed in the slot of s2 after the last use of s2 in the block; in the std::string block s3.cbegin() is read then"),
    ("xfixed_string.find_first_of", "sub and sub2 share the slot k = 2: each is constructed again (set-up) before the calls that use it"),
    ("xfixed_string.comparison_operators", "s3 (never used by the test) is constructed before s2, in the slot s2 is then constructed in"),
]


def S(s):
    return [ord(c) for c in s]


class _Script:
    """Builds the events of one script.  held[k]: the upstream name of the string slot k holds (set-up of a
    slot that already holds the wanted string is not repeated)."""

    def __init__(self, test, cfg_kwargs):
        self.test, self.kw = test, cfg_kwargs
        self.cfg = fx.make_cfg(**cfg_kwargs)
        self.events = []
        self.held = [None, None]

    def block(self):
        self.events.append(fx.reset_event(self.cfg))
        self.held = [None, None]
        return self

    def ev(self, op, k, **a):
        self.events.append({"op": op, "k": k, "a": a or {"z": 0}})
        return self

    # ---- construction
    def lit(self, k, text, name=None):
        """string_type x("...") / string_type x = "..."  (constructor from a C string)"""
        self.held[k - 1] = name
        return self.ev("CtorSeq", k, sk="ptr", src=S(text))

    def hold(self, k, text, name):
        """slot k must hold the test's string `name` (value text): construct it unless it is there"""
        if self.held[k - 1] != name:
            self.lit(k, text, name)
        return self

    def copy_of_other(self, k, name=None):
        """string_type x(y) / string_type x = y"""
        self.held[k - 1] = name
        return self.ev("CtorSeq", k, sk="obj", src=[])

    # ---- observers
    def cstr(self, k):
        return self.ev("Iterate", k, kind="cstr")

    def it(self, k, kind):
        return self.ev("Iterate", k, kind=kind)

    def done(self, suffix=""):
        return ("up-" + self.test + suffix, dict(self.kw), self.events)


# ------------------------------------------------------------------ xfixed_string
def t_constructors():
    s = _Script("xfixed_string-constructors", XFS)
    s.block().ev("CtorDefault", 1).cstr(1)                                   # string_type s;
    s.block().ev("CtorFill", 1, n=4, ch=ord("a")).cstr(1)                    # s(4, 'a')
    s.block().lit(1, "constructor").cstr(1)                                  # s(cstr)
    s.block().ev("CtorSeq", 1, sk="ptrn", src=S("construc\0tor")).cstr(1)    # s(cstr, 12) with \0 inside
    s.block().lit(1, "constructor")                                          # s1("constructor")
    s.ev("CtorSub", 2, sk="obj", src=[], pos=1, n=4).cstr(2)                 # s2(s1, 1, 4)
    s.ev("CtorSub", 2, sk="obj", src=[], pos=2, n=45).cstr(2)                # s3(s1, 2, 45)
    s.block().ev("CtorSeq", 1, sk="il", src=S("const")).cstr(1)              # s = {'c','o','n','s','t'}
    s.block().ev("CtorSeq", 1, sk="itv", src=S("constructor")).cstr(1)       # s2(s1.cbegin(), s1.cend()), s1 a std::string
    s.block().ev("CtorSeq", 1, sk="str", src=S("constructor")).cstr(1)       # s2(s1), s1 a std::string
    s.ev("CtorSub", 2, sk="str", src=S("constructor"), pos=1, n=4).cstr(2)   # s3(s1, 1, 4)
    return [s.done()]


def t_copy_semantic():
    s = _Script("xfixed_string-copy_semantic", XFS)
    s.block().lit(2, "constructor", "ref")                                   # ref("constructor")
    s.copy_of_other(1, "s").cstr(1).cstr(2)                                  # s(ref); s.c_str(), ref.c_str()
    s.lit(2, "operator=", "ref2")                                            # ref2("operator=")
    s.ev("AssignSeq", 1, ov="op", sk="obj", src=[]).cstr(1).cstr(2)          # s = ref2; s.c_str(), ref2.c_str()
    return [s.done()]


def t_move_semantic():
    s = _Script("xfixed_string-move_semantic", XFS)
    s.block().lit(2, "constructor", "ref")                                   # ref("constructor")
    s.copy_of_other(1, "ref_tmp")                                            # ref_tmp(ref)
    s.cstr(2)                                                                # ref.c_str()
    s.ev("CtorSeq", 2, sk="objm", src=[]).cstr(2)                            # s(std::move(ref_tmp)); s.c_str()
    s.lit(1, "operator=", "ref2_tmp")                                        # ref2("operator=") standing for ref2_tmp
    s.ev("AssignSeq", 2, ov="op", sk="objm", src=[]).cstr(2)                 # s = std::move(ref2_tmp); s.c_str()
    return [s.done()]


def _s_of_ref(s, text="reference"):
    """outer `string_type ref(text)` in k = 2, then `string_type s(ref)` in k = 1"""
    s.block().lit(2, text, "ref")
    return s.copy_of_other(1, "s")


def t_assign_operator():
    s = _Script("xfixed_string-assign_operator", XFS)
    _s_of_ref(s).ev("AssignSeq", 1, ov="op", sk="ptr", src=S("constructor")).cstr(1)        # s = cstr
    _s_of_ref(s).ev("AssignFill", 1, ov="opch", n=1, ch=ord("b")).cstr(1)                   # s = 'b'
    _s_of_ref(s).ev("AssignSeq", 1, ov="op", sk="il", src=S("const")).cstr(1)               # s = {...}
    _s_of_ref(s).ev("AssignSeq", 1, ov="op", sk="str", src=S("const")).cstr(1)              # s = a (std::string)
    return [s.done()]


def t_assign():
    s = _Script("xfixed_string-assign", XFS)
    _s_of_ref(s).ev("AssignFill", 1, ov="assign", n=4, ch=ord("a")).cstr(1)                 # s.assign(4, 'a')
    s.ev("AssignFill", 1, ov="assign", n=17, ch=ord("a"))                                   # EXPECT_THROW(s.assign(17, 'a'), length_error)
    _s_of_ref(s).lit(2, "constructor", "to_assign")                                         # to_assign("constructor"); s(ref)
    s.ev("AssignSub", 1, sk="obj", src=[], pos=1, n=4).cstr(1)                              # s.assign(to_assign, 1, 4)
    _s_of_ref(s).ev("AssignSeq", 1, ov="assign", sk="ptrn", src=S("construc\0tor")).cstr(1)  # s.assign(cstr, 12)
    s.ev("AssignSeq", 1, ov="assign", sk="ptrn", src=S("abcdefghij\0klmnopq"))              # EXPECT_THROW(s.assign(ctothrow, 18))
    _s_of_ref(s).ev("AssignSeq", 1, ov="assign", sk="ptr", src=S("constructor")).cstr(1)    # s.assign(cstr)
    s.ev("AssignSeq", 1, ov="assign", sk="ptrn", src=S("abcdefghijklmnopq"))                # EXPECT_THROW(s.assign(ctothrow, 17))
    _s_of_ref(s).ev("AssignSeq", 1, ov="assign", sk="il", src=S("const")).cstr(1)           # s.assign({...})
    _s_of_ref(s).ev("AssignSeq", 1, ov="assign", sk="itv", src=S("constructor")).cstr(1)    # s.assign(s1.cbegin(), s1.cend())
    s.ev("AssignSeq", 1, ov="assign", sk="itv", src=S("abcdefghijklmnopq"))                 # EXPECT_THROW(s.assign(ctothrow.cbegin(), ctothrow.cend()))
    _s_of_ref(s).lit(2, "constructor", "s1")                                                # s1 = "constructor"
    s.ev("AssignSeq", 1, ov="assign", sk="obj", src=[]).cstr(1).cstr(2)                     # s.assign(s1); s.c_str(), s1.c_str()
    _s_of_ref(s).lit(2, "constructor", "s1")                                                # s1 = "constructor" (stands for s1_tmp too)
    s.ev("AssignSeq", 1, ov="assign", sk="objm", src=[]).cstr(1)                            # s.assign(std::move(s1_tmp))
    _s_of_ref(s).ev("AssignSeq", 1, ov="assign", sk="str", src=S("constructor")).cstr(1)    # s.assign(s1), s1 a std::string
    s.ev("AssignSub", 1, sk="str", src=S("constructor"), pos=1, n=4).cstr(1)                # s.assign(s1, 1, 4)
    return [s.done()]


def _element_access(s):
    """the common call sequence of xfixed_string.element_access and numpy_string.element_access (k = 1 holds "element_access")"""
    s.ev("Write", 1, path="index", i=2, ch=ord("E")).ev("Index", 1, c=0, i=2).cstr(1)       # s[2] = 'E'; s[2]; c_str()
    s.ev("Write", 1, path="at", i=3, ch=ord("M")).ev("At", 1, c=0, i=3).cstr(1)             # s.at(3) = 'M'; s.at(3)
    s.ev("Write", 1, path="front", i=0, ch=ord("E")).ev("Front", 1, c=0).cstr(1)            # s.front() = 'E'; s.front()
    s.ev("Write", 1, path="back", i=13, ch=ord("S")).ev("Back", 1, c=0).cstr(1)             # s.back() = 'S'; s.back()
    s.ev("At", 1, c=0, i=15)                                                                # EXPECT_THROW(s.at(15), out_of_range)
    return s.it(1, "data").cstr(1)                                                          # s.data(), s.c_str()


def t_element_access():
    s = _Script("xfixed_string-element_access", XFS)
    _element_access(s.block().lit(1, "element_access"))
    return [s.done()]


def _iterator(s):
    """the common call sequence of xfixed_string.iterator and numpy_string.iterator (k = 1 holds "iterator")"""
    s.ev("Write", 1, path="iter", i=0, ch=ord("I")).it(1, "begin").it(1, "cbegin")          # *(s.begin()) = 'I'; *s.begin(); *s.cbegin()
    s.it(1, "begin").it(1, "cbegin")                                                        # the loop from begin() / cbegin() to end() / cend()
    s.ev("Write", 1, path="riter", i=7, ch=ord("R")).it(1, "rbegin").it(1, "crbegin")       # *(s.rbegin()) = 'R'; *s.rbegin(); *s.crbegin()
    return s.it(1, "rbegin").it(1, "crbegin")                                               # the loop from rbegin() / crbegin() to rend() / crend()


def t_iterator():
    s = _Script("xfixed_string-iterator", XFS)
    _iterator(s.block().lit(1, "iterator"))
    return [s.done()]


def t_capacity():
    s = _Script("xfixed_string-capacity", XFS)
    s.block().lit(1, "capacity")                       # size() == length(), empty(), max_size(): in the logged state
    return [s.done()]


def t_clear():
    s = _Script("xfixed_string-clear", XFS)
    s.block().lit(1, "capacity").ev("Clear", 1).cstr(1)
    return [s.done()]


def t_push_back():
    s = _Script("xfixed_string-push_back", XFS)
    s.block().lit(1, "operation").ev("PushBack", 1, ov="push_back", ch=ord("s")).cstr(1)
    return [s.done()]


def t_pop_back():
    # the upstream test of this name calls push_back only
    s = _Script("xfixed_string-pop_back", XFS)
    s.block().lit(1, "operation").ev("PushBack", 1, ov="push_back", ch=ord("s")).cstr(1)
    return [s.done()]


def t_substr():
    s = _Script("xfixed_string-substr", XFS)
    s.block().lit(1, "operation")
    s.ev("Substr", 1, pos=2, n=5)                      # s1 = ref.substr(2, 5)   (the returned string, terminator included, is the result)
    s.ev("Substr", 1, pos=2, n=45)                     # s2 = ref.substr(2, 45)
    s.ev("Substr", 1, pos=15, n=4)                     # EXPECT_THROW(ref.substr(15, 4), out_of_range)
    return [s.done()]


def t_copy():
    s = _Script("xfixed_string-copy", XFS)
    s.block().lit(1, "operation", "ref").lit(2, "aaaa", "dst1")
    s.it(2, "data").ev("Copy", 1, n=4, pos=2, dn=4, fill=ord("a"))          # ref.copy(dst1.data(), 4, 2)
    s.lit(2, "bbbbbb", "dst2")
    s.it(2, "data").ev("Copy", 1, n=45, pos=3, dn=6, fill=ord("b"))         # ref.copy(dst2.data(), 45, 3)
    s.it(2, "data").ev("Copy", 1, n=4, pos=15, dn=6, fill=ord("b"))         # EXPECT_THROW(ref.copy(dst2.data(), 4, 15), out_of_range)
    return [s.done()]


def t_resize():
    s = _Script("xfixed_string-resize", XFS)
    s.block().lit(1, "operation", "s1").copy_of_other(2, "s2")              # s1 = "operation"; s2 = s1
    s.ev("Resize2", 2, n=11, ch=ord("a")).cstr(2)                           # s2.resize(11, 'a')
    # s1.resize(11) grows the string with the one-argument overload: open known finding (pads with ' ', not CharT())
    g = _Script("xfixed_string-resize", XFS)
    g.block().lit(1, "operation", "s1").ev("Resize1", 1, n=11)              # s1.resize(11)
    return [s.done(), g.done("-resize1grow")]


def t_swap():
    s = _Script("xfixed_string-swap", XFS)
    s.block().lit(1, "operation", "s1").lit(2, "swap", "s2")
    s.ev("Swap", 1, ov="member").cstr(1).cstr(2)                            # s1.swap(s2)
    s.ev("Swap", 1, ov="free").cstr(1).cstr(2)                              # using std::swap; swap(s1, s2)
    return [s.done()]


def t_insert():
    s = _Script("xfixed_string-insert", XFS)
    R = "operation"
    _s_of_ref(s, R).ev("InsertFill", 1, idx=3, n=2, ch=ord("a")).cstr(1)                    # s.insert(3, 2, 'a')
    s.ev("InsertFill", 1, idx=45, n=2, ch=ord("b"))                                         # EXPECT_THROW(s.insert(45, 2, 'b'), out_of_range)
    _s_of_ref(s, R).ev("InsertSeq", 1, idx=3, sk="ptr", src=S("bb")).cstr(1)                # s.insert(3, "bb")
    s.ev("InsertSeq", 1, idx=45, sk="ptr", src=S("bb"))
    _s_of_ref(s, R).ev("InsertSeq", 1, idx=3, sk="ptrn", src=S("b\0b")).cstr(1)             # s.insert(3, "b\0b", 3)
    s.ev("InsertSeq", 1, idx=45, sk="ptrn", src=S("b\0b"))
    _s_of_ref(s, R).lit(2, "aa", "ins")                                                     # ins = "aa"
    s.ev("InsertSeq", 1, idx=3, sk="obj", src=[]).cstr(1)                                   # s.insert(3, ins)
    s.ev("InsertSeq", 1, idx=45, sk="obj", src=[])
    _s_of_ref(s, R).lit(2, "abcdefgh", "ins")                                               # ins = "abcdefgh"
    s.ev("InsertSub", 1, idx=3, sk="obj", src=[], pos=2, n=2).cstr(1)                       # s.insert(3, ins, 2, 2)
    s.ev("InsertSub", 1, idx=3, sk="obj", src=[], pos=5, n=15).cstr(1)                      # s.insert(3, ins, 5, 15)
    s.ev("InsertSub", 1, idx=45, sk="obj", src=[], pos=2, n=2)
    _s_of_ref(s, R).ev("InsertSeq", 1, idx=3, sk="str", src=S("aa")).cstr(1)                # s.insert(3, ins), ins a std::string
    s.ev("InsertSeq", 1, idx=45, sk="str", src=S("aa"))
    _s_of_ref(s, R).ev("InsertSub", 1, idx=3, sk="str", src=S("abcdefgh"), pos=2, n=2).cstr(1)
    s.ev("InsertSub", 1, idx=3, sk="str", src=S("abcdefgh"), pos=5, n=15).cstr(1)
    s.ev("InsertSub", 1, idx=45, sk="str", src=S("abcdefgh"), pos=2, n=2)
    _s_of_ref(s, R).ev("InsertIt", 1, ov="ch", it=3, n=1, ch=ord("b")).cstr(1)              # s.insert(s.begin() + 3, 'b')
    _s_of_ref(s, R).ev("InsertIt", 1, ov="fill", it=3, n=2, ch=ord("b")).cstr(1)            # s.insert(s.begin() + 3, 2, 'b')
    _s_of_ref(s, R).ev("InsertItSeq", 1, it=3, sk="il", src=S("abc")).cstr(1)               # s.insert(s.begin() + 3, {'a','b','c'})
    _s_of_ref(s, R).lit(2, "insert", "ins").it(2, "cbegin")                                 # ins = "insert"; ins.cbegin()
    s.ev("InsertItSeq", 1, it=3, sk="itv", src=S("se")).cstr(1)                             # s.insert(s.begin() + 3, ins.cbegin() + 2, ins.cbegin() + 4)
    return [s.done()]


def t_erase():
    s = _Script("xfixed_string-erase", XFS)
    R = "operation"
    _s_of_ref(s, R).ev("Erase", 1, idx=2, n=2).cstr(1)                      # s.erase(2, 2)
    s.ev("Erase", 1, idx=DFLT, n=DFLT).cstr(1)                              # s.erase()
    _s_of_ref(s, R).ev("EraseIt", 1, it=2).cstr(1)                          # s.erase(s.cbegin() + 2)
    _s_of_ref(s, R).ev("EraseRange", 1, f=2, l=4).cstr(1)                   # s.erase(s.cbegin() + 2, s.cbegin() + 4)
    return [s.done()]


def t_append():
    s = _Script("xfixed_string-append", XFS)
    R = "operation"
    _s_of_ref(s, R).ev("AppendFill", 1, n=2, ch=ord("a")).cstr(1)                           # s.append(2, 'a')
    s.ev("AppendFill", 1, n=15, ch=ord("a"))                                                # EXPECT_THROW(s.append(15, 'a'), length_error)
    _s_of_ref(s, R).lit(2, "abc", "ap")
    s.ev("AppendSeq", 1, ov="append", sk="obj", src=[]).cstr(1)                             # s.append(ap)
    s.lit(2, "operation", "tmp").ev("AppendSeq", 1, ov="append", sk="obj", src=[])          # EXPECT_THROW(s.append(string_type("operation")))
    _s_of_ref(s, R).lit(2, "abc", "ap")
    s.ev("AppendSub", 1, sk="obj", src=[], pos=1, n=2).cstr(1)                              # s.append(ap, 1, 2)
    s.ev("AppendSub", 1, sk="obj", src=[], pos=1, n=15).cstr(1)                             # s.append(ap, 1, 15)
    _s_of_ref(s, R).ev("AppendSeq", 1, ov="append", sk="str", src=S("abc")).cstr(1)         # s.append(ap), ap a std::string
    s.lit(2, "operation", "tmp").ev("AppendSeq", 1, ov="append", sk="obj", src=[])          # EXPECT_THROW(s.append(string_type("operation")))
    _s_of_ref(s, R).ev("AppendSub", 1, sk="str", src=S("abc"), pos=1, n=2).cstr(1)
    s.ev("AppendSub", 1, sk="str", src=S("abc"), pos=1, n=15).cstr(1)
    _s_of_ref(s, R).ev("AppendSeq", 1, ov="append", sk="ptrn", src=S("ab\0cde")).cstr(1)    # s.append("ab\0cde", 6)
    _s_of_ref(s, R).ev("AppendSeq", 1, ov="append", sk="ptr", src=S("ab")).cstr(1)          # s.append("ab\0cde"): the C string is "ab"
    _s_of_ref(s, R).ev("AppendSeq", 1, ov="append", sk="il", src=S("abc")).cstr(1)          # s.append({'a','b','c'})
    _s_of_ref(s, R).ev("AppendSeq", 1, ov="append", sk="itv", src=S("ppen")).cstr(1)        # s.append(ap.cbegin() + 1, ap.cbegin() + 5), ap = "append"
    return [s.done()]


def t_operator_append():
    s = _Script("xfixed_string-operator_append", XFS)
    R = "operation"
    _s_of_ref(s, R).lit(2, "abc", "ap")
    s.ev("AppendSeq", 1, ov="op", sk="obj", src=[]).cstr(1)                                 # s += ap
    _s_of_ref(s, R).ev("AppendSeq", 1, ov="op", sk="str", src=S("abc")).cstr(1)             # s += ap (std::string)
    _s_of_ref(s, R).ev("PushBack", 1, ov="opch", ch=ord("a")).cstr(1)                       # s += 'a'
    _s_of_ref(s, R).ev("AppendSeq", 1, ov="op", sk="ptr", src=S("ab")).cstr(1)              # s += "ab"
    _s_of_ref(s, R).ev("AppendSeq", 1, ov="op", sk="il", src=S("abc")).cstr(1)              # s += {'a','b','c'}
    return [s.done()]


S1, S2, S3 = "aabcdef", "abcdefg", "aabcd"


def t_compare():
    s = _Script("xfixed_string-compare", XFS)
    cmp0 = lambda k: s.ev("Compare", k, sk="obj", src=[])
    # compare(const self_type&)
    s.block().hold(1, S1, "s1").hold(2, S2, "s2")
    cmp0(1)                                                                                 # s1.compare(s2)
    cmp0(2)                                                                                 # s2.compare(s1)
    s.hold(2, S3, "s3")
    cmp0(1)                                                                                 # s1.compare(s3)
    cmp0(2)                                                                                 # s3.compare(s1)
    # compare(const_pointer)
    s.block().hold(1, S1, "s1").hold(2, S2, "s2")
    s.cstr(2).ev("Compare", 1, sk="ptr", src=S(S2))                                         # s1.compare(s2.c_str())
    s.cstr(1).ev("Compare", 2, sk="ptr", src=S(S1))                                         # s2.compare(s1.c_str())
    s.hold(2, S3, "s3")
    s.cstr(2).ev("Compare", 1, sk="ptr", src=S(S3))                                         # s1.compare(s3.c_str())
    s.cstr(1).ev("Compare", 2, sk="ptr", src=S(S1))                                         # s3.compare(s1.c_str())
    # compare(pos1, count1, const self_type&)
    s.block().hold(1, S2, "s2").hold(2, S3, "s3")
    s.ev("Compare1", 1, pos1=0, n1=5, sk="obj", src=[])                                     # s2.compare(0, 5, s3)
    s.hold(1, S1, "s1")
    s.ev("Compare1", 1, pos1=0, n1=5, sk="obj", src=[])                                     # s1.compare(0, 5, s3)
    # compare(pos1, count1, const_pointer)
    s.block().hold(1, S2, "s2").hold(2, S3, "s3")
    s.cstr(2).ev("Compare1", 1, pos1=0, n1=5, sk="ptr", src=S(S3))                          # s2.compare(0, 5, s3.c_str())
    s.hold(1, S1, "s1")
    s.cstr(2).ev("Compare1", 1, pos1=0, n1=5, sk="ptr", src=S(S3))                          # s1.compare(0, 5, s3.c_str())
    # compare(pos1, count1, const self_type&, pos2, count2)
    s.block().hold(1, S1, "s1").hold(2, S2, "s2")
    s.ev("Compare2", 1, pos1=2, n1=3, sk="obj", src=[], pos2=2, n2=3)                       # s1.compare(2, 3, s2, 2, 3)
    s.ev("Compare2", 2, pos1=2, n1=3, sk="obj", src=[], pos2=2, n2=3)                       # s2.compare(2, 3, s1, 2, 3)
    s.hold(2, S3, "s3")
    s.ev("Compare2", 1, pos1=2, n1=3, sk="obj", src=[], pos2=1, n2=2)                       # s1.compare(2, 3, s3, 1, 2)
    s.ev("Compare2", 2, pos1=1, n1=2, sk="obj", src=[], pos2=2, n2=3)                       # s3.compare(1, 2, s1, 2, 3)
    # compare(pos1, count1, const_pointer, count2)
    s.block().hold(1, S1, "s1").hold(2, S2, "s2")
    s.cstr(2).ev("Compare1", 1, pos1=2, n1=3, sk="ptrn", src=S(S2[2:5]))                    # s1.compare(2, 3, s2.c_str() + 2, 3)
    s.cstr(1).ev("Compare1", 2, pos1=2, n1=3, sk="ptrn", src=S(S1[2:5]))                    # s2.compare(2, 3, s1.c_str() + 2, 3)
    s.hold(2, S3, "s3")
    s.cstr(2).ev("Compare1", 1, pos1=2, n1=3, sk="ptrn", src=S(S3[1:3]))                    # s1.compare(2, 3, s3.c_str() + 1, 2)
    s.cstr(1).ev("Compare1", 2, pos1=1, n1=2, sk="ptrn", src=S(S1[2:5]))                    # s3.compare(1, 2, s1.c_str() + 2, 3)
    # compare(const std::string&)
    s.block().hold(1, S1, "s1").hold(2, S2, "s2")
    s.it(1, "cbegin").it(2, "cbegin")                                                       # str1(s1.cbegin(), s1.cend()); str2(...)
    s.ev("Compare", 1, sk="str", src=S(S2))                                                 # s1.compare(str2)
    s.ev("Compare", 1, sk="str", src=S(S1))                                                 # s1.compare(str1)
    s.ev("Compare", 2, sk="str", src=S(S1))                                                 # s2.compare(str1)
    s.hold(2, S3, "s3").it(2, "cbegin")                                                     # str3(s3.cbegin(), s3.cend())
    s.ev("Compare", 1, sk="str", src=S(S3))                                                 # s1.compare(str3)
    s.ev("Compare", 2, sk="str", src=S(S1))                                                 # s3.compare(str1)
    return [s.done()]


def t_replace():
    s = _Script("xfixed_string-replace", XFS)
    _s_of_ref(s, "replace")                                                                 # ref = "replace"; s = ref
    s.lit(2, "abc", "rep1").ev("Replace", 1, pos=1, n=4, sk="obj", src=[]).cstr(1)          # s.replace(1, 4, rep1)              "rabcce"
    s.lit(2, "epla", "rep2").ev("ReplaceIt", 1, f=1, l=4, sk="obj", src=[]).cstr(1)         # s.replace(cbegin+1, cbegin+4, rep2) "replace"
    s.lit(2, "operation", "rep3")
    s.ev("ReplaceSub", 1, pos=2, n=2, sk="obj", src=[], pos2=3, n2=4).cstr(1)               # s.replace(2, 2, rep3, 3, 4)        "reratiace"
    s.ev("Replace", 1, pos=2, n=4, sk="ptrn", src=S("pl")).cstr(1)                          # s.replace(2, 4, rep4, 2), rep4 = "plabc"
    s.cstr(2).ev("ReplaceIt", 1, f=2, l=4, sk="ptrn", src=S("rati")).cstr(1)                # s.replace(cbegin+2, cbegin+4, rep3.c_str() + 3, 4)
    s.ev("Replace", 1, pos=2, n=4, sk="ptr", src=S("pl")).cstr(1)                           # s.replace(2, 4, rep5)
    s.ev("ReplaceIt", 1, f=2, l=4, sk="ptr", src=S("plabc")).cstr(1)                        # s.replace(cbegin+2, cbegin+4, rep4) "replabcace"
    s.ev("ReplaceFill", 1, pos=2, n=5, n2=3, ch=ord("c")).cstr(1)                           # s.replace(2, 5, 3, 'c')            "recccace"
    s.ev("ReplaceItFill", 1, f=2, l=5, n2=2, ch=ord("b")).cstr(1)                           # s.replace(cbegin+2, cbegin+5, 2, 'b') "rebbace"
    s.ev("ReplaceIt", 1, f=2, l=4, sk="il", src=S("pl")).cstr(1)                            # s.replace(cbegin+2, cbegin+4, {'p','l'})
    s.ev("ReplaceIt", 1, f=2, l=4, sk="itv", src=S("ab")).cstr(1)                           # s.replace(cbegin+2, cbegin+4, rep4 + 2, rep4 + 4) "reabace"
    s.ev("Replace", 1, pos=2, n=2, sk="str", src=S("pl")).cstr(1)                           # s.replace(2, 2, rep6)
    s.ev("ReplaceIt", 1, f=2, l=4, sk="str", src=S("zyx")).cstr(1)                          # s.replace(cbegin+2, cbegin+4, rep7) "rezyxace"
    s.ev("ReplaceSub", 1, pos=2, n=3, sk="str", src=S("epla"), pos2=1, n2=2).cstr(1)        # s.replace(2, 3, rep8, 1, 2)        "replace"
    return [s.done()]


def _find(s):
    """the common call sequence of xfixed_string.find and numpy_string.find"""
    sub = "tionf"
    s.block().lit(1, "operationftionf", "ref").lit(2, sub, "sub")
    f = lambda **a: s.ev("Find", 1, fam="find", **a)
    f(sk="obj", src=[], pos=2)
    f(sk="obj", src=[], pos=11)
    s.cstr(2); f(sk="ptrn", src=S(sub[:3]), pos=2)                          # ref.find(sub.c_str(), 2, 3)
    s.cstr(2); f(sk="ptrn", src=S(sub[:3]), pos=11)
    s.cstr(2); f(sk="ptr", src=S(sub), pos=2)                               # ref.find(sub.c_str(), 2)
    s.cstr(2); f(sk="ptr", src=S(sub), pos=11)
    f(sk="ch", src=S("a"), pos=2)
    f(sk="ch", src=S("a"), pos=8)
    s.it(2, "cbegin")                                                       # std::string ssub(sub.cbegin(), sub.cend())
    f(sk="str", src=S(sub), pos=2)
    f(sk="str", src=S(sub), pos=11)
    return s


def t_find():
    return [_find(_Script("xfixed_string-find", XFS)).done()]


def t_rfind():
    s = _Script("xfixed_string-rfind", XFS)
    sub = "erat"
    s.block().lit(1, "operateration", "ref").lit(2, sub, "sub")
    f = lambda **a: s.ev("Find", 1, fam="rfind", **a)
    f(sk="obj", src=[], pos=12)
    f(sk="obj", src=[], pos=1)
    s.cstr(2); f(sk="ptrn", src=S(sub[:3]), pos=12)
    s.cstr(2); f(sk="ptrn", src=S(sub[:3]), pos=1)
    s.cstr(2); f(sk="ptr", src=S(sub), pos=12)
    s.cstr(2); f(sk="ptr", src=S(sub), pos=1)
    f(sk="ch", src=S("a"), pos=DFLT)                                        # ref.rfind('a')
    f(sk="ch", src=S("a"), pos=2)
    s.it(2, "cbegin")
    f(sk="str", src=S(sub), pos=12)
    f(sk="str", src=S(sub), pos=1)
    return [s.done()]


def t_find_first_of():
    s = _Script("xfixed_string-find_first_of", XFS)
    sub, sub2 = "Good Bye!", "eo"
    s.block().lit(1, "Hello World!", "ref")
    f = lambda **a: s.ev("Find", 1, fam="ffo", **a)
    s.hold(2, sub, "sub")
    f(sk="obj", src=[], pos=1)
    f(sk="obj", src=[], pos=3)
    s.hold(2, sub2, "sub2")
    f(sk="obj", src=[], pos=8)
    s.hold(2, sub, "sub")
    s.cstr(2); f(sk="ptr", src=S(sub), pos=1)
    s.cstr(2); f(sk="ptr", src=S(sub), pos=3)
    s.hold(2, sub2, "sub2")
    s.cstr(2); f(sk="ptr", src=S(sub2), pos=8)
    s.hold(2, sub, "sub")
    s.cstr(2); f(sk="ptrn", src=S(sub[:4]), pos=1)
    s.cstr(2); f(sk="ptrn", src=S(sub[:4]), pos=5)
    s.hold(2, sub2, "sub2")
    s.cstr(2); f(sk="ptrn", src=S(sub2[:2]), pos=8)
    f(sk="ch", src=S("o"), pos=2)
    f(sk="ch", src=S("o"), pos=5)
    f(sk="ch", src=S("o"), pos=8)
    f(sk="str", src=S(sub), pos=1)
    f(sk="str", src=S(sub), pos=3)
    f(sk="str", src=S(sub2), pos=8)
    return [s.done()]


def t_find_first_not_of():
    s = _Script("xfixed_string-find_first_not_of", XFS)
    sub = "eo"
    s.block().lit(1, "Hello World!", "ref").lit(2, sub, "sub")
    f = lambda **a: s.ev("Find", 1, fam="ffno", **a)
    f(sk="obj", src=[], pos=1)
    f(sk="obj", src=[], pos=4)
    s.cstr(2); f(sk="ptr", src=S(sub), pos=1)
    s.cstr(2); f(sk="ptr", src=S(sub), pos=4)
    s.cstr(2); f(sk="ptrn", src=S(sub[:2]), pos=1)
    s.cstr(2); f(sk="ptrn", src=S(sub[:2]), pos=4)
    f(sk="ch", src=S("l"), pos=2)
    f(sk="str", src=S(sub), pos=1)
    f(sk="str", src=S(sub), pos=4)
    return [s.done()]


def t_find_last_of():
    s = _Script("xfixed_string-find_last_of", XFS)
    sub = "/f"
    s.block().lit(1, "path/to/file", "ref").lit(2, sub, "sub")
    f = lambda **a: s.ev("Find", 1, fam="flo", **a)
    for p in (11, 6, 3):
        f(sk="obj", src=[], pos=p)
    for p in (11, 6, 3):
        s.cstr(2); f(sk="ptr", src=S(sub), pos=p)
    for p in (11, 6, 3):
        s.cstr(2); f(sk="ptrn", src=S(sub[:2]), pos=p)
    for p in (11, 6, 3):
        f(sk="ch", src=S("/"), pos=p)
    for p in (11, 6, 3):
        f(sk="str", src=S(sub), pos=p)
    return [s.done()]


def t_find_last_not_of():
    s = _Script("xfixed_string-find_last_not_of", XFS)
    sub = "/f"
    s.block().lit(1, "path/to/file", "ref").lit(2, sub, "sub")
    f = lambda **a: s.ev("Find", 1, fam="flno", **a)
    for p in (11, 4):
        f(sk="obj", src=[], pos=p)
    for p in (11, 4):
        s.cstr(2); f(sk="ptr", src=S(sub), pos=p)
    for p in (11, 4):
        s.cstr(2); f(sk="ptrn", src=S(sub[:2]), pos=p)
    for p in (11, 4):
        f(sk="ch", src=S("/"), pos=p)
    for p in (11, 4):
        f(sk="str", src=S(sub), pos=p)
    return [s.done()]


def t_concatenation():
    s = _Script("xfixed_string-concatenation", XFS)
    A, B = "opera", "tions"
    s.block().lit(1, A, "s1").lit(2, B, "s2")
    back1 = lambda: s.ev("AssignSeq", 1, ov="assign", sk="ptrn", src=S(A))     # set-up: the moved-from slot holds "opera" again
    back2 = lambda: s.ev("AssignSeq", 2, ov="assign", sk="ptrn", src=S(B))
    s.ev("Concat", 1, lk="self", rk="obj", src=[])                             # res1 = s1 + s2
    s.cstr(2).ev("Concat", 1, lk="self", rk="ptr", src=S(B))                   # res2 = s1 + s2.c_str()
    s.ev("Concat", 1, lk="self", rk="ch", src=S("b"))                          # res3 = s1 + 'b'
    s.cstr(1).ev("Concat", 1, lk="ptr", rk="obj", src=S(A))                    # res4 = s1.c_str() + s2
    s.ev("Concat", 2, lk="ch", rk="obj", src=S("v"))                           # res5 = 'v' + s1
    s.ev("Concat", 1, lk="selfm", rk="obj", src=[]); back1()                   # res6 = std::move(s1bu) + s2
    s.ev("Concat", 1, lk="self", rk="objm", src=[]); back2()                   # res7 = s1 + std::move(s2bu)
    s.ev("Concat", 1, lk="selfm", rk="objm", src=[]); back1(); back2()         # res8 = std::move(s1bu) + std::move(s2bu)
    s.cstr(2).ev("Concat", 1, lk="selfm", rk="ptr", src=S(B)); back1()         # res9 = std::move(s1bu) + s2.c_str()
    s.ev("Concat", 1, lk="selfm", rk="ch", src=S("b")); back1()                # res10 = std::move(s1bu) + 'b'
    s.cstr(1).ev("Concat", 1, lk="ptr", rk="objm", src=S(A)); back2()          # res11 = s1.c_str() + std::move(s2bu)
    s.ev("Concat", 1, lk="ch", rk="objm", src=S("b"))                          # res12 = 'b' + std::move(s2bu)
    return [s.done()]


def t_comparison_operators():
    s = _Script("xfixed_string-comparison_operators", XFS)
    s.block().lit(1, S1, "s1").lit(2, S3, "s3").lit(2, S2, "s2")
    rel = lambda k, rop, sk, src: s.ev("Rel", k, rop=rop, sk=sk, src=src)
    rel(1, "lt", "obj", []); rel(1, "le", "obj", [])                           # s1 < s2, s1 <= s2
    rel(2, "gt", "obj", []); rel(2, "ge", "obj", [])                           # s2 > s1, s2 >= s1
    s.cstr(1); rel(2, "lt", "ptrL", S(S1))                                     # s1.c_str() < s2
    s.cstr(1); rel(2, "le", "ptrL", S(S1))                                     # s1.c_str() <= s2
    s.cstr(2); rel(1, "gt", "ptrL", S(S2))                                     # s2.c_str() > s1
    s.cstr(2); rel(1, "ge", "ptrL", S(S2))                                     # s2.c_str() >= s1
    s.cstr(2); rel(1, "lt", "ptr", S(S2))                                      # s1 < s2.c_str()
    s.cstr(2); rel(1, "le", "ptr", S(S2))                                      # s1 <= s2.c_str()
    s.cstr(1); rel(2, "gt", "ptr", S(S1))                                      # s2 > s1.c_str()
    s.cstr(1); rel(2, "ge", "ptr", S(S1))                                      # s2 >= s1.c_str()
    rel(1, "lt", "str", S(S2)); rel(1, "le", "str", S(S2))                     # s1 < ss2, s1 <= ss2
    rel(1, "le", "str", S(S1)); rel(1, "eq", "str", S(S1)); rel(1, "ge", "str", S(S1))      # s1 <= ss1, s1 == ss1, s1 >= ss1
    rel(2, "gt", "str", S(S1)); rel(2, "ge", "str", S(S1))                     # s2 > ss1, s2 >= ss1
    return [s.done()]


def t_input_output():
    s = _Script("xfixed_string-input_output", XFS)
    T = "input_output"
    s.block().lit(1, T, "ref").ev("CtorDefault", 2)                            # ref = "input_output"; string_type res;
    s.ev("StreamIn", 2, text=S(T)).cstr(1).cstr(2)                             # iss >> res; ref.c_str(), res.c_str()
    s.ev("StreamOut", 1).cstr(1)                                               # oss << ref; ref.c_str()
    return [s.done()]


def t_hash():
    s = _Script("xfixed_string-hash", XFS)
    s.block().lit(1, "test")                                                   # the string_type temporary of h("test")
    return [s.done()]


def t_limit():
    s = _Script("xfixed_string-limit", LIM)
    s.block().lit(1, "hello")                                                  # xbasic_fixed_string<char, 255, ...> s1 = "hello"
    return [s.done()]


# ------------------------------------------------------------------ numpy_string
def _cells(text, n=16):
    """caller memory an N = 16 numpy string is laid over: the C string, its terminator, zeros"""
    return S(text) + [0] * (n + 1 - len(text))


def t_np_constructor():
    s = _Script("numpy_string-constructor", NPY)
    T = "thisisatest"
    s.block().ev("Overlay", 1, cells=_cells(T))                                # strcpy(buf, s.c_str()); x = reinterpret_cast<numpy_string*>(buf)
    s.ev("Rel", 1, rop="eq", sk="str", src=S(T))                               # *x == s
    s.ev("Write", 1, path="index", i=4, ch=ord("!"))                           # (*x)[4] = '!'
    s.ev("Rel", 1, rop="eq", sk="ptrL", src=S("this!satest"))                  # buf == *x
    return [s.done()]


def t_np_element_access():
    s = _Script("numpy_string-element_access", NPY)
    _element_access(s.block().ev("Overlay", 1, cells=_cells("element_access")))     # char buf[16] = "element_access"; s = *reinterpret_cast<numpy_string*>(buf)
    s.it(1, "data")                                                            # EXPECT_STREQ(s.data(), buf)
    return [s.done()]


def t_np_iterator():
    s = _Script("numpy_string-iterator", NPY)
    _iterator(s.block().lit(1, "iterator"))
    return [s.done()]


def t_np_find():
    return [_find(_Script("numpy_string-find", NPY)).done()]


_TESTS = [t_constructors, t_copy_semantic, t_move_semantic, t_assign_operator, t_assign, t_element_access, t_iterator, t_capacity,
          t_clear, t_push_back, t_pop_back, t_substr, t_copy, t_resize, t_swap, t_insert, t_erase, t_append, t_operator_append,
          t_compare, t_replace, t_find, t_rfind, t_find_first_of, t_find_first_not_of, t_find_last_of, t_find_last_not_of,
          t_concatenation, t_comparison_operators, t_input_output, t_hash, t_np_constructor, t_np_element_access, t_np_iterator,
          t_np_find, t_limit]


def t_self_arguments():
    """The calls of the upstream tests in which the string is its own argument (listed in NOT_EXPRESSIBLE when the
    driver had no aliasing source kinds): compare, find_first_not_of, comparison_operators.  sk "self" = the object
    itself, "selfz" = its c_str() + off, "selfp" = its c_str() + off with a count."""
    s = _Script("xfixed_string-self-arguments", XFS)
    s.block().hold(1, S1, "s1").hold(2, S2, "s2")
    s.ev("Compare", 1, sk="self", src=[])                                                   # s1.compare(s1)
    s.ev("Compare", 1, sk="selfz", src=[0])                                                 # s1.compare(s1.c_str())
    s.ev("Compare2", 1, pos1=2, n1=3, sk="self", src=[], pos2=2, n2=3)                      # s1.compare(2, 3, s1, 2, 3)
    s.ev("Compare1", 1, pos1=2, n1=3, sk="selfp", src=[2, 3])                               # s1.compare(2, 3, s1.c_str() + 2, 3)
    for rop in ("le", "eq", "ge"):
        s.ev("Rel", 1, rop=rop, sk="self", src=[])                                          # s1 <= s1, s1 == s1, s1 >= s1
    for rop in ("le", "eq", "ge"):
        s.ev("Rel", 1, rop=rop, sk="selfz", src=[0])                                        # s1 <= s1.c_str(), ==, >=
    s.block().lit(1, "Hello World!", "ref")
    s.ev("Find", 1, fam="ffno", sk="self", src=[], pos=4)                                   # ref.find_first_not_of(ref, 4)
    s.ev("Find", 1, fam="ffno", sk="selfz", src=[0], pos=4)                                 # ref.find_first_not_of(ref.c_str(), 4)
    s.ev("Find", 1, fam="ffno", sk="selfp", src=[0, 12], pos=4)                             # ref.find_first_not_of(ref.c_str(), 4, 12)
    return [s.done()]


def scripts():
    """[(name, cfg_kwargs, events)] in the order of the upstream file; the script whose name ends with
    "-resize1grow" holds the one call of the upstream tests that is an open known finding."""
    out = []
    for t in _TESTS:
        out.extend(t())
    out.extend(t_self_arguments())
    return out

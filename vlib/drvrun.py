"""Running a script-driven conformance driver so that nothing the code under test does can abort the check
(used by C03 and C11).

The driver reads one call per line and answers one line per call.  When it dies (crash, sanitizer report,
per-call CPU limit, uncaught exception) the harness's handlers have flushed the complete lines and written a
`{"op":"Crash","why":..}` line.  This runner
  * replaces that line by a Crash event that records the call the driver died in (so a replay can repeat it),
  * starts the driver again at the next Reset event of the script (the remaining executions are not lost),
  * gives up on a script after `max_restarts` crashes (the tree has then been reported often enough).
No spec action is called Crash, so TLC rejects the trace at that event - unless an earlier event of the same
execution already deviates, in which case that one is rejected and reported.
Exit status 3 of the driver means "the script itself is wrong" and is a machinery error."""
import json, os, subprocess
from vlib import core
from vlib.core import MachineryError


def write_script(path, lines):
    with open(path, "w") as f:
        for l in lines:
            f.write(json.dumps(l, separators=(",", ":")) + "\n")


def run_script(ctx, argv, lines, trace_path, name="script", max_restarts=40, timeout=3600, env=None, max_hangs=3):
    """argv: driver command line; lines: list of event dicts; trace_path: where the ndjson trace goes.
    Returns the number of times the driver had to be restarted."""
    e = dict(os.environ); e.update(core.ASAN_ENV)
    if env:
        e.update(env)
    out_lines, pos, restarts, hangs = [], 0, 0, 0
    base = trace_path[:-7] if trace_path.endswith(".ndjson") else trace_path
    while pos < len(lines):
        chunk = lines[pos:]
        sp = "%s.part%d.script" % (base, restarts) if restarts else base + ".script"
        write_script(sp, chunk)
        op = sp + ".out"
        with open(sp) as fin, open(op, "w") as fout:
            try:
                p = subprocess.run(argv, stdin=fin, stdout=fout, stderr=subprocess.PIPE, env=e, timeout=timeout)
            except subprocess.TimeoutExpired:
                raise MachineryError("driver %s did not finish %s within %ss (its per-call CPU limit did not fire)" % (argv[0], sp, timeout))
        err = p.stderr.decode(errors="replace")
        if p.returncode == 3:
            raise MachineryError("harness rejected script %s: %s" % (sp, err[-500:]))
        with open(op) as f:
            got = [l for l in (x.strip() for x in f) if l]
        why = None
        if got and got[-1].startswith('{"op":"Crash"'):
            try:
                why = json.loads(got.pop()).get("why", "?")
            except Exception:
                why = "?"
        good = [l for l in got if l.endswith("}")]
        out_lines.extend(good)
        if len(good) >= len(chunk) and why is None:
            break
        if why is None:
            why = "exit status %s without a Crash event" % p.returncode
        at = min(len(good), len(chunk) - 1)
        during = chunk[at]
        out_lines.append(json.dumps({"op": "Crash", "k": during.get("k", 1),
                                     "a": {"why": why, "during": during, "stderr": err[:300].replace("\n", " | ")}},
                                    separators=(",", ":")))
        pos = next((i for i in range(pos + at + 1, len(lines)) if lines[i].get("op") == "Reset"), len(lines))
        restarts += 1
        if why == "cpu-limit":
            hangs += 1
            ctx.notes["_hangs_total"] = ctx.notes.get("_hangs_total", 0) + 1
        # calls that never return are expensive: three per script, and once the whole run has seen six, one per script
        if restarts > max_restarts or hangs >= (max_hangs if ctx.notes.get("_hangs_total", 0) < 6 else 1):
            ctx.notes.setdefault("scripts_cut_short_after_many_crashes", []).append(name)
            break
    with open(trace_path, "w") as f:
        f.write("\n".join(out_lines) + ("\n" if out_lines else ""))
    if restarts:
        ctx.notes["driver_restarts"] = ctx.notes.get("driver_restarts", 0) + restarts
    return restarts


def replay_lines(lines):
    """The calls of a replay file: a Crash event stands for the call the driver died in."""
    out = []
    for l in lines:
        if "_meta" in l:
            continue
        if l.get("op") == "Crash":
            d = l.get("a", {}).get("during")
            if d:
                out.append(d)
            continue
        out.append(l)
    return out


def signature_of(ev):
    """What kind of call was rejected: operation and its non-numeric arguments (used to report one replay per kind)."""
    op, a = ev.get("op"), ev.get("a", {})
    if not isinstance(a, dict):
        a = {}
    keep = lambda d: tuple(sorted((k, v) for k, v in d.items() if isinstance(v, str) or k in ("self", "re")))
    if op == "Crash":
        d = a.get("during", {}) or {}
        return ("Crash", a.get("why"), d.get("op")) + keep(d.get("a", {}) if isinstance(d.get("a"), dict) else {})
    return (op,) + keep(a)


def dedupe_violations(ctx, max_reported=12):
    """Keep one replay per kind of rejected call (signatures are recorded by the classify callback under
    ctx.notes["_sigs"], keyed by the index the violation got), at most max_reported of them."""
    sigs = ctx.notes.pop("_sigs", {})
    if "_hangs_total" in ctx.notes:
        ctx.notes["calls_stopped_by_the_cpu_limit"] = ctx.notes.pop("_hangs_total")
    seen, keep = set(), []
    total = len(ctx.violations)
    for i, (path, text) in enumerate(ctx.violations):
        sig = sigs.get(i, text[:200])
        if sig in seen or len(keep) >= max_reported:
            if os.path.dirname(path) == ctx.replays:
                try:
                    os.remove(path)
                except OSError:
                    pass
            continue
        seen.add(sig)
        keep.append((path, text))
    if total != len(keep):
        ctx.notes["rejections_total"] = total
    ctx.violations[:] = keep


# ------------------------------------------------------------------ stratified samples of enumerated transitions
def arg_class(call):
    """The stratum of a call inside its action: everything but the numeric position/size arguments."""
    a = call.get("a", {})
    return tuple(sorted((k, v) for k, v in a.items() if isinstance(v, str) or (k in ("self", "re", "v", "h") and isinstance(v, (int, bool)))))


def water_fill(groups, budget, rnd):
    """groups: dict key -> list.  Share `budget` over the groups as evenly as possible (small groups are taken
    whole, what they leave goes to the larger ones); inside a group a seeded random sample."""
    out = {}
    keys = sorted(groups, key=lambda g: (len(groups[g]), str(g)))
    left, n = budget, len(keys)
    for g in keys:
        quota = max(1, left // max(n, 1))
        items = groups[g]
        take = items if len(items) <= quota else rnd.sample(items, quota)
        out[g] = take
        left -= len(take)
        n -= 1
    return out


def stratified_sample(edges, limit, rnd, action_of=lambda e: e["l"]["op"], class_of=lambda e: arg_class(e["l"])):
    """A sample of the enumerated transitions stratified first over actions (action_of), then over argument classes
    (class_of: access path, write kind, swap kind, self/other operand, value).
    Returns (sample, {action: [enumerated, replayed]})."""
    by_op = {}
    for e in edges:
        by_op.setdefault(action_of(e), []).append(e)
    stats = {}
    if not limit or len(edges) <= limit:
        for op, es in by_op.items():
            stats[str(op)] = [len(es), len(es)]
        return edges, stats
    sizes = {op: list(range(len(es))) for op, es in by_op.items()}
    budget = {op: len(v) for op, v in water_fill(sizes, limit, rnd).items()}
    sample = []
    for op in sorted(by_op, key=str):
        by_cls = {}
        for e in by_op[op]:
            by_cls.setdefault(class_of(e), []).append(e)
        taken = water_fill(by_cls, budget[op], rnd)
        n = 0
        for cls in sorted(taken, key=str):
            sample.extend(taken[cls])
            n += len(taken[cls])
        stats[str(op)] = [len(by_op[op]), n]
    return sample, stats
